/* LD_PRELOAD interposer for getentropy(3), used by the CLI checks (C12, C18).
 *
 *   GE_SEED=<u64>       deliver deterministic bytes: call i gets the stream
 *                       Prng(GE_SEED ^ (i+1)*0xD1B54A32D192ED03) of the harness
 *                       (splitmix64), little-endian words. Unset: real entropy.
 *   GE_LOG=<path>       append one line per call: "<i> <len> <hex bytes>" or
 *                       "<i> <len> ERR <errno>" (single write, O_APPEND).
 *   GE_FAIL_FROM=<k>    calls with index >= k fail with errno EIO.
 *   GE_FAIL_AT=<k>      only the call with index k fails with errno EIO (a transient failure).
 *   GE_JITTER_US=<max>  schedule perturbation: every call first sleeps a pseudo-random time below
 *                       <max> microseconds scaled by a per-thread slowness factor 0..7/4, so that
 *                       which worker thread of a vanity search wins varies between runs.
 */
#define _GNU_SOURCE
#include <dlfcn.h>
#include <errno.h>
#include <fcntl.h>
#include <stdint.h>
#include <stdio.h>
#include <stdlib.h>
#include <string.h>
#include <unistd.h>

static uint64_t splitmix(uint64_t x) {
    x += 0x9e3779b97f4a7c15ULL;
    uint64_t z = x;
    z = (z ^ (z >> 30)) * 0xbf58476d1ce4e5b9ULL;
    z = (z ^ (z >> 27)) * 0x94d049bb133111ebULL;
    return z ^ (z >> 31);
}

static uint64_t counter = 0;

static void log_call(uint64_t i, size_t len, const unsigned char *buf, int err) {
    const char *path = getenv("GE_LOG");
    if (!path) return;
    char line[64 + 2 * 256 + 2];
    int n = snprintf(line, sizeof line, "%llu %zu ", (unsigned long long)i, len);
    if (err) {
        n += snprintf(line + n, sizeof line - n, "ERR %d", err);
    } else {
        size_t m = len > 256 ? 256 : len;
        for (size_t k = 0; k < m; k++) n += snprintf(line + n, sizeof line - n, "%02x", buf[k]);
    }
    line[n++] = '\n';
    int fd = open(path, O_WRONLY | O_APPEND | O_CREAT, 0644);
    if (fd >= 0) {
        ssize_t w = write(fd, line, n);
        (void)w;
        close(fd);
    }
}

static __thread uint64_t thread_calls = 0;

static void jitter(void) {
    const char *j = getenv("GE_JITTER_US");
    if (!j) return;
    uint64_t max = strtoull(j, NULL, 10);
    if (max == 0) return;
    const char *seed_s = getenv("GE_SEED");
    uint64_t seed = seed_s ? strtoull(seed_s, NULL, 10) : 0x1234;
    uint64_t tid = (uint64_t)(uintptr_t)&thread_calls; /* distinct per thread */
    uint64_t slow = splitmix(seed ^ splitmix(tid)) % 8;
    uint64_t r = splitmix(seed ^ splitmix(tid) ^ (++thread_calls * 0x9e3779b97f4a7c15ULL)) % max;
    usleep((useconds_t)(r * slow / 4));
}

int getentropy(void *buffer, size_t len) {
    jitter();
    uint64_t i = __atomic_fetch_add(&counter, 1, __ATOMIC_SEQ_CST);
    const char *fail_from = getenv("GE_FAIL_FROM");
    if (fail_from && i >= strtoull(fail_from, NULL, 10)) {
        log_call(i, len, NULL, EIO);
        errno = EIO;
        return -1;
    }
    const char *fail_at = getenv("GE_FAIL_AT");
    if (fail_at && i == strtoull(fail_at, NULL, 10)) {
        log_call(i, len, NULL, EIO);
        errno = EIO;
        return -1;
    }
    const char *seed_s = getenv("GE_SEED");
    if (!seed_s) {
        int (*real)(void *, size_t) = (int (*)(void *, size_t))dlsym(RTLD_NEXT, "getentropy");
        if (!real) {
            errno = ENOSYS;
            return -1;
        }
        int r = real(buffer, len);
        log_call(i, len, buffer, r < 0 ? (errno ? errno : EIO) : 0);
        return r;
    }
    if (len > 256) {
        log_call(i, len, NULL, EIO);
        errno = EIO;
        return -1;
    }
    uint64_t seed = strtoull(seed_s, NULL, 10);
    uint64_t state = splitmix(seed ^ ((i + 1) * 0xD1B54A32D192ED03ULL)) | 1;
    unsigned char *out = buffer;
    size_t k = 0;
    while (k < len) {
        state += 0x9e3779b97f4a7c15ULL;
        uint64_t z = state;
        z = (z ^ (z >> 30)) * 0xbf58476d1ce4e5b9ULL;
        z = (z ^ (z >> 27)) * 0x94d049bb133111ebULL;
        z ^= z >> 31;
        for (int b = 0; b < 8 && k < len; b++, k++) out[k] = (unsigned char)(z >> (8 * b));
    }
    log_call(i, len, out, 0);
    return 0;
}
