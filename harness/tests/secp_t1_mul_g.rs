mod common;
use common::*;
use hdv::refimpl::secp::{self, B32};

fn check_mul_g(k: &B32) {
    assert!(secp::is_valid_secret(k), "test scalar out of range: {}", hex::encode(k));
    let p = secp::mul_g(k).unwrap_or_else(|| panic!("mul_g None for {}", hex::encode(k)));
    assert!(secp::on_curve(&p), "not on curve for {}", hex::encode(k));
    let (unc, comp) = k_pubkey(k);
    assert_eq!(&secp::uncompressed(&p)[..], &unc[..], "uncompressed mismatch k={}", hex::encode(k));
    assert_eq!(&secp::compressed(&p)[..], &comp[..], "compressed mismatch k={}", hex::encode(k));
}

#[test]
fn mul_g_fixed_scalars() {
    let mut count = 0usize;
    let n = secp::N;
    let fixed = [
        small(1),
        small(2),
        small(3),
        sub_small(&n, 1),
        sub_small(&n, 2),
        secp::HALF_N,
        add_small(&secp::HALF_N, 1),
    ];
    for k in fixed.iter() {
        check_mul_g(k);
        count += 1;
    }
    for k in 1..256usize {
        for v in [sub_small(&pow2(k), 1), pow2(k), add_small(&pow2(k), 1)] {
            if secp::is_valid_secret(&v) {
                check_mul_g(&v);
                count += 1;
            }
        }
    }
    // all 4-bit window digits in every window position
    for pos in 0..64usize {
        for d in 1..16u8 {
            let mut v = [0u8; 32];
            v[31 - pos / 2] = if pos % 2 == 0 { d } else { d << 4 };
            if secp::is_valid_secret(&v) {
                check_mul_g(&v);
                count += 1;
            }
        }
    }
    println!("mul_g_fixed_scalars: {count} scalars checked");
    assert!(count > 765);
}

#[test]
fn mul_g_generator_and_known_vectors() {
    assert_eq!(secp::mul_g(&small(1)).unwrap(), secp::generator());
    // 2G, well-known
    let two_g = secp::mul_g(&small(2)).unwrap();
    assert_eq!(
        hex::encode_upper(two_g.x),
        "C6047F9441ED7D6D3045406E95C07CD85C778E4B8CEF3CA7ABAC09B95C709EE5"
    );
    assert_eq!(
        hex::encode_upper(two_g.y),
        "1AE168FEA63DC339A3C58419466CEAEEF7F632653266D0E1236431A950CFE52A"
    );
}

#[test]
fn mul_g_random_uniform() {
    let mut rng = Rng::new(0x5EC9_0001);
    let mut count = 0usize;
    for _ in 0..20_000 {
        check_mul_g(&rng.secret());
        count += 1;
    }
    println!("mul_g_random_uniform: {count} scalars checked");
}

#[test]
fn mul_g_random_biased() {
    let mut rng = Rng::new(0x5EC9_0002);
    let mut count = 0usize;
    let mut none = 0usize;
    for _ in 0..6_000 {
        let k = rng.biased();
        // mul_g takes k mod N; compare against k256 with the reduced scalar
        let kr = k_scalar_bytes(&k_scalar(&k));
        if secp::is_zero(&kr) {
            assert_eq!(secp::mul_g(&k), None);
            none += 1;
            continue;
        }
        let p = secp::mul_g(&k).expect("nonzero scalar");
        let (unc, comp) = k_pubkey(&kr);
        assert_eq!(&secp::uncompressed(&p)[..], &unc[..], "k={}", hex::encode(k));
        assert_eq!(&secp::compressed(&p)[..], &comp[..], "k={}", hex::encode(k));
        assert!(secp::on_curve(&p));
        count += 1;
    }
    println!("mul_g_random_biased: {count} checked, {none} zero-mod-N");
}

#[test]
fn mul_g_zero_n_and_n_plus_one() {
    assert_eq!(secp::mul_g(&[0u8; 32]), None);
    assert_eq!(secp::mul_g(&secp::N), None);
    assert_eq!(secp::mul_g(&add_small(&secp::N, 1)), Some(secp::generator()));
    assert_eq!(secp::mul_g(&add_small(&secp::N, 2)), secp::mul_g(&small(2)));
    // 2^256 - 1 mod N
    let r = secp::scalar_reduce(&MAX);
    assert_eq!(secp::mul_g(&MAX), secp::mul_g(&r));
    assert!(secp::mul_g(&MAX).is_some());
    // N-1 -> -G
    assert_eq!(secp::mul_g(&sub_small(&secp::N, 1)), Some(secp::neg(&secp::generator())));
}
