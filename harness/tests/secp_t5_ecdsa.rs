mod common;
use common::*;
use k256::ecdsa::hazmat::SignPrimitive;
use k256::ecdsa::signature::hazmat::PrehashVerifier;
use k256::ecdsa::{RecoveryId, Signature, SigningKey, VerifyingKey};
use k256::FieldBytes;
use hdv::refimpl::secp::{self, Point, B32};
use std::cmp::Ordering;

fn vk_point(vk: &VerifyingKey) -> Point {
    let ep = vk.to_encoded_point(false);
    let mut x = [0u8; 32];
    let mut y = [0u8; 32];
    x.copy_from_slice(ep.x().unwrap());
    y.copy_from_slice(ep.y().unwrap());
    Point { x, y }
}

fn sig_parts(sig: &Signature) -> (B32, B32) {
    let mut r = [0u8; 32];
    let mut s = [0u8; 32];
    r.copy_from_slice(&sig.r().to_bytes());
    s.copy_from_slice(&sig.s().to_bytes());
    (r, s)
}

fn flip_bit(v: &B32, bit: usize) -> B32 {
    let mut o = *v;
    o[31 - bit / 8] ^= 1 << (bit % 8);
    o
}

#[test]
fn k256_signatures_verify_and_recover() {
    let mut rng = Rng::new(0xEC05_0001);
    let mut count = 0usize;
    let mut rejects = 0usize;
    for i in 0..3000 {
        let d = rng.secret();
        // digests: mostly uniform, sometimes edge-biased (including >= N and 0)
        let z = if i % 4 == 0 { rng.biased() } else { rng.b32() };
        let sk = SigningKey::from_slice(&d).unwrap();
        let (sig, recid) = sk.sign_prehash_recoverable(&z).unwrap();
        let (r, s) = sig_parts(&sig);
        let q = vk_point(sk.verifying_key());
        assert_eq!(Some(q), secp::mul_g(&d));
        assert!(!recid.is_x_reduced());

        assert!(secp::ecdsa_verify(&z, &r, &s, &q), "verify d={} z={}", hex::encode(d), hex::encode(z));
        // k256 emits low-s
        assert_ne!(secp::cmp(&s, &secp::HALF_N), Ordering::Greater);
        // the high-s twin verifies as well (plain ECDSA)
        let s_high = secp::scalar_neg(&s);
        assert!(secp::ecdsa_verify(&z, &r, &s_high, &q));

        // recovery
        assert_eq!(secp::ecdsa_recover(&z, &r, &s, recid.is_y_odd()), Some(q));
        let other = secp::ecdsa_recover(&z, &r, &s, !recid.is_y_odd());
        assert_ne!(other, Some(q));
        // high-s twin recovers with flipped parity
        assert_eq!(secp::ecdsa_recover(&z, &r, &s_high, !recid.is_y_odd()), Some(q));
        // whatever the other parity recovers must itself verify the signature
        if let Some(o) = other {
            assert!(secp::on_curve(&o));
            assert!(secp::ecdsa_verify(&z, &r, &s, &o));
            // and k256 agrees on it
            let rid = RecoveryId::new(!recid.is_y_odd(), false);
            let kv = VerifyingKey::recover_from_prehash(&z, &sig, rid).unwrap();
            assert_eq!(vk_point(&kv), o);
        }

        // perturbations must be rejected
        let bit = rng.below(256) as usize;
        for (zz, rr, ss) in [
            (flip_bit(&z, bit), r, s),
            (z, flip_bit(&r, bit), s),
            (z, r, flip_bit(&s, bit)),
            (add_small(&z, 1), r, s),
            (z, add_small(&r, 1), s),
            (z, r, add_small(&s, 1)),
            (z, s, r),
        ] {
            assert!(!secp::ecdsa_verify(&zz, &rr, &ss, &q), "accepted perturbed sig");
            rejects += 1;
        }
        // wrong key
        let q2 = secp::mul_g(&rng.secret()).unwrap();
        assert!(!secp::ecdsa_verify(&z, &r, &s, &q2));
        // z + N (when it fits) is the same message scalar
        count += 1;
    }
    println!("k256_signatures_verify_and_recover: {count} signatures, {rejects} perturbed rejections");
}

#[test]
fn verify_range_checks() {
    let mut rng = Rng::new(0xEC05_0002);
    let d = rng.secret();
    let z = rng.b32();
    let k = rng.secret();
    let q = secp::mul_g(&d).unwrap();
    let (r, s, odd, over) = secp::ecdsa_sign_with_nonce(&z, &d, &k).unwrap();
    assert!(!over);
    assert!(secp::ecdsa_verify(&z, &r, &s, &q));
    let zero = [0u8; 32];
    for (rr, ss) in [
        (zero, s),
        (r, zero),
        (secp::N, s),
        (r, secp::N),
        (MAX, s),
        (r, MAX),
    ] {
        assert!(!secp::ecdsa_verify(&z, &rr, &ss, &q));
        assert_eq!(secp::ecdsa_recover(&z, &rr, &ss, odd), None);
    }
    // r + N and s + N are congruent but out of range: must be rejected (only fits if small)
    // off-curve public key is rejected, not a panic
    let mut bad = q;
    bad.y[31] ^= 1;
    assert!(!secp::ecdsa_verify(&z, &r, &s, &bad));
    // z and z mod N are interchangeable
    let z_big = add_small(&secp::N, 12345);
    let z_red = small(12345);
    let (r1, s1, o1, _) = secp::ecdsa_sign_with_nonce(&z_big, &d, &k).unwrap();
    let (r2, s2, o2, _) = secp::ecdsa_sign_with_nonce(&z_red, &d, &k).unwrap();
    assert_eq!((r1, s1, o1), (r2, s2, o2));
    assert!(secp::ecdsa_verify(&z_red, &r1, &s1, &q));
    assert!(secp::ecdsa_verify(&z_big, &r1, &s1, &q));
    assert_eq!(secp::ecdsa_recover(&z_big, &r1, &s1, o1), Some(q));
    // invalid d / k
    assert_eq!(secp::ecdsa_sign_with_nonce(&z, &zero, &k), None);
    assert_eq!(secp::ecdsa_sign_with_nonce(&z, &d, &zero), None);
    assert_eq!(secp::ecdsa_sign_with_nonce(&z, &secp::N, &k), None);
    assert_eq!(secp::ecdsa_sign_with_nonce(&z, &d, &secp::N), None);
    // lift failure: pick r that is not an x coordinate
    let mut found = false;
    for x in 1..50u64 {
        if secp::lift_x(&small(x), false).is_none() {
            assert_eq!(secp::ecdsa_recover(&z, &small(x), &s, false), None);
            assert_eq!(secp::ecdsa_recover(&z, &small(x), &s, true), None);
            found = true;
        }
    }
    assert!(found);
}

#[test]
fn sign_with_nonce_cross_checks() {
    let mut rng = Rng::new(0xEC05_0003);
    let mut count = 0usize;
    let mut high = 0usize;
    for i in 0..3000 {
        let d = rng.secret();
        let k = if i % 5 == 0 {
            // small / structured nonces too
            let c = rng.biased();
            if secp::is_valid_secret(&c) { c } else { rng.secret() }
        } else {
            rng.secret()
        };
        let z = if i % 4 == 0 { rng.biased() } else { rng.b32() };
        let q = secp::mul_g(&d).unwrap();
        let (r, s, y_odd, x_over) = secp::ecdsa_sign_with_nonce(&z, &d, &k).expect("sign");
        assert!(!x_over);
        assert!(secp::is_valid_secret(&r) && secp::is_valid_secret(&s));

        // R = kG relationship
        let big_r = secp::mul_g(&k).unwrap();
        assert_eq!(secp::scalar_reduce(&big_r.x), r);
        assert_eq!(big_r.y[31] & 1 == 1, y_odd);

        // own verifier + recovery
        assert!(secp::ecdsa_verify(&z, &r, &s, &q));
        assert_eq!(secp::ecdsa_recover(&z, &r, &s, y_odd), Some(q));

        // k256 verifier (it insists on low-s, so normalise first)
        let is_high = secp::cmp(&s, &secp::HALF_N) == Ordering::Greater;
        let (s_low, odd_low) = if is_high { (secp::scalar_neg(&s), !y_odd) } else { (s, y_odd) };
        if is_high {
            high += 1;
        }
        let vk = VerifyingKey::from_sec1_bytes(&secp::uncompressed(&q)).unwrap();
        let ksig = Signature::from_scalars(FieldBytes::from(r), FieldBytes::from(s_low)).unwrap();
        vk.verify_prehash(&z, &ksig).expect("k256 rejects our signature");
        if is_high {
            let ksig_high = Signature::from_scalars(FieldBytes::from(r), FieldBytes::from(s)).unwrap();
            assert!(vk.verify_prehash(&z, &ksig_high).is_err()); // k256 policy, not ours
            assert_eq!(ksig_high.normalize_s().unwrap(), ksig);
        }
        // k256 recovery agrees on parity
        let kv = VerifyingKey::recover_from_prehash(&z, &ksig, RecoveryId::new(odd_low, false)).unwrap();
        assert_eq!(vk_point(&kv), q);

        // k256's own raw signing primitive with the same nonce gives the same (r, low-s, parity)
        let (psig, prid) = k_scalar(&d)
            .try_sign_prehashed(k_scalar(&k), &FieldBytes::from(z))
            .unwrap();
        assert_eq!(sig_parts(&psig), (r, s_low));
        assert_eq!(prid.unwrap().is_y_odd(), odd_low);
        assert!(!prid.unwrap().is_x_reduced());
        count += 1;
    }
    println!("sign_with_nonce_cross_checks: {count} signatures ({high} were high-s before normalisation)");
    assert!(high > 1000 && high < 2000);
}

#[test]
fn recover_vs_k256_on_arbitrary_inputs() {
    // Recovery is defined for any (z, r, s, parity) with a liftable r: compare
    // with k256 even when no signer produced the values.
    let mut rng = Rng::new(0xEC05_0004);
    let mut some = 0usize;
    let mut none = 0usize;
    for _ in 0..2000 {
        let z = rng.b32();
        let r = rng.secret();
        let s_any = rng.secret();
        let s = if secp::cmp(&s_any, &secp::HALF_N) == Ordering::Greater { secp::scalar_neg(&s_any) } else { s_any };
        let odd = rng.below(2) == 1;
        let ours = secp::ecdsa_recover(&z, &r, &s, odd);
        let ksig = Signature::from_scalars(FieldBytes::from(r), FieldBytes::from(s)).unwrap();
        let theirs = VerifyingKey::recover_from_prehash(&z, &ksig, RecoveryId::new(odd, false)).ok();
        match (ours, theirs) {
            (Some(o), Some(t)) => {
                assert_eq!(o, vk_point(&t));
                assert!(secp::ecdsa_verify(&z, &r, &s, &o));
                some += 1;
            }
            (None, None) => {
                assert!(secp::lift_x(&r, odd).is_none());
                none += 1;
            }
            (o, t) => panic!("recover disagreement: ours={:?} theirs={:?}", o, t.map(|t| vk_point(&t))),
        }
    }
    println!("recover_vs_k256_on_arbitrary_inputs: {some} recovered, {none} unliftable");
    assert!(some > 500 && none > 500);
}

#[test]
fn zero_and_order_digests() {
    // z = 0 (mod N) makes u1 = 0, i.e. the G-term of verification is infinity.
    let mut rng = Rng::new(0xEC05_0005);
    for z in [[0u8; 32], secp::N] {
        for _ in 0..50 {
            let d = rng.secret();
            let sk = SigningKey::from_slice(&d).unwrap();
            let (sig, recid) = sk.sign_prehash_recoverable(&z).unwrap();
            let (r, s) = sig_parts(&sig);
            let q = vk_point(sk.verifying_key());
            assert!(secp::ecdsa_verify(&z, &r, &s, &q));
            assert_eq!(secp::ecdsa_recover(&z, &r, &s, recid.is_y_odd()), Some(q));
            let k = rng.secret();
            let (r2, s2, odd2, _) = secp::ecdsa_sign_with_nonce(&z, &d, &k).unwrap();
            assert!(secp::ecdsa_verify(&z, &r2, &s2, &q));
            assert!(secp::ecdsa_verify(&[0u8; 32], &r2, &s2, &q));
            assert_eq!(secp::ecdsa_recover(&z, &r2, &s2, odd2), Some(q));
        }
    }
}

#[test]
fn degenerate_final_addition() {
    // Craft inputs so that the last point addition inside verify / recover
    // meets equal points (doubling) or opposite points (infinity).
    let mut rng = Rng::new(0xEC05_0006);
    let two_inv = secp::scalar_inv(&small(2)).unwrap();
    for _ in 0..200 {
        let d = rng.secret();
        let k = rng.secret();
        let q = secp::mul_g(&d).unwrap();
        let r = secp::scalar_reduce(&secp::mul_g(&k).unwrap().x);
        let rd = secp::scalar_mul(&r, &d);
        let vk = VerifyingKey::from_sec1_bytes(&secp::uncompressed(&q)).unwrap();

        // verify: z = r d  =>  u1 G == u2 Q (doubling in the final addition)
        let z = rd;
        let (r1, s1, odd1, _) = secp::ecdsa_sign_with_nonce(&z, &d, &k).unwrap();
        assert_eq!(r1, r);
        assert!(secp::ecdsa_verify(&z, &r1, &s1, &q));
        assert_eq!(secp::ecdsa_recover(&z, &r1, &s1, odd1), Some(q));
        let s_low = if secp::cmp(&s1, &secp::HALF_N) == Ordering::Greater { secp::scalar_neg(&s1) } else { s1 };
        let ksig = Signature::from_scalars(FieldBytes::from(r1), FieldBytes::from(s_low)).unwrap();
        vk.verify_prehash(&z, &ksig).unwrap();

        // verify: z = -r d  =>  u1 G == -(u2 Q): R is infinity for every s; signing yields s == 0
        let z = secp::scalar_neg(&rd);
        assert_eq!(secp::ecdsa_sign_with_nonce(&z, &d, &k), None);
        let s_any = rng.secret();
        assert!(!secp::ecdsa_verify(&z, &r, &s_any, &q));
        let s_any_low = if secp::cmp(&s_any, &secp::HALF_N) == Ordering::Greater { secp::scalar_neg(&s_any) } else { s_any };
        let ksig = Signature::from_scalars(FieldBytes::from(r), FieldBytes::from(s_any_low)).unwrap();
        assert!(vk.verify_prehash(&z, &ksig).is_err());

        // recover: z = -r d / 2  =>  s k = -z  =>  u1 G == u2 R (doubling)
        let z = secp::scalar_neg(&secp::scalar_mul(&rd, &two_inv));
        let (r3, s3, odd3, _) = secp::ecdsa_sign_with_nonce(&z, &d, &k).unwrap();
        assert_eq!(secp::scalar_mul(&s3, &k), secp::scalar_neg(&z));
        assert_eq!(secp::ecdsa_recover(&z, &r3, &s3, odd3), Some(q));
        assert!(secp::ecdsa_verify(&z, &r3, &s3, &q));

        // recover: s R == z G  =>  result is infinity  =>  None.
        // Take R = kG, any s, z = s k.
        let big_r = secp::mul_g(&k).unwrap();
        let s = rng.secret();
        let z = secp::scalar_mul(&s, &k);
        assert_eq!(secp::ecdsa_recover(&z, &r, &s, big_r.y[31] & 1 == 1), None);
        let s_low = if secp::cmp(&s, &secp::HALF_N) == Ordering::Greater { secp::scalar_neg(&s) } else { s };
        let z_low = secp::scalar_mul(&s_low, &k);
        let ksig = Signature::from_scalars(FieldBytes::from(r), FieldBytes::from(s_low)).unwrap();
        let rid = RecoveryId::new(big_r.y[31] & 1 == 1, false);
        assert!(VerifyingKey::recover_from_prehash(&z_low, &ksig, rid).is_err());
        assert_eq!(secp::ecdsa_recover(&z_low, &r, &s_low, big_r.y[31] & 1 == 1), None);
    }
}
