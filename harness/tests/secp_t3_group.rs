mod common;
use common::*;
use hdv::refimpl::secp::{self, Point};

#[test]
fn add_mul_consistency() {
    let mut rng = Rng::new(0x6709_0001);
    let g = secp::generator();
    let mut count = 0usize;
    for i in 0..1500 {
        let (a, b) = if i % 3 == 0 { (rng.biased(), rng.biased()) } else { (rng.secret(), rng.secret()) };
        let pa = secp::mul(&g, &a);
        let pb = secp::mul(&g, &b);
        // mul(G, a) agrees with mul_g(a) including the None case
        assert_eq!(pa, secp::mul_g(&a), "a={}", hex::encode(a));
        assert_eq!(pb, secp::mul_g(&b));

        // aG + bG == (a+b)G
        let sum_scalar = secp::scalar_add(&a, &b);
        let expect_sum = secp::mul_g(&sum_scalar);
        let got_sum = match (pa, pb) {
            (Some(pa), Some(pb)) => secp::add(&pa, &pb),
            (Some(p), None) | (None, Some(p)) => Some(p),
            (None, None) => None,
        };
        assert_eq!(got_sum, expect_sum, "a={} b={}", hex::encode(a), hex::encode(b));

        // b * (aG) == (ab)G
        if let Some(pa) = pa {
            let prod = secp::scalar_mul(&a, &b);
            assert_eq!(secp::mul(&pa, &b), secp::mul_g(&prod), "a={} b={}", hex::encode(a), hex::encode(b));

            // a + (-a) == infinity
            let na = secp::neg(&pa);
            assert!(secp::on_curve(&na));
            assert_eq!(secp::add(&pa, &na), None);
            assert_eq!(secp::add(&na, &pa), None);
            assert_eq!(Some(na), secp::mul_g(&secp::scalar_neg(&a)));

            // doubling through add == mul by 2 == mul_g(2a)
            let dbl = secp::add(&pa, &pa);
            assert_eq!(dbl, secp::mul(&pa, &small(2)));
            assert_eq!(dbl, secp::mul_g(&secp::scalar_add(&a, &a)));
            if let Some(d) = dbl {
                assert!(secp::on_curve(&d));
            }
            // commutativity
            if let Some(pb) = pb {
                assert_eq!(secp::add(&pa, &pb), secp::add(&pb, &pa));
            }
        }
        count += 1;
    }
    println!("add_mul_consistency: {count} iterations");
}

#[test]
fn add_and_mul_vs_k256() {
    let mut rng = Rng::new(0x6709_0002);
    let mut count = 0usize;
    for i in 0..3000 {
        let pa = secp::mul_g(&rng.secret()).unwrap();
        let pb = secp::mul_g(&rng.secret()).unwrap();
        let ka = k_point(&pa);
        let kb = k_point(&pb);
        assert_eq!(secp::add(&pa, &pb), from_k_point(&(ka + kb)));
        assert_eq!(secp::neg(&pa), from_k_point(&(-ka)).unwrap());
        assert_eq!(secp::add(&pa, &pa), from_k_point(&(ka + ka)));
        // general mul by an arbitrary (possibly >= N, possibly 0) 256-bit integer
        let k = if i % 2 == 0 { rng.biased() } else { rng.b32() };
        assert_eq!(secp::mul(&pa, &k), from_k_point(&(ka * k_scalar(&k))), "k={}", hex::encode(k));
        count += 1;
    }
    println!("add_and_mul_vs_k256: {count} iterations");
}

#[test]
fn mul_boundary_scalars() {
    let mut rng = Rng::new(0x6709_0003);
    let mut count = 0usize;
    for _ in 0..8 {
        let p = secp::mul_g(&rng.secret()).unwrap();
        let kp = k_point(&p);
        for k in boundary_values() {
            assert_eq!(secp::mul(&p, &k), from_k_point(&(kp * k_scalar(&k))), "k={}", hex::encode(k));
            count += 1;
        }
        assert_eq!(secp::mul(&p, &[0u8; 32]), None);
        assert_eq!(secp::mul(&p, &secp::N), None);
        assert_eq!(secp::mul(&p, &small(1)), Some(p));
        assert_eq!(secp::mul(&p, &add_small(&secp::N, 1)), Some(p));
        assert_eq!(secp::mul(&p, &sub_small(&secp::N, 1)), Some(secp::neg(&p)));
    }
    println!("mul_boundary_scalars: {count} (point, scalar) pairs");
}

#[test]
fn small_multiples_chain() {
    // k*G built by repeated affine addition must equal mul_g(k) and mul(G, k)
    let g = secp::generator();
    let mut acc: Point = g;
    for k in 2..400u64 {
        acc = secp::add(&acc, &g).unwrap();
        assert_eq!(Some(acc), secp::mul_g(&small(k)));
        assert_eq!(Some(acc), secp::mul(&g, &small(k)));
    }
}

#[test]
#[should_panic(expected = "not on curve")]
fn mul_rejects_off_curve_point() {
    let mut p = secp::generator();
    p.y[31] ^= 1;
    let _ = secp::mul(&p, &small(2));
}

#[test]
fn on_curve_rejects() {
    let g = secp::generator();
    let mut p = g;
    p.y[31] ^= 1;
    assert!(!secp::on_curve(&p));
    let mut p = g;
    p.x[0] ^= 0x80;
    assert!(!secp::on_curve(&p));
    // coordinates >= P are rejected even if congruent to a valid point:
    // x = 1 is on the curve? use a point with tiny x if one exists, shifted by P.
    let mut found = 0;
    for x in 1..200u64 {
        if let Some(pt) = secp::lift_x(&small(x), false) {
            assert!(secp::on_curve(&pt));
            let shifted = Point { x: add_small(&secp::P, x), y: pt.y };
            // P + x < 2^256 for small x, and is congruent to x mod P
            assert!(!secp::on_curve(&shifted));
            found += 1;
        }
    }
    assert!(found > 50);
    assert!(!secp::on_curve(&Point { x: [0u8; 32], y: [0u8; 32] }));
    assert!(!secp::on_curve(&Point { x: secp::P, y: secp::P }));
}
