mod common;
use common::*;
use proptest::prelude::*;
use hdv::refimpl::secp::{self, Point};

fn padd(a: Option<Point>, b: Option<Point>) -> Option<Point> {
    match (a, b) {
        (Some(a), Some(b)) => secp::add(&a, &b),
        (Some(p), None) | (None, Some(p)) => Some(p),
        (None, None) => None,
    }
}

proptest! {
    #![proptest_config(ProptestConfig { cases: 400, failure_persistence: None, ..ProptestConfig::default() })]

    #[test]
    fn point_addition_is_associative(a in any::<[u8; 32]>(), b in any::<[u8; 32]>(), c in any::<[u8; 32]>()) {
        let (pa, pb, pc) = (secp::mul_g(&a), secp::mul_g(&b), secp::mul_g(&c));
        prop_assert_eq!(padd(padd(pa, pb), pc), padd(pa, padd(pb, pc)));
        let abc = secp::scalar_add(&secp::scalar_add(&a, &b), &c);
        prop_assert_eq!(padd(padd(pa, pb), pc), secp::mul_g(&abc));
    }

    #[test]
    fn scalar_mul_distributes(a in any::<[u8; 32]>(), k in any::<[u8; 32]>(), l in any::<[u8; 32]>()) {
        if let Some(p) = secp::mul_g(&a) {
            let lhs = secp::mul(&p, &secp::scalar_add(&k, &l));
            let rhs = padd(secp::mul(&p, &k), secp::mul(&p, &l));
            prop_assert_eq!(lhs, rhs);
            let nested = secp::mul(&p, &k).and_then(|q| secp::mul(&q, &l));
            prop_assert_eq!(nested, secp::mul(&p, &secp::scalar_mul(&k, &l)));
        }
    }

    #[test]
    fn scalar_ring_laws(a in any::<[u8; 32]>(), b in any::<[u8; 32]>(), c in any::<[u8; 32]>()) {
        use secp::{scalar_add as sa, scalar_mul as sm, scalar_neg as sn, scalar_reduce as sr};
        prop_assert_eq!(sa(&a, &b), sa(&b, &a));
        prop_assert_eq!(sm(&a, &b), sm(&b, &a));
        prop_assert_eq!(sa(&sa(&a, &b), &c), sa(&a, &sa(&b, &c)));
        prop_assert_eq!(sm(&sm(&a, &b), &c), sm(&a, &sm(&b, &c)));
        prop_assert_eq!(sm(&a, &sa(&b, &c)), sa(&sm(&a, &b), &sm(&a, &c)));
        prop_assert_eq!(sa(&a, &sn(&a)), [0u8; 32]);
        prop_assert_eq!(sn(&sn(&a)), sr(&a));
        prop_assert_eq!(sa(&a, &[0u8; 32]), sr(&a));
        prop_assert_eq!(sm(&a, &small(1)), sr(&a));
    }

    #[test]
    fn sign_verify_recover_roundtrip(z in any::<[u8; 32]>(), d in any::<[u8; 32]>(), k in any::<[u8; 32]>()) {
        prop_assume!(secp::is_valid_secret(&d) && secp::is_valid_secret(&k));
        let q = secp::mul_g(&d).unwrap();
        let (r, s, odd, over) = secp::ecdsa_sign_with_nonce(&z, &d, &k).unwrap();
        prop_assert!(!over);
        prop_assert!(secp::ecdsa_verify(&z, &r, &s, &q));
        prop_assert_eq!(secp::ecdsa_recover(&z, &r, &s, odd), Some(q));
        let c = secp::compressed(&q);
        let mut x = [0u8; 32];
        x.copy_from_slice(&c[1..]);
        prop_assert_eq!(secp::lift_x(&x, c[0] == 3), Some(q));
    }
}
