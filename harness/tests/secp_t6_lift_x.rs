mod common;
use common::*;
use k256::elliptic_curve::point::DecompressPoint;
use k256::elliptic_curve::sec1::ToEncodedPoint;
use k256::elliptic_curve::subtle::Choice;
use k256::{AffinePoint, FieldBytes};
use hdv::refimpl::secp::{self, Point};

#[test]
fn lift_x_roundtrip_random_points() {
    let mut rng = Rng::new(0x11F7_0001);
    let mut count = 0usize;
    for _ in 0..4000 {
        let p = secp::mul_g(&rng.secret()).unwrap();
        assert!(secp::on_curve(&p));
        let odd = p.y[31] & 1 == 1;
        assert_eq!(secp::lift_x(&p.x, odd), Some(p));
        let other = secp::lift_x(&p.x, !odd).unwrap();
        assert!(secp::on_curve(&other));
        assert_eq!(other, secp::neg(&p));
        assert_eq!(other.y[31] & 1 == 1, !odd);
        // compressed encoding parity byte
        assert_eq!(secp::compressed(&p)[0], if odd { 3 } else { 2 });
        count += 1;
    }
    println!("lift_x_roundtrip_random_points: {count} points");
}

#[test]
fn lift_x_vs_k256_decompress() {
    let mut rng = Rng::new(0x11F7_0002);
    let mut some = 0usize;
    let mut none = 0usize;
    for i in 0..6000 {
        let x = if i % 3 == 0 { rng.biased() } else { rng.b32() };
        let odd = rng.below(2) == 1;
        let ours = secp::lift_x(&x, odd);
        let theirs: Option<AffinePoint> =
            AffinePoint::decompress(&FieldBytes::from(x), Choice::from(odd as u8)).into();
        match (ours, theirs) {
            (Some(o), Some(t)) => {
                let ep = t.to_encoded_point(false);
                assert_eq!(&o.x[..], &ep.x().unwrap()[..]);
                assert_eq!(&o.y[..], &ep.y().unwrap()[..]);
                assert!(secp::on_curve(&o));
                assert_eq!(o.y[31] & 1 == 1, odd);
                some += 1;
            }
            (None, None) => none += 1,
            (o, t) => panic!("lift_x disagreement x={} ours={:?} theirs={:?}", hex::encode(x), o, t.is_some()),
        }
    }
    println!("lift_x_vs_k256_decompress: {some} lifted, {none} not on curve");
    assert!(some > 2000 && none > 2000);
}

#[test]
fn lift_x_rejects_x_ge_p() {
    assert_eq!(secp::lift_x(&secp::P, false), None);
    assert_eq!(secp::lift_x(&secp::P, true), None);
    assert_eq!(secp::lift_x(&MAX, false), None);
    for v in 0..300u64 {
        // P + v is congruent to v; must be refused regardless of whether v lifts
        assert_eq!(secp::lift_x(&add_small(&secp::P, v), false), None);
        assert_eq!(secp::lift_x(&add_small(&secp::P, v), true), None);
    }
    // x = P - 1 handled like any other in-range value
    let x = sub_small(&secp::P, 1);
    let theirs: Option<AffinePoint> = AffinePoint::decompress(&FieldBytes::from(x), Choice::from(0)).into();
    assert_eq!(secp::lift_x(&x, false).is_some(), theirs.is_some());
    // x = 0: 7 is not a square mod P, so no point
    assert_eq!(secp::lift_x(&[0u8; 32], false), None);
    // x = 1: 8 is a square -> known point exists
    let p1: Point = secp::lift_x(&small(1), false).unwrap();
    assert!(secp::on_curve(&p1));
    assert_eq!(
        hex::encode(p1.y),
        "4218f20ae6c646b363db68605822fb14264ca8d2587fdd6fbc750d587e76a7ee"
    );
}
