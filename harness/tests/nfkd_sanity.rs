//! One-off sanity check of the hand-written table against the
//! `unicode-normalization` crate (dev-dependency only).
use hdv::refimpl::nfkd_pairs::{hangul_decompose, NON_EQUIVALENT, PAIRS};
use unicode_normalization::UnicodeNormalization;

fn nfkd(s: &str) -> String {
    s.nfkd().collect()
}

fn esc(s: &str) -> String {
    s.chars().map(|c| format!("U+{:04X} ", c as u32)).collect()
}

#[test]
fn pairs_match_crate() {
    assert!(PAIRS.len() >= 150);
    let mut bad = Vec::new();
    for (label, a, b) in PAIRS {
        if a == b {
            bad.push(format!("{label}: first == second"));
        }
        let na = nfkd(a);
        if na != *b {
            bad.push(format!("{label}: NFKD(first) = {} but table says {}", esc(&na), esc(b)));
        }
        let nb = nfkd(b);
        if nb != *b {
            bad.push(format!("{label}: second not NFKD-stable: NFKD(second) = {}", esc(&nb)));
        }
    }
    assert!(bad.is_empty(), "{} bad entries:\n{}", bad.len(), bad.join("\n"));
}

#[test]
fn non_equivalent_differ() {
    assert!(NON_EQUIVALENT.len() >= 25);
    let mut bad = Vec::new();
    for (label, a, b) in NON_EQUIVALENT {
        if nfkd(a) == nfkd(b) {
            bad.push(format!("{label}: NFKD forms are equal ({})", esc(&nfkd(a))));
        }
    }
    assert!(bad.is_empty(), "{} bad entries:\n{}", bad.len(), bad.join("\n"));
}

#[test]
fn hangul_all_syllables() {
    let mut n = 0;
    for cp in 0xAC00u32..=0xD7A3 {
        let c = char::from_u32(cp).unwrap();
        let got = hangul_decompose(c).unwrap_or_else(|| panic!("None for U+{cp:04X}"));
        let want: String = c.nfkd().collect();
        assert_eq!(got, want, "U+{cp:04X}");
        let k = got.chars().count();
        assert!(k == 2 || k == 3);
        n += 1;
    }
    assert_eq!(n, 11172);
    for c in ['\u{ABFF}', '\u{D7A4}', 'A', '\u{1100}'] {
        assert_eq!(hangul_decompose(c), None, "U+{:04X}", c as u32);
    }
}
