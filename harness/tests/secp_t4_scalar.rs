mod common;
use common::*;
use hdv::refimpl::secp::{self, B32};
use std::cmp::Ordering;

fn check_pair(a: &B32, b: &B32) {
    let ka = k_scalar(a);
    let kb = k_scalar(b);
    assert_eq!(secp::scalar_reduce(a), k_scalar_bytes(&ka), "reduce {}", hex::encode(a));
    assert_eq!(secp::scalar_add(a, b), k_scalar_bytes(&(ka + kb)), "add {} {}", hex::encode(a), hex::encode(b));
    assert_eq!(secp::scalar_mul(a, b), k_scalar_bytes(&(ka * kb)), "mul {} {}", hex::encode(a), hex::encode(b));
    assert_eq!(secp::scalar_neg(a), k_scalar_bytes(&(-ka)), "neg {}", hex::encode(a));
    let kinv: Option<k256::Scalar> = ka.invert().into();
    assert_eq!(secp::scalar_inv(a), kinv.map(|s| k_scalar_bytes(&s)), "inv {}", hex::encode(a));
    if let Some(inv) = secp::scalar_inv(a) {
        assert_eq!(secp::scalar_mul(a, &inv), small(1));
        assert!(secp::is_valid_secret(&inv));
    }
    // outputs are always fully reduced
    for out in [secp::scalar_add(a, b), secp::scalar_mul(a, b), secp::scalar_neg(a), secp::scalar_reduce(a)] {
        assert_eq!(secp::cmp(&out, &secp::N), Ordering::Less);
    }
}

#[test]
fn scalar_boundaries_all_pairs() {
    let vals = boundary_values();
    let mut count = 0usize;
    for a in &vals {
        for b in &vals {
            check_pair(a, b);
            count += 1;
        }
    }
    println!("scalar_boundaries_all_pairs: {count} pairs");
    // the explicitly requested ones
    assert_eq!(secp::scalar_reduce(&secp::N), [0u8; 32]);
    assert_eq!(secp::scalar_reduce(&add_small(&secp::N, 1)), small(1));
    assert_eq!(secp::scalar_inv(&[0u8; 32]), None);
    assert_eq!(secp::scalar_inv(&secp::N), None);
    assert_eq!(secp::scalar_inv(&small(1)), Some(small(1)));
    assert_eq!(secp::scalar_inv(&sub_small(&secp::N, 1)), Some(sub_small(&secp::N, 1)));
    assert_eq!(secp::scalar_neg(&[0u8; 32]), [0u8; 32]);
    assert_eq!(secp::scalar_neg(&secp::N), [0u8; 32]);
    assert_eq!(secp::scalar_neg(&small(1)), sub_small(&secp::N, 1));
}

#[test]
fn scalar_random_vs_k256() {
    let mut rng = Rng::new(0x5CA1_0001);
    let mut count = 0usize;
    for i in 0..30_000 {
        let (a, b) = match i % 3 {
            0 => (rng.b32(), rng.b32()),
            1 => (rng.biased(), rng.biased()),
            _ => (rng.b32(), rng.biased()),
        };
        check_pair(&a, &b);
        count += 1;
    }
    println!("scalar_random_vs_k256: {count} pairs");
}

#[test]
fn cmp_is_zero_valid_secret() {
    let mut rng = Rng::new(0x5CA1_0002);
    for _ in 0..20_000 {
        let a = rng.biased();
        let b = if rng.below(4) == 0 { a } else { rng.biased() };
        // compare against u128 pair ordering
        let hi = |v: &B32| u128::from_be_bytes(v[..16].try_into().unwrap());
        let lo = |v: &B32| u128::from_be_bytes(v[16..].try_into().unwrap());
        assert_eq!(secp::cmp(&a, &b), (hi(&a), lo(&a)).cmp(&(hi(&b), lo(&b))));
        assert_eq!(secp::is_zero(&a), a == [0u8; 32]);
        let valid_k256 = k256::SecretKey::from_slice(&a).is_ok();
        assert_eq!(secp::is_valid_secret(&a), valid_k256, "{}", hex::encode(a));
    }
    assert!(!secp::is_valid_secret(&[0u8; 32]));
    assert!(secp::is_valid_secret(&small(1)));
    assert!(secp::is_valid_secret(&sub_small(&secp::N, 1)));
    assert!(!secp::is_valid_secret(&secp::N));
    assert!(!secp::is_valid_secret(&add_small(&secp::N, 1)));
    assert!(!secp::is_valid_secret(&MAX));
}

#[test]
fn constants_vs_k256() {
    // N: k256 reduces N to zero and N-1 to -1
    assert_eq!(k_scalar(&secp::N), k256::Scalar::ZERO);
    assert_eq!(k_scalar(&sub_small(&secp::N, 1)), -k256::Scalar::ONE);
    // HALF_N = (N-1)/2
    let two = k256::Scalar::from(2u64);
    assert_eq!(k_scalar(&secp::HALF_N) * two + k256::Scalar::ONE, k256::Scalar::ZERO);
    assert_eq!(secp::HALF_N[0], 0x7F);
    // HALF_N is the largest low-s value according to k256
    let half = k256::NonZeroScalar::try_from(&secp::HALF_N[..]).unwrap();
    let half1 = k256::NonZeroScalar::try_from(&add_small(&secp::HALF_N, 1)[..]).unwrap();
    use k256::elliptic_curve::scalar::IsHigh;
    assert!(!bool::from(half.is_high()));
    assert!(bool::from(half1.is_high()));
    // P = 2^256 - 2^32 - 977, checked with byte-wise arithmetic
    assert_eq!(add_small(&secp::P, (1u64 << 32) + 977), [0u8; 32]);
    use k256::elliptic_curve::PrimeField;
    let _ = k256::Scalar::from_repr(secp::HALF_N.into()).unwrap();
    // G
    let g = secp::generator();
    assert_eq!(from_k_point(&k256::ProjectivePoint::GENERATOR), Some(g));
}
