#![allow(dead_code)]

use k256::elliptic_curve::ops::Reduce;
use k256::elliptic_curve::sec1::{FromEncodedPoint, ToEncodedPoint};
use k256::{AffinePoint, EncodedPoint, FieldBytes, ProjectivePoint, Scalar, U256};
use hdv::refimpl::secp::{self, Point, B32};

/// splitmix64: tiny seeded PRNG, no external crate.
pub struct Rng(pub u64);

impl Rng {
    pub fn new(seed: u64) -> Self {
        Rng(seed)
    }
    pub fn next_u64(&mut self) -> u64 {
        self.0 = self.0.wrapping_add(0x9E37_79B9_7F4A_7C15);
        let mut z = self.0;
        z = (z ^ (z >> 30)).wrapping_mul(0xBF58_476D_1CE4_E5B9);
        z = (z ^ (z >> 27)).wrapping_mul(0x94D0_49BB_1331_11EB);
        z ^ (z >> 31)
    }
    pub fn below(&mut self, n: u64) -> u64 {
        self.next_u64() % n
    }
    /// Uniform 256-bit value.
    pub fn b32(&mut self) -> B32 {
        let mut out = [0u8; 32];
        for c in out.chunks_mut(8) {
            c.copy_from_slice(&self.next_u64().to_be_bytes());
        }
        out
    }
    /// Uniform valid secret (1 <= k < N).
    pub fn secret(&mut self) -> B32 {
        loop {
            let k = self.b32();
            if secp::is_valid_secret(&k) {
                return k;
            }
        }
    }
    /// 256-bit value from a mixture biased towards edge cases.
    pub fn biased(&mut self) -> B32 {
        match self.below(8) {
            0 => small(self.next_u64()),
            1 => sub_small(&secp::N, self.below(1 << 20)),
            2 => add_small(&secp::N, self.below(1 << 20)),
            3 => sub_small(&[0xFF; 32], self.below(1 << 20)),
            4 => {
                // random value truncated to a random bit length
                let mut v = self.b32();
                let bits = self.below(257) as usize;
                for i in 0..256 - bits {
                    v[i / 8] &= !(0x80u8 >> (i % 8));
                }
                v
            }
            5 => {
                // sparse: a few set bits
                let mut v = [0u8; 32];
                for _ in 0..1 + self.below(4) {
                    let b = self.below(256) as usize;
                    v[31 - b / 8] |= 1 << (b % 8);
                }
                v
            }
            6 => {
                // dense: a few cleared bits
                let mut v = [0xFFu8; 32];
                for _ in 0..1 + self.below(4) {
                    let b = self.below(256) as usize;
                    v[31 - b / 8] &= !(1 << (b % 8));
                }
                v
            }
            _ => self.b32(),
        }
    }
}

pub fn small(v: u64) -> B32 {
    let mut out = [0u8; 32];
    out[24..].copy_from_slice(&v.to_be_bytes());
    out
}

/// a + v mod 2^256 (byte-wise, independent of the module under test).
pub fn add_small(a: &B32, v: u64) -> B32 {
    let mut out = *a;
    let mut carry = v as u128;
    for i in (0..32).rev() {
        let t = out[i] as u128 + (carry & 0xFF);
        out[i] = t as u8;
        carry = (carry >> 8) + (t >> 8);
    }
    out
}

/// a - v mod 2^256 (byte-wise).
pub fn sub_small(a: &B32, v: u64) -> B32 {
    // a - v = !(!a + v)
    let mut na = *a;
    for b in na.iter_mut() {
        *b = !*b;
    }
    let mut r = add_small(&na, v);
    for b in r.iter_mut() {
        *b = !*b;
    }
    r
}

/// 2^k as B32, 0 <= k < 256.
pub fn pow2(k: usize) -> B32 {
    let mut v = [0u8; 32];
    v[31 - k / 8] = 1 << (k % 8);
    v
}

pub const MAX: B32 = [0xFF; 32];

pub fn boundary_values() -> Vec<B32> {
    let n = secp::N;
    let mut v = vec![
        [0u8; 32],
        small(1),
        small(2),
        small(3),
        sub_small(&n, 2),
        sub_small(&n, 1),
        n,
        add_small(&n, 1),
        add_small(&n, 2),
        secp::HALF_N,
        add_small(&secp::HALF_N, 1),
        sub_small(&secp::HALF_N, 1),
        secp::P,
        sub_small(&secp::P, 1),
        add_small(&secp::P, 1),
        sub_small(&MAX, 1),
        MAX,
    ];
    for k in [1usize, 63, 64, 65, 127, 128, 129, 191, 192, 193, 255] {
        v.push(pow2(k));
        v.push(sub_small(&pow2(k), 1));
        v.push(add_small(&pow2(k), 1));
    }
    v
}

// ---- k256 adapters -------------------------------------------------------

pub fn k_scalar(b: &B32) -> Scalar {
    <Scalar as Reduce<U256>>::reduce_bytes(FieldBytes::from_slice(b))
}

pub fn k_scalar_bytes(s: &Scalar) -> B32 {
    let fb: FieldBytes = s.to_bytes();
    let mut out = [0u8; 32];
    out.copy_from_slice(&fb);
    out
}

pub fn k_point(p: &Point) -> ProjectivePoint {
    let ep = EncodedPoint::from_bytes(secp::uncompressed(p)).expect("sec1 parse");
    let ap: Option<AffinePoint> = AffinePoint::from_encoded_point(&ep).into();
    ap.expect("k256 rejects point").into()
}

pub fn from_k_point(p: &ProjectivePoint) -> Option<Point> {
    let ep = p.to_affine().to_encoded_point(false);
    if ep.is_identity() {
        return None;
    }
    let mut x = [0u8; 32];
    let mut y = [0u8; 32];
    x.copy_from_slice(ep.x().unwrap());
    y.copy_from_slice(ep.y().unwrap());
    Some(Point { x, y })
}

/// k*G computed by k256 through the SecretKey API (k must be a valid secret).
pub fn k_pubkey(k: &B32) -> (Vec<u8>, Vec<u8>) {
    let sk = k256::SecretKey::from_slice(k).expect("k256 rejects secret");
    let pk = sk.public_key();
    (
        pk.to_encoded_point(false).as_bytes().to_vec(),
        pk.to_encoded_point(true).as_bytes().to_vec(),
    )
}
