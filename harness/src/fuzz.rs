//! Entry points shared by the libFuzzer targets under /verif/fuzz: each target decodes the bytes with
//! the same decoder the proptest sub-check uses and applies the same oracle. A failed oracle panics
//! (libFuzzer saves the input); open known findings are tolerated so a campaign continues past them.

use crate::engine::{Classifier, Failure, Verdict};
use serde_json::Value;

pub const TARGETS: [&str; 9] =
    ["mnemonic", "path", "signature", "transaction", "typeddata", "structured_tx", "structured_712", "structured_c09", "structured_c13"];

/// (property, sub-check, case as JSON, verdict) for a fuzz input.
pub fn judge(target: &str, data: &[u8]) -> (&'static str, &'static str, Value, Verdict) {
    use crate::props::*;
    let mut cls = Classifier::default();
    let lib = |entry: &str, data: &[u8], cls: &mut Classifier| -> (Value, Verdict) {
        let c = c17::LibCase { entry: entry.to_string(), input_hex: crate::refimpl::hex_lower(data), origin: "fuzz".into() };
        let v = c17::replay("library", &serde_json::to_value(&c).unwrap()).unwrap();
        let _ = cls;
        (serde_json::to_value(&c).unwrap(), v)
    };
    match target {
        "mnemonic" => {
            // reference validity oracle on the text, plus the no-panic oracle
            let text = String::from_utf8_lossy(data).into_owned();
            let v = c01::judge_phrase(&text, &mut cls);
            ("C01", "phrase", serde_json::json!({"phrase": text}), v)
        }
        "path" => {
            let text = String::from_utf8_lossy(data).into_owned();
            let v = c14::judge_path_text(&text, &[7u8; 32], "fuzz", &mut cls);
            ("C14", "text", serde_json::json!({"text": text, "seed_hex": "07".repeat(32), "origin": "fuzz"}), v)
        }
        "signature" => {
            let text = String::from_utf8_lossy(data).into_owned();
            let v = c15::judge_text(&text, &mut cls);
            ("C15", "text", serde_json::json!({"text": text, "made_by": "fuzz"}), v)
        }
        "transaction" => {
            let (c, v) = lib("transaction", data, &mut cls);
            ("C17", "library", c, v)
        }
        "typeddata" => {
            let (c, v) = lib("typeddata", data, &mut cls);
            ("C17", "library", c, v)
        }
        "structured_tx" => {
            let c = c06::gen_case(data.to_vec());
            let j = serde_json::to_value(&c).unwrap();
            ("C06", "encode", j.clone(), c06::replay("encode", &j).unwrap())
        }
        "structured_712" => {
            let c = c08::gen_case(data.to_vec());
            let j = serde_json::to_value(&c).unwrap();
            ("C08", "digest", j.clone(), c08::replay("digest", &j).unwrap())
        }
        "structured_c09" => {
            let c = c09::gen_case_pub(data.to_vec());
            let j = serde_json::to_value(&c).unwrap();
            ("C09", "mutated", j.clone(), c09::replay("mutated", &j).unwrap())
        }
        "structured_c13" => {
            let c = c13::gen_case_pub(data.to_vec());
            let j = serde_json::to_value(&c).unwrap();
            ("C13", "numbers", j.clone(), c13::replay("numbers", &j).unwrap())
        }
        _ => ("", "", Value::Null, Ok(())),
    }
}

fn tolerated(f: &Failure) -> bool {
    // open known findings (kept in sync with known_findings.json by hand; strict mode ignores this)
    std::env::var_os("HDV_FUZZ_STRICT").is_none() && matches!(f.known, Some("json-float-literal-rounded"))
}

pub fn run(target: &str, data: &[u8]) {
    static HOOK: std::sync::Once = std::sync::Once::new();
    HOOK.call_once(crate::engine::install_panic_hook);
    let (prop, sub, _case, v) = judge(target, data);
    if let Err(f) = v {
        if !tolerated(&f) {
            panic!("ORACLE-FAILURE property={prop} subcheck={sub} note={} expected={} observed={}", f.note, crate::engine::truncate(&f.expected, 300), crate::engine::truncate(&f.observed, 300));
        }
    }
}

/// The oracle a property applies to a fuzz input of `target`: C17 uses the no-panic oracle on the
/// raw targets, every other property uses the target's own oracle.
pub fn judge_for(prop: &str, target: &str, data: &[u8]) -> (Value, Verdict) {
    if prop == "C17" {
        let c = crate::props::c17::LibCase { entry: target.to_string(), input_hex: crate::refimpl::hex_lower(data), origin: "fuzz".into() };
        let j = serde_json::to_value(&c).unwrap();
        let v = crate::props::c17::replay("library", &j).unwrap();
        return (j, v);
    }
    let (_, _, case, v) = judge(target, data);
    (case, v)
}

/// Targets each property drives: (target, sub-check name used in replay files, thorough runs).
pub fn targets_of(prop: &str) -> Vec<(&'static str, &'static str, u64)> {
    match prop {
        "C01" => vec![("mnemonic", "phrase", 5_000_000)],
        "C06" => vec![("structured_tx", "encode", 1_500_000)],
        "C08" => vec![("structured_712", "digest", 2_000_000)],
        "C09" => vec![("structured_c09", "mutated", 2_000_000)],
        "C13" => vec![("structured_c13", "numbers", 4_000_000)],
        "C14" => vec![("path", "text", 3_000_000)],
        "C15" => vec![("signature", "text", 5_000_000)],
        "C17" => vec![
            ("mnemonic", "library", 4_000_000),
            ("path", "library", 4_000_000),
            ("signature", "library", 4_000_000),
            ("transaction", "library", 4_000_000),
            ("typeddata", "library", 4_000_000),
        ],
        _ => vec![],
    }
}

/// Corpus replay (every tier) and campaigns (thorough) for the property of `ctx`.
pub fn run_for(ctx: &mut crate::engine::Ctx) {
    let prop = ctx.id.clone();
    for (target, sub, runs) in targets_of(&prop) {
        let p2 = prop.clone();
        let judge = move |d: &[u8]| judge_for(&p2, target, d);
        crate::fuzzrun::replay_corpus(ctx, target, sub, &judge);
        if ctx.tier == crate::engine::Tier::Thorough {
            crate::fuzzrun::campaign(ctx, target, sub, runs, 8, &judge);
        }
    }
}

/// Writes seed corpora: repository fixtures rendered by the generators (raw targets) and random
/// tapes (structured targets). Deterministic.
pub fn gen_corpus(dir: &std::path::Path, per_target: usize) -> std::io::Result<()> {
    use crate::engine::Prng;
    for t in TARGETS {
        let d = dir.join(t);
        std::fs::create_dir_all(&d)?;
        for i in 0..per_target {
            let mut p = Prng::new(crate::engine::derive_seed(0, &["corpus", t], i as u64));
            let tape = p.bytes(64 + (i * 37) % 1200);
            let mut u = crate::gen::U::new(&tape);
            let data: Vec<u8> = match t {
                "mnemonic" => {
                    let n = [12usize, 15, 18, 21, 24][i % 5];
                    let mut s = crate::refimpl::bip39::encode_phrase(&p.bytes(n * 4 / 3));
                    if i % 7 == 3 {
                        s = s.replace(' ', "\n");
                    }
                    s.into_bytes()
                }
                "path" => crate::refimpl::bip32::render(&crate::props::c03::gen_path(&mut u, 10)).into_bytes(),
                "signature" => {
                    let mut b = p.bytes(65);
                    b[64] = 27 + (i % 2) as u8;
                    b[0] &= 0x7f;
                    b[32] &= 0x3f;
                    format!("{}{}", if i % 2 == 0 { "0x" } else { "" }, crate::refimpl::hex_lower(&b)).into_bytes()
                }
                "transaction" => crate::gen::txgen::gen_case(&mut u, 60).doc.into_bytes(),
                "typeddata" => crate::gen::td::gen_case(&mut u).doc.into_bytes(),
                _ => tape.clone(),
            };
            std::fs::write(d.join(format!("seed-{i:03}")), data)?;
        }
    }
    Ok(())
}
