//! Drives the libFuzzer targets (thorough tiers) and replays the committed corpora (every tier).

use crate::engine::{Ctx, Verdict};
use serde_json::{json, Value};
use std::path::{Path, PathBuf};
use std::process::{Command, Stdio};

fn build_dir(root: &Path) -> PathBuf {
    std::env::var_os("HDV_BUILD").map(PathBuf::from).unwrap_or_else(|| root.join(".build"))
}

fn fuzz_bin(root: &Path, target: &str) -> PathBuf {
    let sfx = std::env::var("HDV_SFX").unwrap_or_default();
    build_dir(root).join(format!("fuzz{sfx}")).join("x86_64-unknown-linux-gnu/release").join(target)
}

fn corpus_files(ctx: &Ctx, target: &str) -> Vec<PathBuf> {
    let Some(fd) = &ctx.fuzz_dir else { return vec![] };
    let mut files: Vec<PathBuf> = std::fs::read_dir(fd.join("corpus").join(target))
        .map(|r| r.filter_map(|e| e.ok().map(|e| e.path())).filter(|p| p.is_file()).collect())
        .unwrap_or_default();
    files.sort();
    files
}

/// Re-judges every committed corpus file of `target` with `judge` (deterministic, in-process).
pub fn replay_corpus(ctx: &mut Ctx, target: &str, sub: &str, judge: &dyn Fn(&[u8]) -> (Value, Verdict)) {
    let files = corpus_files(ctx, target);
    let mut n = 0u64;
    for f in &files {
        let Ok(data) = std::fs::read(f) else { continue };
        ctx.cls.eval();
        n += 1;
        let (case, v) = judge(&data);
        if let Err(fl) = v {
            if let Some(k) = fl.known {
                if ctx.is_open_known(k) {
                    *ctx.cls.known_hits.entry(k.to_string()).or_insert(0) += 1;
                    continue;
                }
            }
            ctx.violation(sub, &case, &fl);
        }
    }
    ctx.cls.label_n(&format!("corpus-replay/{target}"), n);
    let e = ctx.extra.entry("fuzz".into()).or_insert_with(|| json!({}));
    e[target] = json!({"committed_corpus_files_replayed": n});
}

/// Runs a libFuzzer campaign of `runs` executions split over `jobs` processes. Crashes are
/// re-judged by `judge`; confirmed ones become violations of this property, unconfirmed ones are
/// reported as inconclusive (OOM, timeout) or noted (oracle of another property).
pub fn campaign(ctx: &mut Ctx, target: &str, sub: &str, runs: u64, jobs: u32, judge: &dyn Fn(&[u8]) -> (Value, Verdict)) {
    let bin = fuzz_bin(&ctx.root, target);
    if !bin.exists() {
        ctx.inconclusive(format!("fuzz target {target} is not built ({})", bin.display()));
        return;
    }
    let scratch = crate::cli::scratch(&ctx.root).join(format!("fuzz-{target}"));
    let _ = std::fs::remove_dir_all(&scratch);
    let mut children = vec![];
    let dict = ctx.fuzz_dir.as_ref().map(|d| d.join("dict").join(format!("{target}.dict"))).filter(|p| p.exists());
    for j in 0..jobs {
        let corpus = scratch.join(format!("corpus-{j}"));
        let arts = scratch.join(format!("artifacts-{j}"));
        let _ = std::fs::create_dir_all(&corpus);
        let _ = std::fs::create_dir_all(&arts);
        for f in corpus_files(ctx, target) {
            if let Some(name) = f.file_name() {
                let _ = std::fs::copy(&f, corpus.join(name));
            }
        }
        let seed = (ctx.sub_seed(&format!("fuzz-{target}"), j as u64) % 0x7fff_fffe) + 1;
        let mut cmd = Command::new(&bin);
        cmd.arg(&corpus)
            .arg(format!("-runs={}", runs / jobs as u64))
            .arg(format!("-seed={seed}"))
            .arg("-max_len=4096")
            .arg("-len_control=0")
            .arg("-timeout=10")
            .arg("-rss_limit_mb=4096")
            .arg("-use_value_profile=1")
            .arg("-print_final_stats=1")
            .arg(format!("-artifact_prefix={}/", arts.display()))
            .env("RUST_BACKTRACE", "0")
            .stdin(Stdio::null())
            .stdout(Stdio::null());
        // stderr goes to a file: a pipe would fill up and serialise the jobs
        let log_path = scratch.join(format!("log-{j}.txt"));
        match std::fs::File::create(&log_path) {
            Ok(f) => {
                cmd.stderr(Stdio::from(f));
            }
            Err(_) => {
                cmd.stderr(Stdio::null());
            }
        }
        if let Some(d) = &dict {
            cmd.arg(format!("-dict={}", d.display()));
        }
        match cmd.spawn() {
            Ok(c) => children.push((j, c, corpus, arts, log_path)),
            Err(e) => ctx.inconclusive(format!("cannot start fuzz target {target}: {e}")),
        }
    }
    let mut execs = 0u64;
    let mut corpus_units = 0u64;
    let mut artifacts = 0u64;
    let mut confirmed = 0u64;
    for (j, mut child, corpus, arts, log_path) in children {
        let out = match child.wait() {
            Ok(o) => o,
            Err(e) => {
                ctx.inconclusive(format!("fuzz job {j} of {target}: {e}"));
                continue;
            }
        };
        let log_bytes = std::fs::read(&log_path).unwrap_or_default();
        let log = String::from_utf8_lossy(&log_bytes);
        for line in log.lines() {
            if let Some(v) = line.strip_prefix("stat::number_of_executed_units:") {
                execs += v.trim().parse::<u64>().unwrap_or(0);
            }
        }
        corpus_units += std::fs::read_dir(&corpus).map(|r| r.count() as u64).unwrap_or(0);
        let mut found: Vec<PathBuf> = std::fs::read_dir(&arts).map(|r| r.filter_map(|e| e.ok().map(|e| e.path())).collect()).unwrap_or_default();
        found.sort();
        for a in found {
            artifacts += 1;
            let name = a.file_name().and_then(|n| n.to_str()).unwrap_or("").to_string();
            let Ok(data) = std::fs::read(&a) else { continue };
            let (case, v) = judge(&data);
            match v {
                Err(fl) => {
                    if let Some(k) = fl.known {
                        if ctx.is_open_known(k) {
                            *ctx.cls.known_hits.entry(k.to_string()).or_insert(0) += 1;
                            continue;
                        }
                    }
                    confirmed += 1;
                    ctx.violation(sub, &case, &fl);
                }
                Ok(()) => {
                    if name.starts_with("oom-") || name.starts_with("timeout-") || name.starts_with("slow-unit-") {
                        ctx.inconclusive(format!("fuzz target {target} produced {name} which the deterministic oracle does not confirm (resource limit, not a verdict)"));
                    } else {
                        let e = ctx.extra.entry("fuzz_unconfirmed_artifacts".into()).or_insert_with(|| json!([]));
                        e.as_array_mut().unwrap().push(json!({"target": target, "artifact": name, "note": "crash not confirmed by this property's oracle (belongs to another property's oracle or is not reproducible)", "tail": log.lines().rev().take(6).collect::<Vec<_>>()}));
                    }
                }
            }
        }
        if !out.success() && std::fs::read_dir(&arts).map(|r| r.count()).unwrap_or(0) == 0 {
            ctx.inconclusive(format!("fuzz job {j} of {target} exited with {:?} without an artifact: {}", out.code(), log.lines().rev().take(3).collect::<Vec<_>>().join(" | ")));
        }
    }
    ctx.cls.evals(execs);
    ctx.cls.label_n(&format!("fuzz-execs/{target}"), execs);
    let e = ctx.extra.entry("fuzz".into()).or_insert_with(|| json!({}));
    let prev = e.get(target).cloned().unwrap_or_else(|| json!({}));
    let mut m = prev.as_object().cloned().unwrap_or_default();
    m.insert("requested_runs".into(), json!(runs));
    m.insert("executed_units".into(), json!(execs));
    m.insert("jobs".into(), json!(jobs));
    m.insert("corpus_units_after".into(), json!(corpus_units));
    m.insert("artifacts".into(), json!(artifacts));
    m.insert("confirmed_violations".into(), json!(confirmed));
    e[target] = Value::Object(m);
    let _ = std::fs::remove_dir_all(&scratch);
}
