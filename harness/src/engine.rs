//! Check engine: seeds, classifier, sharded proptest runner, exhaustive case
//! runner, violation/replay plumbing, known findings and the evidence writer.

use proptest::strategy::{Strategy, ValueTree};
use proptest::test_runner::{Config, RngAlgorithm, RngSeed, TestCaseError, TestError, TestRunner};
use serde::{de::DeserializeOwned, Serialize};
use serde_json::{json, Value};
use std::cell::RefCell;
use std::collections::{BTreeMap, HashSet};
use std::hash::{Hash, Hasher};
use std::panic::{self, AssertUnwindSafe};
use std::path::PathBuf;
use std::sync::Mutex;
use std::time::Instant;

/// Number of shards every generated sub-check is split into. Fixed (not the
/// core count) so that a run is a pure function of the code and VERIF_SEED.
pub const SHARDS: usize = 16;

#[derive(Clone, Copy, Debug, PartialEq, Eq)]
pub enum Tier {
    Quick,
    Thorough,
}

impl Tier {
    pub fn pick<T>(self, quick: T, thorough: T) -> T {
        match self {
            Tier::Quick => quick,
            Tier::Thorough => thorough,
        }
    }
    pub fn name(self) -> &'static str {
        self.pick("quick", "thorough")
    }
}

/// A failed oracle application.
#[derive(Clone, Debug)]
pub struct Failure {
    pub expected: String,
    pub observed: String,
    pub note: String,
    /// Set by the judge when the failing case satisfies the exact predicate of
    /// a known root cause. Only suppressed if known_findings.json lists the
    /// key as open for this property.
    pub known: Option<&'static str>,
}

pub type Verdict = Result<(), Failure>;

pub fn fail(expected: impl Into<String>, observed: impl Into<String>, note: impl Into<String>) -> Verdict {
    Err(Failure {
        expected: expected.into(),
        observed: observed.into(),
        note: note.into(),
        known: None,
    })
}

pub fn fail_known(
    key: &'static str,
    expected: impl Into<String>,
    observed: impl Into<String>,
    note: impl Into<String>,
) -> Verdict {
    Err(Failure {
        expected: expected.into(),
        observed: observed.into(),
        note: note.into(),
        known: Some(key),
    })
}

#[macro_export]
macro_rules! ensure_eq {
    ($a:expr, $b:expr, $($note:tt)+) => {{
        let (a, b) = (&$a, &$b);
        if a != b {
            return $crate::engine::fail(format!("{:?}", b), format!("{:?}", a), format!($($note)+));
        }
    }};
}

#[macro_export]
macro_rules! ensure_that {
    ($cond:expr, $($note:tt)+) => {{
        if !$cond {
            return $crate::engine::fail("condition holds", "condition violated", format!($($note)+));
        }
    }};
}

// ---------------------------------------------------------------- panics

thread_local! {
    static LAST_PANIC: RefCell<Option<String>> = const { RefCell::new(None) };
    static IN_CATCH: RefCell<u32> = const { RefCell::new(0) };
}

/// Installs a panic hook that is silent for panics raised inside `catch`
/// (they are expected outcomes to be judged) and loud otherwise.
pub fn install_panic_hook() {
    let default = panic::take_hook();
    panic::set_hook(Box::new(move |info| {
        let inside = IN_CATCH.with(|c| *c.borrow() > 0);
        if inside {
            let msg = if let Some(s) = info.payload().downcast_ref::<&str>() {
                s.to_string()
            } else if let Some(s) = info.payload().downcast_ref::<String>() {
                s.clone()
            } else {
                "<non-string panic payload>".to_string()
            };
            let loc = info
                .location()
                .map(|l| format!("{}:{}", l.file(), l.line()))
                .unwrap_or_default();
            LAST_PANIC.with(|p| *p.borrow_mut() = Some(format!("panicked at {loc}: {msg}")));
        } else {
            default(info);
        }
    }));
}

/// Runs code under test; a panic becomes `Err(description)`.
pub fn catch<T>(f: impl FnOnce() -> T) -> Result<T, String> {
    IN_CATCH.with(|c| *c.borrow_mut() += 1);
    let r = panic::catch_unwind(AssertUnwindSafe(f));
    IN_CATCH.with(|c| *c.borrow_mut() -= 1);
    r.map_err(|_| {
        let msg = LAST_PANIC
            .with(|p| p.borrow_mut().take())
            .unwrap_or_else(|| "panicked".to_string());
        // a panic raised by the harness' own code (paths relative to the harness crate) is a harness
        // bug, not an outcome of the code under test: let it surface as INCONCLUSIVE
        if msg.starts_with("panicked at src/") {
            panic!("harness bug inside catch: {msg}");
        }
        msg
    })
}

// ---------------------------------------------------------------- seeds

fn splitmix(mut x: u64) -> u64 {
    x = x.wrapping_add(0x9e3779b97f4a7c15);
    let mut z = x;
    z = (z ^ (z >> 30)).wrapping_mul(0xbf58476d1ce4e5b9);
    z = (z ^ (z >> 27)).wrapping_mul(0x94d049bb133111eb);
    z ^ (z >> 31)
}

/// Derives a sub-seed from the run seed and a list of labels (FNV + splitmix;
/// no dependence on std's randomly keyed hasher).
pub fn derive_seed(seed: u64, labels: &[&str], n: u64) -> u64 {
    let mut h: u64 = 0xcbf29ce484222325 ^ splitmix(seed);
    for l in labels {
        for b in l.bytes() {
            h ^= b as u64;
            h = h.wrapping_mul(0x100000001b3);
        }
        h ^= 0xff;
        h = h.wrapping_mul(0x100000001b3);
    }
    splitmix(h ^ splitmix(n))
}

/// Small deterministic PRNG for filler bits in exhaustive sweeps.
#[derive(Clone)]
pub struct Prng(pub u64);

impl Prng {
    pub fn new(seed: u64) -> Self {
        Prng(splitmix(seed) | 1)
    }
    pub fn next_u64(&mut self) -> u64 {
        self.0 = self.0.wrapping_add(0x9e3779b97f4a7c15);
        let mut z = self.0;
        z = (z ^ (z >> 30)).wrapping_mul(0xbf58476d1ce4e5b9);
        z = (z ^ (z >> 27)).wrapping_mul(0x94d049bb133111eb);
        z ^ (z >> 31)
    }
    pub fn below(&mut self, n: u64) -> u64 {
        if n == 0 {
            0
        } else {
            self.next_u64() % n
        }
    }
    pub fn bytes(&mut self, n: usize) -> Vec<u8> {
        let mut v = Vec::with_capacity(n + 8);
        while v.len() < n {
            v.extend_from_slice(&self.next_u64().to_le_bytes());
        }
        v.truncate(n);
        v
    }
    pub fn fill(&mut self, buf: &mut [u8]) {
        let b = self.bytes(buf.len());
        buf.copy_from_slice(&b);
    }
}

/// Stable (process-independent) 64-bit hash used for the distinct-case set.
pub fn stable_hash<T: Hash + ?Sized>(t: &T) -> u64 {
    struct Fnv(u64);
    impl Hasher for Fnv {
        fn finish(&self) -> u64 {
            splitmix(self.0)
        }
        fn write(&mut self, bytes: &[u8]) {
            for b in bytes {
                self.0 ^= *b as u64;
                self.0 = self.0.wrapping_mul(0x100000001b3);
            }
        }
    }
    let mut h = Fnv(0xcbf29ce484222325);
    t.hash(&mut h);
    h.finish()
}

// ---------------------------------------------------------------- classifier

const SAMPLES_PER_CLASS: usize = 2;

#[derive(Default)]
pub struct Classifier {
    pub evaluations: u64,
    pub classes: BTreeMap<String, u64>,
    pub distinct: HashSet<u64>,
    pub samples: BTreeMap<String, Vec<Value>>,
    pub known_hits: BTreeMap<String, u64>,
    pub unspecified: BTreeMap<String, u64>,
    /// set once a failure has been seen in this shard (proptest re-runs the
    /// closure while shrinking; those re-runs are not counted)
    pub frozen: bool,
}

impl Classifier {
    /// One oracle application.
    pub fn eval(&mut self) {
        if !self.frozen {
            self.evaluations += 1;
        }
    }
    pub fn evals(&mut self, n: u64) {
        if !self.frozen {
            self.evaluations += n;
        }
    }
    pub fn label(&mut self, l: &str) {
        if !self.frozen {
            *self.classes.entry(l.to_string()).or_insert(0) += 1;
        }
    }
    pub fn label_n(&mut self, l: &str, n: u64) {
        if !self.frozen {
            *self.classes.entry(l.to_string()).or_insert(0) += n;
        }
    }
    /// Marks the current case as non-trivial; `key` identifies it for the
    /// distinct count.
    pub fn nontrivial<K: Hash + ?Sized>(&mut self, key: &K) {
        if !self.frozen {
            self.distinct.insert(stable_hash(key));
        }
    }
    pub fn unspecified(&mut self, what: &str) {
        if !self.frozen {
            *self.unspecified.entry(what.to_string()).or_insert(0) += 1;
        }
    }
    /// Keeps up to SAMPLES_PER_CLASS verbatim samples per class.
    pub fn sample(&mut self, class: &str, v: impl FnOnce() -> Value) {
        if self.frozen {
            return;
        }
        let e = self.samples.entry(class.to_string()).or_default();
        if e.len() < SAMPLES_PER_CLASS {
            e.push(v());
        }
    }
    pub fn merge(&mut self, o: Classifier) {
        self.evaluations += o.evaluations;
        for (k, v) in o.classes {
            *self.classes.entry(k).or_insert(0) += v;
        }
        for (k, v) in o.known_hits {
            *self.known_hits.entry(k).or_insert(0) += v;
        }
        for (k, v) in o.unspecified {
            *self.unspecified.entry(k).or_insert(0) += v;
        }
        self.distinct.extend(o.distinct);
        for (k, v) in o.samples {
            let e = self.samples.entry(k).or_default();
            for s in v {
                if e.len() < SAMPLES_PER_CLASS {
                    e.push(s);
                }
            }
        }
    }
    pub fn count(&self, l: &str) -> u64 {
        self.classes.get(l).copied().unwrap_or(0)
    }
}

// ---------------------------------------------------------------- context

#[derive(Clone, Debug)]
pub struct KnownEntry {
    pub property: String,
    pub key: String,
    pub status: String,
    pub what: String,
    pub witnesses: Vec<Value>,
}

pub struct ViolationRec {
    pub sub: String,
    pub replay: PathBuf,
    pub failure: Failure,
}

pub struct Ctx {
    pub id: String,
    pub tier: Tier,
    pub seed: u64,
    pub root: PathBuf,
    pub cls: Classifier,
    pub known: Vec<KnownEntry>,
    pub violations: Vec<ViolationRec>,
    pub inconclusive: Vec<String>,
    pub rule: String,
    pub assumptions: Vec<String>,
    pub exhaustive_parts: Vec<String>,
    pub extra: BTreeMap<String, Value>,
    pub regressions_replayed: u64,
    pub known_lines: Vec<String>,
    pub start: Instant,
    per_sub_violations: BTreeMap<String, u32>,
    pub cli: Option<PathBuf>,
    pub cli_plain: Option<PathBuf>,
    pub shim: Option<PathBuf>,
    pub fuzz_dir: Option<PathBuf>,
    /// proptest shrink budget (lower it for sub-checks whose cases cost a process spawn)
    pub shrink_iters: u32,
}

static PRINT_LOCK: Mutex<()> = Mutex::new(());

impl Ctx {
    pub fn new(id: &str, tier: Tier, seed: u64, root: PathBuf) -> Ctx {
        let known = load_known(&root, id);
        Ctx {
            id: id.to_string(),
            tier,
            seed,
            root,
            cls: Classifier::default(),
            known,
            violations: vec![],
            inconclusive: vec![],
            rule: String::new(),
            assumptions: vec![],
            exhaustive_parts: vec![],
            extra: BTreeMap::new(),
            regressions_replayed: 0,
            known_lines: vec![],
            start: Instant::now(),
            per_sub_violations: BTreeMap::new(),
            cli: None,
            cli_plain: None,
            shim: None,
            fuzz_dir: None,
            shrink_iters: 2000,
        }
    }

    pub fn sub_seed(&self, sub: &str, n: u64) -> u64 {
        derive_seed(self.seed, &[&self.id, sub], n)
    }

    pub fn is_open_known(&self, key: &str) -> bool {
        self.known
            .iter()
            .any(|k| k.key == key && k.status == "open" && k.property == self.id)
    }

    pub fn inconclusive(&mut self, why: impl Into<String>) {
        let why = why.into();
        let _g = PRINT_LOCK.lock().unwrap();
        println!("INCONCLUSIVE property={} {}", self.id, why);
        self.inconclusive.push(why);
    }

    /// Records a violation: writes the replay file and prints the VIOLATION
    /// line. At most 3 per sub-check are written.
    pub fn violation(&mut self, sub: &str, case: &Value, f: &Failure) {
        let n = self.per_sub_violations.entry(sub.to_string()).or_insert(0);
        *n += 1;
        if *n > 3 {
            return;
        }
        let dir = self.root.join("replays");
        let _ = std::fs::create_dir_all(&dir);
        let body = json!({
            "property": self.id,
            "subcheck": sub,
            "seed": self.seed,
            "tier": self.tier.name(),
            "case": case,
            "expected": f.expected,
            "observed": f.observed,
            "note": f.note,
            "known_key": f.known,
        });
        let text = serde_json::to_string_pretty(&body).unwrap();
        let h = stable_hash(&serde_json::to_string(case).unwrap());
        let path = dir.join(format!("{}-{}-{:016x}.json", self.id, sub.replace(['/', ' '], "_"), h));
        let _ = std::fs::write(&path, text);
        {
            let _g = PRINT_LOCK.lock().unwrap();
            println!("VIOLATION property={} replay={}", self.id, path.display());
            println!(
                "  subcheck={} note={}\n  expected={}\n  observed={}",
                sub,
                truncate(&f.note, 400),
                truncate(&f.expected, 400),
                truncate(&f.observed, 400)
            );
        }
        self.violations.push(ViolationRec {
            sub: sub.to_string(),
            replay: path,
            failure: f.clone(),
        });
    }

    /// Health floor: class `label` must make up at least `min_frac` of `of`.
    pub fn floor(&mut self, label: &str, of: u64, min_frac: f64) {
        if !self.violations.is_empty() {
            return; // shards stop at their first failure; class counts are then not meaningful
        }
        let c = self.cls.count(label);
        if (c as f64) < (of as f64) * min_frac {
            self.inconclusive(format!(
                "generator health: class '{label}' has {c} of {of} cases, below floor {min_frac}"
            ));
        }
    }

    pub fn floor_abs(&mut self, label: &str, min: u64) {
        if !self.violations.is_empty() {
            return;
        }
        let c = self.cls.count(label);
        if c < min {
            self.inconclusive(format!(
                "generator health: class '{label}' has {c} cases, below floor {min}"
            ));
        }
    }

    // ------------------------------------------------------------ runners

    /// Sharded proptest run. `mk` builds the strategy (once per shard);
    /// `judge` applies the oracle. A failing case is shrunk by proptest and
    /// reported; cases whose failure carries an open known key are counted
    /// and the search continues.
    pub fn run_prop<S, F>(&mut self, sub: &str, cases: u32, mk: impl Fn() -> S + Sync, judge: F)
    where
        S: Strategy,
        S::Value: Serialize + Clone + std::fmt::Debug + Send,
        F: Fn(&S::Value, &mut Classifier) -> Verdict + Sync,
    {
        let open: Vec<String> = self
            .known
            .iter()
            .filter(|k| k.status == "open" && k.property == self.id)
            .map(|k| k.key.clone())
            .collect();
        let shards = if cases < 64 { 1 } else { SHARDS };
        let shrink_iters = self.shrink_iters;
        let results: Vec<(Classifier, Option<(S::Value, Failure)>, Option<String>)> = std::thread::scope(|sc| {
            let mut hs = vec![];
            for shard in 0..shards {
                let n = cases / shards as u32 + u32::from((shard as u32) < cases % shards as u32);
                let seed = self.sub_seed(sub, shard as u64);
                let (mk, judge, open) = (&mk, &judge, &open);
                hs.push(sc.spawn(move || {
                    let cfg = Config {
                        cases: n,
                        failure_persistence: None,
                        rng_seed: RngSeed::Fixed(seed),
                        rng_algorithm: RngAlgorithm::ChaCha,
                        max_shrink_iters: shrink_iters,
                        max_global_rejects: 100_000,
                        ..Config::default()
                    };
                    let mut runner = TestRunner::new(cfg);
                    let cls = RefCell::new(Classifier::default());
                    let last_fail: RefCell<Option<Failure>> = RefCell::new(None);
                    let strat = mk();
                    // shrinking gets a wall-clock budget: cases that take seconds each (a CLI run diagnosed as hung
                    // only after its CPU budget) would otherwise be re-run hundreds of times. Past the budget every
                    // candidate "passes", so the smallest failing case found so far is what is reported.
                    let first_fail_at: std::cell::Cell<Option<std::time::Instant>> = std::cell::Cell::new(None);
                    let r = runner.run(&strat, |case| {
                        if first_fail_at.get().map(|t| t.elapsed() > std::time::Duration::from_secs(20)).unwrap_or(false) {
                            return Ok(());
                        }
                        let mut c = cls.borrow_mut();
                        c.eval();
                        match judge(&case, &mut c) {
                            Ok(()) => Ok(()),
                            Err(f) => {
                                if let Some(k) = f.known {
                                    if open.iter().any(|o| o == k) {
                                        if !c.frozen {
                                            *c.known_hits.entry(k.to_string()).or_insert(0) += 1;
                                        }
                                        return Ok(());
                                    }
                                }
                                c.frozen = true;
                                if first_fail_at.get().is_none() {
                                    first_fail_at.set(Some(std::time::Instant::now()));
                                }
                                let msg = f.note.clone();
                                *last_fail.borrow_mut() = Some(f);
                                Err(TestCaseError::fail(msg))
                            }
                        }
                    });
                    let mut cls = cls.into_inner();
                    cls.frozen = false;
                    match r {
                        Ok(()) => (cls, None, None),
                        Err(TestError::Fail(_, v)) => {
                            // re-judge the shrunk value to get its own failure text
                            let mut scratch = Classifier::default();
                            let f = match judge(&v, &mut scratch) {
                                Err(f) => f,
                                Ok(()) => last_fail.into_inner().unwrap_or(Failure {
                                    expected: String::new(),
                                    observed: String::new(),
                                    note: "shrunk case did not reproduce".into(),
                                    known: None,
                                }),
                            };
                            (cls, Some((v, f)), None)
                        }
                        Err(TestError::Abort(why)) => (cls, None, Some(format!("{why}"))),
                    }
                }));
            }
            hs.into_iter()
                .map(|h| match h.join() {
                    Ok(r) => r,
                    Err(e) => {
                        let msg = e
                            .downcast_ref::<String>()
                            .cloned()
                            .or_else(|| e.downcast_ref::<&str>().map(|s| s.to_string()))
                            .unwrap_or_default();
                        (Classifier::default(), None, Some(format!("harness panic: {msg}")))
                    }
                })
                .collect()
        });
        let mut seen = HashSet::new();
        for (cls, fail, abort) in results {
            self.cls.merge(cls);
            if let Some(why) = abort {
                self.inconclusive(format!("sub-check {sub}: {why}"));
            }
            if let Some((v, f)) = fail {
                let case = serde_json::to_value(&v).unwrap_or(Value::Null);
                if seen.insert(serde_json::to_string(&case).unwrap_or_default()) {
                    self.violation(sub, &case, &f);
                }
            }
        }
    }

    /// Runs a fixed (enumerated) list of cases over the shards, in order.
    pub fn run_cases<C, F>(&mut self, sub: &str, cases: &[C], judge: F)
    where
        C: Serialize + Sync,
        F: Fn(&C, &mut Classifier) -> Verdict + Sync,
    {
        let open: Vec<String> = self
            .known
            .iter()
            .filter(|k| k.status == "open" && k.property == self.id)
            .map(|k| k.key.clone())
            .collect();
        let shards = if cases.len() < 64 { 1 } else { SHARDS };
        let chunk = cases.len().div_ceil(shards).max(1);
        let results: Vec<(Classifier, Vec<(usize, Failure)>, Option<String>)> = std::thread::scope(|sc| {
            let mut hs = vec![];
            for (ci, part) in cases.chunks(chunk).enumerate() {
                let (judge, open) = (&judge, &open);
                hs.push(sc.spawn(move || {
                    let mut cls = Classifier::default();
                    let mut fails = vec![];
                    for (i, case) in part.iter().enumerate() {
                        cls.eval();
                        if let Err(f) = judge(case, &mut cls) {
                            if let Some(k) = f.known {
                                if open.iter().any(|o| o == k) {
                                    *cls.known_hits.entry(k.to_string()).or_insert(0) += 1;
                                    continue;
                                }
                            }
                            if fails.len() < 3 {
                                fails.push((ci * chunk + i, f));
                            }
                        }
                    }
                    (cls, fails, None)
                }));
            }
            hs.into_iter()
                .map(|h| match h.join() {
                    Ok(r) => r,
                    Err(e) => {
                        let msg = e
                            .downcast_ref::<String>()
                            .cloned()
                            .or_else(|| e.downcast_ref::<&str>().map(|s| s.to_string()))
                            .unwrap_or_default();
                        (Classifier::default(), vec![], Some(format!("harness panic: {msg}")))
                    }
                })
                .collect()
        });
        for (cls, fails, abort) in results {
            self.cls.merge(cls);
            if let Some(why) = abort {
                self.inconclusive(format!("sub-check {sub}: {why}"));
            }
            for (i, f) in fails {
                let case = serde_json::to_value(&cases[i]).unwrap_or(Value::Null);
                self.violation(sub, &case, &f);
            }
        }
    }

    // ------------------------------------------------------------ known findings / regressions

    /// Replays the witnesses of each open known finding and every committed
    /// regression case of this property through `replay`.
    pub fn replay_known_and_regressions(&mut self, replay: &dyn Fn(&str, &Value) -> Option<Verdict>) {
        let known = self.known.clone();
        let my_id = self.id.clone();
        for k in known.iter().filter(|k| k.property == my_id) {
            if k.status == "fixed" {
                continue;
            }
            let mut still = false;
            for w in &k.witnesses {
                let sub = w.get("subcheck").and_then(Value::as_str).unwrap_or("");
                let case = w.get("case").cloned().unwrap_or(Value::Null);
                match replay(sub, &case) {
                    Some(Err(f)) if f.known == Some(leak(&k.key)) || f.known.map(|x| x == k.key).unwrap_or(false) => {
                        still = true;
                    }
                    Some(Err(f)) => {
                        // fails, but not by this root cause: a different violation
                        self.violation(sub, &case, &f);
                    }
                    Some(Ok(())) => {}
                    None => self.inconclusive(format!("known finding {} witness names unknown sub-check {sub}", k.key)),
                }
            }
            if still {
                let line = format!("KNOWN-FINDING: property={} {}: {}", self.id, k.key, k.what);
                println!("{line}");
                self.known_lines.push(line);
            } else {
                self.extra
                    .entry("stale_known_findings".into())
                    .or_insert_with(|| json!([]))
                    .as_array_mut()
                    .unwrap()
                    .push(json!(k.key));
            }
        }
        // regressions/<ID>/*.json
        let dir = self.root.join("regressions").join(&self.id);
        let mut files: Vec<_> = std::fs::read_dir(&dir)
            .map(|d| d.filter_map(|e| e.ok().map(|e| e.path())).collect())
            .unwrap_or_default();
        files.sort();
        for f in files {
            if f.extension().and_then(|e| e.to_str()) != Some("json") {
                continue;
            }
            let Ok(text) = std::fs::read_to_string(&f) else { continue };
            let Ok(v) = serde_json::from_str::<Value>(&text) else {
                self.inconclusive(format!("regression file {} is not JSON", f.display()));
                continue;
            };
            let sub = v.get("subcheck").and_then(Value::as_str).unwrap_or("").to_string();
            let case = v.get("case").cloned().unwrap_or(Value::Null);
            self.regressions_replayed += 1;
            self.cls.eval();
            match replay(&sub, &case) {
                Some(Ok(())) => {}
                Some(Err(fl)) => {
                    if let Some(k) = fl.known {
                        if self.is_open_known(k) {
                            *self.cls.known_hits.entry(k.to_string()).or_insert(0) += 1;
                            continue;
                        }
                    }
                    self.violation(&sub, &case, &fl)
                }
                None => self.inconclusive(format!("regression {} names unknown sub-check {sub}", f.display())),
            }
        }
    }

    // ------------------------------------------------------------ evidence

    pub fn finish(mut self) -> i32 {
        let wall = self.start.elapsed().as_secs_f64();
        let mut samples: Vec<Value> = vec![];
        for (class, vs) in &self.cls.samples {
            for v in vs {
                samples.push(json!({"class": class, "case": v}));
            }
        }
        if samples.is_empty() {
            samples.push(json!({"class": "none", "case": null}));
        }
        let coverage = {
            let mut m = serde_json::Map::new();
            m.insert("evaluations".into(), json!(self.cls.evaluations));
            m.insert("distinct_nontrivial".into(), json!(self.cls.distinct.len()));
            m.insert("rule".into(), json!(self.rule));
            m.insert("samples".into(), json!(samples));
            m.insert("classes".into(), json!(self.cls.classes));
            m.insert("exhaustive".into(), json!(false));
            m.insert("exhaustive_parts".into(), json!(self.exhaustive_parts));
            m.insert("known_finding_hits".into(), json!(self.cls.known_hits));
            m.insert("known_finding_lines".into(), json!(self.known_lines));
            m.insert("unspecified_inputs".into(), json!(self.cls.unspecified));
            m.insert("regressions_replayed".into(), json!(self.regressions_replayed));
            m.insert("inconclusive".into(), json!(self.inconclusive));
            m.insert(
                "violation_replays".into(),
                json!(self.violations.iter().map(|v| v.replay.display().to_string()).collect::<Vec<_>>()),
            );
            for (k, v) in std::mem::take(&mut self.extra) {
                m.insert(k, v);
            }
            Value::Object(m)
        };
        let ev = json!({
            "property_id": self.id,
            "tier": self.tier.name(),
            "seed": self.seed,
            "level": "exploration",
            "coverage": coverage,
            "assumptions": self.assumptions,
            "wall_s": (wall * 1000.0).round() / 1000.0,
            "violations": self.violations.len(),
        });
        let dir = std::env::var_os("HDV_EVIDENCE_DIR")
            .map(PathBuf::from)
            .unwrap_or_else(|| self.root.join("evidence"));
        let _ = std::fs::create_dir_all(&dir);
        let path = dir.join(format!("{}.json", self.id));
        if let Err(e) = std::fs::write(&path, serde_json::to_string_pretty(&ev).unwrap() + "\n") {
            println!("INCONCLUSIVE property={} cannot write evidence: {e}", self.id);
            return 2;
        }
        println!(
            "{} {}: evaluations={} distinct_nontrivial={} known_hits={} violations={} wall={:.1}s",
            self.id,
            self.tier.name(),
            self.cls.evaluations,
            self.cls.distinct.len(),
            self.cls.known_hits.values().sum::<u64>(),
            self.violations.len(),
            wall
        );
        if !self.violations.is_empty() {
            1
        } else if !self.inconclusive.is_empty() {
            2
        } else {
            0
        }
    }
}

fn leak(s: &str) -> &'static str {
    // known keys are few and live for the process
    Box::leak(s.to_string().into_boxed_str())
}

pub fn truncate(s: &str, n: usize) -> String {
    if s.chars().count() <= n {
        s.to_string()
    } else {
        let t: String = s.chars().take(n).collect();
        format!("{t}…[{} chars]", s.chars().count())
    }
}

fn load_known(root: &std::path::Path, id: &str) -> Vec<KnownEntry> {
    let path = root.join("known_findings.json");
    let Ok(text) = std::fs::read_to_string(&path) else { return vec![] };
    let Ok(v) = serde_json::from_str::<Value>(&text) else { return vec![] };
    let mut out = vec![];
    for e in v.get("findings").and_then(Value::as_array).cloned().unwrap_or_default() {
        let props: Vec<String> = match e.get("property") {
            Some(Value::String(s)) => vec![s.clone()],
            Some(Value::Array(a)) => a.iter().filter_map(|x| x.as_str().map(String::from)).collect(),
            _ => vec![],
        };
        if !props.iter().any(|p| p == id) {
            continue;
        }
        out.push(KnownEntry {
            property: id.to_string(),
            key: e.get("key").and_then(Value::as_str).unwrap_or("").to_string(),
            status: e.get("status").and_then(Value::as_str).unwrap_or("open").to_string(),
            what: e.get("what").and_then(Value::as_str).unwrap_or("").to_string(),
            witnesses: e
                .get("witnesses")
                .and_then(Value::as_array)
                .map(|a| {
                    a.iter()
                        .filter(|w| w.get("property").and_then(Value::as_str).map(|p| p == id).unwrap_or(true))
                        .cloned()
                        .collect()
                })
                .unwrap_or_default(),
        });
    }
    out
}

/// Deserialises a replay case into the sub-check's case type and judges it.
pub fn replay_as<C: DeserializeOwned>(case: &Value, judge: impl Fn(&C, &mut Classifier) -> Verdict) -> Verdict {
    match serde_json::from_value::<C>(case.clone()) {
        Ok(c) => {
            let mut cls = Classifier::default();
            judge(&c, &mut cls)
        }
        Err(e) => fail("a case of this sub-check's type", format!("{e}"), "replay file does not match the sub-check's case type"),
    }
}

/// Monotone index selection (keeps proptest shrinking towards element 0).
pub fn pick<T: Clone>(items: &[T], idx: u16) -> T {
    let i = (idx as usize * items.len()) >> 16;
    items[i.min(items.len() - 1)].clone()
}

/// Draws one value from a strategy with a fixed seed (for sweeps that need
/// generated filler).
pub fn draw<S: Strategy>(s: &S, seed: u64) -> S::Value {
    let mut runner = TestRunner::new_with_rng(
        Config::default(),
        proptest::test_runner::TestRng::from_seed(RngAlgorithm::ChaCha, &{
            let mut b = [0u8; 32];
            Prng::new(seed).fill(&mut b);
            b
        }),
    );
    s.new_tree(&mut runner).expect("strategy draw").current()
}
