//! Subprocess driver for the hdwallet executable.

use std::ffi::OsString;
use std::io::Write;
use std::path::{Path, PathBuf};
use std::process::{Command, Stdio};
use std::sync::atomic::{AtomicU64, Ordering};
use std::sync::{Mutex, OnceLock};
use std::time::{Duration, Instant};

#[derive(Clone, Debug)]
pub struct CliOut {
    pub code: Option<i32>,
    pub signal: Option<i32>,
    pub stdout: Vec<u8>,
    pub stderr: Vec<u8>,
    /// the wall-clock watchdog expired without a diagnosis: inconclusive, never a verdict
    pub timed_out: bool,
    /// the run was diagnosed as hung (deadlock or CPU budget exceeded) and killed: a definite misbehaviour
    pub hang: Option<String>,
    /// ambient variables (locale, terminal, ...) this run carried besides the ones the case asked for
    pub ambient: Vec<(String, String)>,
    /// what kind of object the run's standard input was: pipe | socket | file | file-at-offset
    pub stdin_kind: &'static str,
}

impl CliOut {
    pub fn stdout_str(&self) -> String {
        String::from_utf8_lossy(&self.stdout).into_owned()
    }
    pub fn stderr_str(&self) -> String {
        String::from_utf8_lossy(&self.stderr).into_owned()
    }
    pub fn ok(&self) -> bool {
        self.code == Some(0)
    }
    /// ordinary error: exit 255 (hdwallet's `process::exit(-1)`) or clap usage error 2, no panic text
    pub fn ordinary_error(&self) -> bool {
        matches!(self.code, Some(255) | Some(2)) && !self.panicked()
    }
    pub fn panicked(&self) -> bool {
        self.code == Some(101)
            || self.signal.is_some()
            || self.stderr_str().contains("panicked at")
            || !matches!(self.code, Some(0) | Some(2) | Some(255))
    }
    pub fn describe(&self) -> String {
        format!(
            "code={:?} signal={:?} timed_out={}{}{}{} stdout={:?} stderr={:?}",
            self.code,
            self.signal,
            self.timed_out,
            self.hang.as_ref().map(|h| format!(" HANG[{h}]")).unwrap_or_default(),
            if self.stdin_kind == "pipe" || self.stdin_kind.is_empty() { String::new() } else { format!(" stdin_is={}", self.stdin_kind) },
            if self.ambient.is_empty() { String::new() } else { format!(" ambient_env={:?}", self.ambient.iter().map(|(k, v)| (k.as_str(), crate::engine::truncate(v, 40))).collect::<Vec<_>>()) },
            crate::engine::truncate(&self.stdout_str(), 300),
            crate::engine::truncate(&self.stderr_str(), 300)
        )
    }
}

struct Watch {
    pid: u32,
    start: Instant,
    deadline: Instant,
    id: u64,
    last_cpu: u64,
    idle_since: Instant,
    last_probe: Instant,
    /// CPU budget of this run in seconds
    cpu_limit: u64,
}

/// CPU budget of a run that cannot be a vanity search (no --vanity-prefix among its arguments): such runs take
/// milliseconds (the largest: hashing 64 MiB, a 40000-step derivation - about a second).
pub const NONSEARCH_CPU_LIMIT_S: u64 = 30;

thread_local! {
    static CPU_BUDGET_OVERRIDE: std::cell::Cell<Option<u64>> = const { std::cell::Cell::new(None) };
}

/// Runs `f` with the given CPU budget for the CLI runs it starts on this thread - for runs whose expected outcome
/// is an immediate refusal (a vanity search that must not even start).
thread_local! {
    static NONBLOCKING_STDIN: std::cell::Cell<bool> = const { std::cell::Cell::new(false) };
}

/// Runs made inside `f` get their standard input as a pipe left in non-blocking mode (what Node.js child
/// processes, ssh and some CI runners hand down), written in two parts with a pause in between. Whether such a
/// run succeeds depends on timing (a read may meet EAGAIN); callers accept an ordinary error exit.
pub fn with_nonblocking_stdin<T>(f: impl FnOnce() -> T) -> T {
    let old = NONBLOCKING_STDIN.with(|c| c.replace(true));
    let r = f();
    NONBLOCKING_STDIN.with(|c| c.set(old));
    r
}

pub fn with_cpu_budget<T>(secs: u64, f: impl FnOnce() -> T) -> T {
    let old = CPU_BUDGET_OVERRIDE.with(|c| c.replace(Some(secs)));
    let r = f();
    CPU_BUDGET_OVERRIDE.with(|c| c.set(old));
    r
}

/// CPU budget of one CLI run in seconds (user + system, all threads). The longest legitimate run is a
/// 3-digit vanity search (~6 CPU-seconds expected); everything else takes milliseconds.
pub const CPU_LIMIT_S: u64 = 300;
/// A process whose threads are all asleep and which has made no CPU progress for this long, with its
/// stdin at EOF and its output being drained, is deadlocked (hdwallet never sleeps or waits on anything else).
pub const DEADLOCK_S: u64 = 15;

static WATCH: OnceLock<Mutex<Vec<Watch>>> = OnceLock::new();
/// (id, None = wall-clock expiry | Some(diagnosis))
static KILLED: OnceLock<Mutex<Vec<(u64, Option<String>)>>> = OnceLock::new();
static NEXT: AtomicU64 = AtomicU64::new(1);

/// (cpu ticks of the whole process, every thread asleep?, number of threads)
fn probe(pid: u32) -> Option<(u64, bool, usize)> {
    let stat = std::fs::read_to_string(format!("/proc/{pid}/stat")).ok()?;
    let rest = &stat[stat.rfind(')')? + 2..];
    let f: Vec<&str> = rest.split(' ').collect();
    // after "pid (comm) " the fields start at state (index 0); utime/stime are fields 14/15 => 11/12 here
    let cpu = f.get(11)?.parse::<u64>().ok()? + f.get(12)?.parse::<u64>().ok()?;
    let mut all_sleeping = true;
    let mut n = 0;
    for t in std::fs::read_dir(format!("/proc/{pid}/task")).ok()? {
        let t = t.ok()?;
        if let Ok(ts) = std::fs::read_to_string(t.path().join("stat")) {
            n += 1;
            let state = ts[ts.rfind(')')? + 2..].chars().next().unwrap_or('R');
            if state != 'S' {
                all_sleeping = false;
            }
        }
    }
    Some((cpu, all_sleeping && n > 0, n))
}

fn watchdog() -> &'static Mutex<Vec<Watch>> {
    WATCH.get_or_init(|| {
        std::thread::spawn(|| {
            let ticks = unsafe { libc::sysconf(libc::_SC_CLK_TCK) }.max(1) as u64;
            loop {
                std::thread::sleep(Duration::from_millis(100));
                let now = Instant::now();
                let mut w = WATCH.get().unwrap().lock().unwrap();
                w.retain_mut(|e| {
                    let mut verdict: Option<Option<String>> = None;
                    if now >= e.deadline {
                        verdict = Some(None);
                    } else if now.duration_since(e.start) > Duration::from_secs(2) && now.duration_since(e.last_probe) > Duration::from_millis(500) {
                        e.last_probe = now;
                        if let Some((cpu, sleeping, n)) = probe(e.pid) {
                            if cpu / ticks > e.cpu_limit {
                                verdict = Some(Some(format!("unbounded computation: consumed more than {} CPU-seconds", e.cpu_limit)));
                            } else if cpu != e.last_cpu || !sleeping {
                                e.last_cpu = cpu;
                                e.idle_since = now;
                            } else if now.duration_since(e.idle_since) >= Duration::from_secs(DEADLOCK_S) {
                                verdict = Some(Some(format!("deadlock: all {n} threads asleep and no CPU progress for {DEADLOCK_S} s (stdin at EOF, output drained)")));
                            }
                        }
                    }
                    match verdict {
                        Some(v) => {
                            unsafe { libc::kill(e.pid as i32, libc::SIGKILL) };
                            KILLED.get_or_init(|| Mutex::new(vec![])).lock().unwrap().push((e.id, v));
                            false
                        }
                        None => true,
                    }
                });
            }
        });
        Mutex::new(vec![])
    })
}

#[derive(Clone, Debug, Default, serde::Serialize, serde::Deserialize)]
pub struct Invocation {
    pub args: Vec<String>,
    pub env: Vec<(String, String)>,
    /// stdin bytes as hex
    pub stdin_hex: String,
}

impl Invocation {
    pub fn new(args: &[&str]) -> Self {
        Invocation { args: args.iter().map(|s| s.to_string()).collect(), env: vec![], stdin_hex: String::new() }
    }
    pub fn arg(mut self, a: impl Into<String>) -> Self {
        self.args.push(a.into());
        self
    }
    pub fn env(mut self, k: &str, v: impl Into<String>) -> Self {
        self.env.push((k.to_string(), v.into()));
        self
    }
    pub fn stdin(mut self, data: &[u8]) -> Self {
        self.stdin_hex = crate::refimpl::hex_lower(data);
        self
    }
}

/// Variables of the ambient environment a user's shell may carry (locale, terminal, colour conventions) and
/// values for them: no property lets the outcome of a command depend on them.
pub const AMBIENT_VARS: [&str; 12] = ["LANG", "LC_ALL", "LC_MESSAGES", "LC_CTYPE", "LANGUAGE", "TERM", "NO_COLOR", "CLICOLOR_FORCE", "COLUMNS", "HOME", "TZ", "USER"];
pub const AMBIENT_VALUES: [&str; 28] = [
    "", "C", "POSIX", "C.UTF-8", "en_US.UTF-8", "en", "en_GB", "de_DE.UTF-8", "de", "fr_FR@euro", "ja_JP.eucJP", "zh_CN.GB18030", "tr_TR.UTF-8", "x", "\u{e9}",
    "a\u{e9}", "\u{65e5}\u{672c}\u{8a9e}", "e\u{301}n", "0", "1", "-1", "dumb", "xterm-256color", "/", "/nonexistent", "99999999999999999999", "en_US.UTF-8@\u{1f600}", ".",
];

/// 1..=3 ambient variables (locale variables preferred) with values from `AMBIENT_VALUES` or a long string.
pub fn ambient_env(u: &mut crate::gen::U) -> Vec<(String, String)> {
    let n = 1 + u.below(3);
    let mut v: Vec<(String, String)> = vec![];
    for _ in 0..n {
        let k = if u.ratio(2, 3) { AMBIENT_VARS[u.below(5)] } else { AMBIENT_VARS[u.below(AMBIENT_VARS.len())] };
        let val = if u.ratio(1, 24) { "l".repeat(1 + u.below(5000)) } else { AMBIENT_VALUES[u.below(AMBIENT_VALUES.len())].to_string() };
        if !v.iter().any(|(kk, _)| kk == k) {
            v.push((k.to_string(), val));
        }
    }
    v
}

/// Environment variable names the executable under test might read besides the four documented ones: every
/// `[env: NAME]` its own --help texts declare and the upper-snake-case form of every long option they list
/// (the name clap derives when `env` is added to an option). Discovered once per executable.
pub fn discovered_env_names(exe: &Path) -> Vec<String> {
    static CACHE: OnceLock<Mutex<std::collections::HashMap<PathBuf, Vec<String>>>> = OnceLock::new();
    let cache = CACHE.get_or_init(Default::default);
    if let Some(v) = cache.lock().unwrap().get(exe) {
        return v.clone();
    }
    const SUBS: [&[&str]; 16] = [
        &[], &["address"], &["export"], &["public-key"], &["new"], &["hex", "encode"], &["hex", "decode"], &["hash", "transaction"], &["hash", "message"],
        &["hash", "typeddata"], &["hash", "data"], &["sign"], &["sign", "transaction"], &["sign", "message"], &["sign", "typeddata"], &["sign", "raw"],
    ];
    let mut names: Vec<String> = vec![];
    for sub in SUBS {
        let mut cmd = Command::new(exe);
        cmd.args(sub.iter()).arg("--help").env_clear().current_dir(work_dir()).stdin(Stdio::null()).stdout(Stdio::piped()).stderr(Stdio::piped());
        let Ok(mut child) = cmd.spawn() else { continue };
        let start = Instant::now();
        loop {
            match child.try_wait() {
                Ok(Some(_)) => break,
                Ok(None) if start.elapsed() > Duration::from_secs(10) => {
                    let _ = child.kill();
                    break;
                }
                Ok(None) => std::thread::sleep(Duration::from_millis(2)),
                Err(_) => break,
            }
        }
        let Ok(out) = child.wait_with_output() else { continue };
        let text = format!("{}\n{}", String::from_utf8_lossy(&out.stdout), String::from_utf8_lossy(&out.stderr));
        let b = text.as_bytes();
        let mut i = 0;
        while i + 2 < b.len() {
            if b[i] == b'-' && b[i + 1] == b'-' && b[i + 2].is_ascii_lowercase() && (i == 0 || !b[i - 1].is_ascii_alphanumeric() && b[i - 1] != b'-') {
                let mut j = i + 2;
                while j < b.len() && (b[j].is_ascii_lowercase() || b[j].is_ascii_digit() || b[j] == b'-') {
                    j += 1;
                }
                names.push(text[i + 2..j].trim_end_matches('-').to_uppercase().replace('-', "_"));
                i = j;
            } else if text[i..].starts_with("[env: ") {
                let rest = &text[i + 6..];
                let end = rest.find(|c: char| !(c.is_ascii_alphanumeric() || c == '_')).unwrap_or(rest.len());
                names.push(rest[..end].to_string());
                i += 6 + end;
            } else {
                i += 1;
            }
        }
    }
    names.sort();
    names.dedup();
    names.retain(|n| !n.is_empty() && !["MNEMONIC", "PASSWORD", "ACCOUNT_INDEX", "HD_PATH", "HELP", "VERSION"].contains(&n.as_str()));
    cache.lock().unwrap().insert(exe.to_path_buf(), names.clone());
    names
}

/// A directory holding files a tool might pick up uninvited: dotenv and configuration files that name another
/// wallet, another passphrase, another account. Used as working directory and HOME of some runs; on a tool
/// that only acts on its arguments, its documented variables and its input they change nothing.
pub fn work_dir() -> PathBuf {
    static DIR: OnceLock<PathBuf> = OnceLock::new();
    DIR.get_or_init(|| {
        let d = scratch(&global_root()).join("cwd");
        let _ = std::fs::create_dir_all(&d);
        d
    })
    .clone()
}

pub fn decoy_dir() -> PathBuf {
    static DIR: OnceLock<PathBuf> = OnceLock::new();
    DIR.get_or_init(|| {
        let d = scratch(&global_root()).join("decoy-home");
        let _ = std::fs::create_dir_all(d.join(".config/hdwallet"));
        let dotenv = "MNEMONIC=\"test test test test test test test test test test test junk\"\nPASSWORD=decoy-password\nACCOUNT_INDEX=9\nHD_PATH=m/1'\nCHAIN_ID=5\nLENGTH=24\nVANITY_PASSWORD=decoy\nSIGNATURE_ONLY=true\nALLOW_MISSING_RELAY_PROTECTION=true\n";
        let toml = "mnemonic = \"test test test test test test test test test test test junk\"\npassword = \"decoy-password\"\naccount_index = 9\naccount-index = 9\nchain_id = 5\nlength = 24\nsignature_only = true\n[account]\nmnemonic = \"test test test test test test test test test test test junk\"\npassword = \"decoy-password\"\nindex = 9\n";
        let json = "{\"mnemonic\":\"test test test test test test test test test test test junk\",\"password\":\"decoy-password\",\"accountIndex\":9,\"chainId\":5}";
        for (name, body) in [
            (".env", dotenv), (".env.local", dotenv), (".hdwalletrc", dotenv), (".hdwallet", dotenv), ("hdwallet.env", dotenv),
            ("hdwallet.toml", toml), (".hdwallet.toml", toml), ("config.toml", toml), (".config/hdwallet/config.toml", toml), (".config/hdwallet.toml", toml),
            ("hdwallet.json", json), (".hdwallet.json", json), (".config/hdwallet/config.json", json),
        ] {
            let _ = std::fs::write(d.join(name), body);
        }
        d
    })
    .clone()
}

pub fn run(exe: &Path, inv: &Invocation, timeout: Duration) -> CliOut {
    let stdin = crate::refimpl::unhex(&inv.stdin_hex).unwrap_or_default();
    let args: Vec<OsString> = inv.args.iter().map(OsString::from).collect();
    run_raw(exe, &args, &inv.env, &stdin, timeout)
}

pub fn run_raw(exe: &Path, args: &[OsString], env: &[(String, String)], stdin: &[u8], timeout: Duration) -> CliOut {
    let mut cmd = Command::new(exe);
    cmd.args(args).env_clear().env("RUST_BACKTRACE", "0").stdout(Stdio::piped()).stderr(Stdio::piped());
    // Every run starts in a scratch directory of this process (cases pass absolute paths): whatever a changed
    // tool writes relative to its working directory stays out of /verif and is removed with the scratch space.
    cmd.current_dir(work_dir());
    // What standard input is (chosen by a hash of the invocation, so that a replay repeats it): mostly a pipe,
    // sometimes a socket (how sshd and inetd start commands), a regular file, or a regular file whose offset is
    // not 0 (a shell redirection partly consumed by an earlier command). The bytes to be read are the same.
    let hk = crate::engine::stable_hash(&("stdin-kind", args.iter().map(|a| a.to_string_lossy().into_owned()).collect::<Vec<_>>(), stdin.len(), stdin.iter().take(64).collect::<Vec<_>>()));
    let mut stdin_kind: &'static str = "pipe";
    // a case that names standard input by path (/dev/stdin, /proc/self/fd/0, /dev/fd/0) asks the OS to re-open
    // it: what that does for a socket (ENXIO) or a file at an offset (starts again at 0) is the OS's business
    let by_path = args.iter().any(|a| {
        let a = a.to_string_lossy();
        a.contains("/dev/stdin") || a.contains("/fd/0") || a.contains("/dev/fd")
    });
    let nonblocking = NONBLOCKING_STDIN.with(|c| c.get());
    if std::env::var_os("HDV_NO_AMBIENT").is_none() && !by_path && !nonblocking {
        stdin_kind = match hk % 10 {
            0 | 1 => "socket",
            2 if !stdin.is_empty() => "file",
            3 | 4 if !stdin.is_empty() => "file-at-offset",
            _ => "pipe",
        };
    }
    let mut socket_parent: Option<std::os::unix::net::UnixStream> = None;
    let mut stdin_file: Option<PathBuf> = None;
    match stdin_kind {
        "socket" => match std::os::unix::net::UnixStream::pair() {
            Ok((ours, theirs)) => {
                cmd.stdin(Stdio::from(std::os::fd::OwnedFd::from(theirs)));
                socket_parent = Some(ours);
            }
            Err(_) => {
                stdin_kind = "pipe";
                cmd.stdin(Stdio::piped());
            }
        },
        "file" | "file-at-offset" => {
            use std::io::{Seek, SeekFrom};
            let skip: usize = if stdin_kind == "file" { 0 } else { 1 + (hk / 10 % 9000) as usize };
            let mut content = vec![b'#'; skip];
            content.extend_from_slice(stdin);
            let path = temp_file(&global_root(), &content);
            match std::fs::File::open(&path).and_then(|mut f| f.seek(SeekFrom::Start(skip as u64)).map(|_| f)) {
                Ok(f) => {
                    cmd.stdin(Stdio::from(f));
                }
                Err(_) => {
                    stdin_kind = "pipe";
                    cmd.stdin(Stdio::piped());
                }
            }
            stdin_file = Some(path);
        }
        _ => {
            cmd.stdin(Stdio::piped());
        }
    }
    for (k, v) in env {
        cmd.env(k, v);
    }
    // Every third run (chosen by a hash of the invocation, so that a replay repeats it) also carries 1-3
    // ambient variables of a user's shell: no property lets an outcome depend on them.
    let mut ambient: Vec<(String, String)> = vec![];
    if std::env::var_os("HDV_NO_AMBIENT").is_none() {
        let h = crate::engine::stable_hash(&(args.iter().map(|a| a.to_string_lossy().into_owned()).collect::<Vec<_>>(), env, stdin.len(), stdin.iter().take(64).collect::<Vec<_>>()));
        if h % 3 == 0 {
            let tape = crate::engine::Prng::new(h).bytes(64);
            let mut u = crate::gen::U::new(&tape);
            let mut chosen = ambient_env(&mut u);
            // half of these runs also carry one or two variables named after the executable's own options
            if u.bool() {
                let names = discovered_env_names(exe);
                if !names.is_empty() {
                    for _ in 0..1 + u.below(2) {
                        let k = names[u.below(names.len())].clone();
                        let v = ["1", "true", "0", "2", "12", "24", "english", "0x1", "m/0", "yes", "137", ""][u.below(12)].to_string();
                        if !chosen.iter().any(|(kk, _)| *kk == k) {
                            chosen.push((k, v));
                        }
                    }
                }
            }
            for (k, v) in chosen {
                if !env.iter().any(|(kk, _)| *kk == k) {
                    cmd.env(&k, &v);
                    ambient.push((k, v));
                }
            }
        }
    }
    if nonblocking {
        use std::os::unix::process::CommandExt;
        unsafe {
            cmd.pre_exec(|| {
                let fl = libc::fcntl(0, libc::F_GETFL);
                if fl >= 0 {
                    libc::fcntl(0, libc::F_SETFL, fl | libc::O_NONBLOCK);
                }
                Ok(())
            });
        }
        ambient.push(("stdin".into(), "a pipe in non-blocking mode".into()));
    }
    // One run in twelve (hash-chosen) is confined to a single CPU, as under `taskset`, a one-CPU container or VM:
    // no property lets an outcome depend on how many processors the process may use.
    if std::env::var_os("HDV_NO_AMBIENT").is_none() && (hk / 13) % 12 == 5 {
        use std::os::unix::process::CommandExt;
        unsafe {
            cmd.pre_exec(|| {
                let mut set: libc::cpu_set_t = std::mem::zeroed();
                if libc::sched_getaffinity(0, std::mem::size_of::<libc::cpu_set_t>(), &mut set) == 0 {
                    if let Some(first) = (0..libc::CPU_SETSIZE as usize).find(|i| libc::CPU_ISSET(*i, &set)) {
                        let mut one: libc::cpu_set_t = std::mem::zeroed();
                        libc::CPU_SET(first, &mut one);
                        libc::sched_setaffinity(0, std::mem::size_of::<libc::cpu_set_t>(), &one);
                    }
                }
                Ok(())
            });
        }
        ambient.push(("cpu-affinity".into(), "the process may run on one CPU only".into()));
    }
    // One run in five (hash-chosen) has such a directory as working directory and HOME (cases pass absolute paths).
    if std::env::var_os("HDV_NO_AMBIENT").is_none() && (hk / 100) % 5 == 0 && !env.iter().any(|(k, _)| k == "HOME" || k == "XDG_CONFIG_HOME") {
        let d = decoy_dir();
        cmd.current_dir(&d);
        if !ambient.iter().any(|(k, _)| k == "HOME") {
            cmd.env("HOME", &d);
            cmd.env("XDG_CONFIG_HOME", d.join(".config"));
            ambient.push(("HOME+cwd".into(), "decoy directory with .env / hdwallet.toml / config files".into()));
        } else {
            ambient.push(("cwd".into(), "decoy directory with .env / hdwallet.toml / config files".into()));
        }
    }
    let mut child = match cmd.spawn() {
        Ok(c) => c,
        Err(e) => {
            return CliOut {
                code: None,
                signal: None,
                stdout: vec![],
                stderr: format!("spawn failed: {e}").into_bytes(),
                timed_out: true,
                hang: None,
                ambient: vec![],
                stdin_kind: "pipe",
            }
        }
    };
    // the Command still owns this process's copy of the child's end of a socket or file given as standard input:
    // while it is open a child that exits without reading would leave the writer below blocked for ever
    drop(cmd);
    let id = NEXT.fetch_add(1, Ordering::Relaxed);
    let now = Instant::now();
    let is_search = args.iter().any(|a| a.to_string_lossy().contains("--vanity-prefix"));
    let cpu_limit = CPU_BUDGET_OVERRIDE.with(|c| c.get()).unwrap_or(if is_search { CPU_LIMIT_S } else { NONSEARCH_CPU_LIMIT_S });
    watchdog().lock().unwrap().push(Watch { pid: child.id(), start: now, deadline: now + timeout, id, last_cpu: 0, idle_since: now, last_probe: now, cpu_limit });
    let sin = child.stdin.take();
    let data = stdin.to_vec();
    // One run in sixteen with input on a pipe or socket gets it in two or three writes with a pause in between
    // (a writer that is slower than the reader): a reader must read until end of input, not until the first
    // short read. The pause only has to outlast the child's start-up; if it does not, the run is an ordinary one.
    let trickle: Vec<usize> = if std::env::var_os("HDV_NO_AMBIENT").is_none() && data.len() >= 2 && ((hk / 1000) % 16 == 0 || nonblocking) {
        let a = 1 + (hk / 16_000) as usize % (data.len() - 1);
        let mut cuts = vec![a];
        if data.len() - a >= 2 && (hk / 7) % 2 == 0 {
            cuts.push(a + 1 + (hk / 9_000_000) as usize % (data.len() - a - 1));
        }
        cuts
    } else {
        vec![]
    };
    if !trickle.is_empty() {
        stdin_kind = match stdin_kind {
            "socket" => "socket-written-in-several-parts",
            "pipe" => "pipe-written-in-several-parts",
            k => k,
        };
    }
    let writer = std::thread::spawn(move || {
        let mut parts: Vec<&[u8]> = vec![];
        let mut from = 0;
        for c in &trickle {
            parts.push(&data[from..*c]);
            from = *c;
        }
        parts.push(&data[from..]);
        let deliver = |w: &mut dyn Write| {
            for (i, part) in parts.iter().enumerate() {
                if i > 0 {
                    let _ = w.flush();
                    std::thread::sleep(Duration::from_millis(30));
                }
                if w.write_all(part).is_err() {
                    break;
                }
            }
        };
        if let Some(mut sin) = sin {
            deliver(&mut sin);
            drop(sin);
        } else if let Some(mut s) = socket_parent {
            deliver(&mut s);
            let _ = s.shutdown(std::net::Shutdown::Write);
        }
    });
    let out = child.wait_with_output();
    let _ = writer.join();
    if let Some(p) = stdin_file {
        let _ = std::fs::remove_file(p);
    }
    watchdog().lock().unwrap().retain(|e| e.id != id);
    let killed: Option<Option<String>> = KILLED.get().and_then(|k| {
        let mut k = k.lock().unwrap();
        k.iter().position(|x| x.0 == id).map(|p| k.remove(p).1)
    });
    let timed_out = matches!(killed, Some(None));
    let hang = killed.flatten();
    match out {
        Ok(o) => {
            use std::os::unix::process::ExitStatusExt;
            CliOut {
                code: o.status.code(),
                signal: if timed_out { None } else { o.status.signal() },
                stdout: o.stdout,
                stderr: o.stderr,
                timed_out,
                hang,
                ambient,
                stdin_kind,
            }
        }
        Err(e) => CliOut { code: None, signal: None, stdout: vec![], stderr: format!("wait failed: {e}").into_bytes(), timed_out: true, hang: None, ambient: vec![], stdin_kind: "pipe" },
    }
}

/// Per-process scratch directory under <root>/.build/tmp/<pid>/, removed by `cleanup`.
pub fn scratch(root: &Path) -> PathBuf {
    let build = std::env::var_os("HDV_BUILD").map(PathBuf::from).unwrap_or_else(|| root.join(".build"));
    let d = build.join("tmp").join(std::process::id().to_string());
    let _ = std::fs::create_dir_all(&d);
    d
}

pub fn cleanup(root: &Path) {
    let build = std::env::var_os("HDV_BUILD").map(PathBuf::from).unwrap_or_else(|| root.join(".build"));
    let _ = std::fs::remove_dir_all(build.join("tmp").join(std::process::id().to_string()));
}

static FILE_N: AtomicU64 = AtomicU64::new(0);

/// Writes `data` to a fresh scratch file and returns its path.
pub fn temp_file(root: &Path, data: &[u8]) -> PathBuf {
    let p = scratch(root).join(format!("in-{}", FILE_N.fetch_add(1, Ordering::Relaxed)));
    std::fs::write(&p, data).expect("write scratch file");
    p
}

static GLOBAL_CLI: OnceLock<PathBuf> = OnceLock::new();
static GLOBAL_ROOT: OnceLock<PathBuf> = OnceLock::new();

/// Set once by the binary: the checked CLI executable and the framework root.
pub fn set_global(cli: Option<PathBuf>, root: PathBuf) {
    if let Some(c) = cli {
        let _ = GLOBAL_CLI.set(c);
    }
    let _ = GLOBAL_ROOT.set(root);
}

pub fn global_cli() -> Option<PathBuf> {
    GLOBAL_CLI.get().filter(|p| p.exists()).cloned()
}

pub fn global_root() -> PathBuf {
    GLOBAL_ROOT.get().cloned().unwrap_or_else(|| PathBuf::from("/verif"))
}

/// Runs the global CLI with a 60 s watchdog; None if no CLI is configured.
pub fn run_global(inv: &Invocation) -> Option<CliOut> {
    Some(run(&global_cli()?, inv, Duration::from_secs(60)))
}

/// Creates a FIFO under the scratch directory and feeds `data` into it from a background thread as soon as
/// a reader opens it (gives up after 20 s). Returns the path; remove it after the run.
pub fn fifo_with(root: &Path, data: &[u8]) -> Option<PathBuf> {
    use std::os::unix::ffi::OsStrExt;
    use std::os::unix::io::FromRawFd;
    let p = scratch(root).join(format!("fifo-{}", FILE_N.fetch_add(1, Ordering::Relaxed)));
    let c = std::ffi::CString::new(p.as_os_str().as_bytes()).ok()?;
    if unsafe { libc::mkfifo(c.as_ptr(), 0o600) } != 0 {
        return None;
    }
    let data = data.to_vec();
    std::thread::spawn(move || {
        let start = Instant::now();
        loop {
            let fd = unsafe { libc::open(c.as_ptr(), libc::O_WRONLY | libc::O_NONBLOCK) };
            if fd >= 0 {
                // back to blocking writes
                unsafe {
                    let fl = libc::fcntl(fd, libc::F_GETFL);
                    libc::fcntl(fd, libc::F_SETFL, fl & !libc::O_NONBLOCK);
                }
                let mut f = unsafe { std::fs::File::from_raw_fd(fd) };
                let _ = f.write_all(&data);
                return;
            }
            if start.elapsed() > Duration::from_secs(20) {
                return;
            }
            std::thread::sleep(Duration::from_millis(1));
        }
    });
    Some(p)
}

// ---------------------------------------------------------------- terminals

/// Runs the executable with a pseudo-terminal as standard output and/or standard input - what a user at a shell
/// prompt has. Output processing is off (no NL -> CR NL), so the bytes read from the master are the bytes written.
/// Terminal input is "typed": canonical mode without echo, the text followed by the end-of-file character(s); it
/// must consist of lines shorter than 4096 bytes without control characters other than the line feed.
/// Returns None when the pseudo-terminal cannot be set up or the run does not end in time (never a verdict).
pub fn run_tty(exe: &Path, args: &[&str], stdin_data: &[u8], stdin_tty: bool, stdout_tty: bool) -> Option<CliOut> {
    run_tty_env(exe, args, &[], stdin_data, stdin_tty, stdout_tty)
}

pub fn run_tty_env(exe: &Path, args: &[&str], env: &[(String, String)], stdin_data: &[u8], stdin_tty: bool, stdout_tty: bool) -> Option<CliOut> {
    use std::os::fd::{FromRawFd, OwnedFd};
    unsafe fn open_pty(raw_output: bool, echo: bool) -> Option<(OwnedFd, OwnedFd)> {
        let (mut m, mut s) = (0, 0);
        if libc::openpty(&mut m, &mut s, std::ptr::null_mut(), std::ptr::null_mut(), std::ptr::null_mut()) != 0 {
            return None;
        }
        let mut t: libc::termios = std::mem::zeroed();
        if libc::tcgetattr(s, &mut t) != 0 {
            return None;
        }
        if raw_output {
            t.c_oflag &= !libc::OPOST;
        }
        if !echo {
            t.c_lflag &= !(libc::ECHO | libc::ECHOE | libc::ECHOK | libc::ECHONL);
        }
        libc::tcsetattr(s, libc::TCSANOW, &t);
        Some((OwnedFd::from_raw_fd(m), OwnedFd::from_raw_fd(s)))
    }
    let mut cmd = Command::new(exe);
    cmd.args(args).env_clear().env("RUST_BACKTRACE", "0").env("TERM", "xterm").stderr(Stdio::piped());
    cmd.current_dir(work_dir());
    for (k, v) in env {
        cmd.env(k, v);
    }
    let mut out_master = None;
    if stdout_tty {
        let (m, s) = unsafe { open_pty(true, false) }?;
        cmd.stdout(Stdio::from(s));
        out_master = Some(m);
    } else {
        cmd.stdout(Stdio::piped());
    }
    let mut in_master = None;
    if stdin_tty {
        let (m, s) = unsafe { open_pty(true, false) }?;
        cmd.stdin(Stdio::from(s));
        in_master = Some(m);
    } else {
        cmd.stdin(Stdio::piped());
    }
    let mut child = cmd.spawn().ok()?;
    drop(cmd); // closes our copies of the slave ends
    // input
    let data = stdin_data.to_vec();
    let pipe_in = child.stdin.take();
    let feeder = std::thread::spawn(move || {
        if let Some(m) = in_master {
            let mut f = std::fs::File::from(m);
            let _ = f.write_all(&data);
            // end of file: once at the start of a line, twice after an unfinished line
            let _ = f.write_all(if data.last() == Some(&b'\n') || data.is_empty() { b"\x04" } else { b"\x04\x04" });
            // keep the master open until the child has had time to read; closing it hangs up the terminal
            std::thread::sleep(Duration::from_millis(1500));
        } else if let Some(mut p) = pipe_in {
            let _ = p.write_all(&data);
        }
    });
    // output: read the master until the child is gone and the terminal reports EIO / EOF
    let reader = out_master.map(|m| {
        std::thread::spawn(move || {
            use std::io::Read;
            let mut f = std::fs::File::from(m);
            let mut out = vec![];
            let mut buf = [0u8; 65536];
            loop {
                match f.read(&mut buf) {
                    Ok(0) | Err(_) => break,
                    Ok(n) => out.extend_from_slice(&buf[..n]),
                }
            }
            out
        })
    });
    let start = Instant::now();
    let status = loop {
        match child.try_wait() {
            Ok(Some(s)) => break Some(s),
            Ok(None) if start.elapsed() > Duration::from_secs(20) => {
                let _ = child.kill();
                let _ = child.wait();
                break None;
            }
            Ok(None) => std::thread::sleep(Duration::from_millis(2)),
            Err(_) => break None,
        }
    };
    let mut stdout = vec![];
    let mut stderr = vec![];
    {
        use std::io::Read;
        if let Some(mut e) = child.stderr.take() {
            let _ = e.read_to_end(&mut stderr);
        }
        if let Some(mut o) = child.stdout.take() {
            let _ = o.read_to_end(&mut stdout);
        }
    }
    if let Some(r) = reader {
        stdout = r.join().ok()?;
    }
    drop(feeder); // detached: it only sleeps and closes the master
    let status = status?;
    use std::os::unix::process::ExitStatusExt;
    Some(CliOut { code: status.code(), signal: status.signal(), stdout, stderr, timed_out: false, hang: None, ambient: vec![], stdin_kind: if stdin_tty { "terminal" } else { "pipe" } })
}

/// All three standard streams on pseudo-terminals (one for input, one for output, one for error so that the two
/// outputs stay apart); nothing is typed, the input terminal just stays open until the run ends. 120 s wall limit
/// (a 3-digit vanity search may run here). Returns None when the terminals cannot be set up or the run does not end.
pub fn run_all_tty(exe: &Path, args: &[&str]) -> Option<CliOut> {
    use std::os::fd::{FromRawFd, OwnedFd};
    unsafe fn open_pty() -> Option<(OwnedFd, OwnedFd)> {
        let (mut m, mut s) = (0, 0);
        if libc::openpty(&mut m, &mut s, std::ptr::null_mut(), std::ptr::null_mut(), std::ptr::null_mut()) != 0 {
            return None;
        }
        let mut t: libc::termios = std::mem::zeroed();
        if libc::tcgetattr(s, &mut t) == 0 {
            t.c_oflag &= !libc::OPOST;
            t.c_lflag &= !(libc::ECHO | libc::ECHOE | libc::ECHOK | libc::ECHONL);
            libc::tcsetattr(s, libc::TCSANOW, &t);
        }
        Some((OwnedFd::from_raw_fd(m), OwnedFd::from_raw_fd(s)))
    }
    let (in_m, in_s) = unsafe { open_pty() }?;
    let (out_m, out_s) = unsafe { open_pty() }?;
    let (err_m, err_s) = unsafe { open_pty() }?;
    let mut cmd = Command::new(exe);
    cmd.args(args).env_clear().env("RUST_BACKTRACE", "0").env("TERM", "xterm-256color").env("COLUMNS", "80").env("LINES", "24");
    cmd.current_dir(work_dir());
    cmd.stdin(Stdio::from(in_s)).stdout(Stdio::from(out_s)).stderr(Stdio::from(err_s));
    let mut child = cmd.spawn().ok()?;
    drop(cmd);
    let read_all = |m: OwnedFd| {
        std::thread::spawn(move || {
            use std::io::Read;
            let mut f = std::fs::File::from(m);
            let mut out = vec![];
            let mut buf = [0u8; 65536];
            loop {
                match f.read(&mut buf) {
                    Ok(0) | Err(_) => break,
                    Ok(n) => out.extend_from_slice(&buf[..n]),
                }
            }
            out
        })
    };
    let (ro, re) = (read_all(out_m), read_all(err_m));
    let start = Instant::now();
    let status = loop {
        match child.try_wait() {
            Ok(Some(s)) => break Some(s),
            Ok(None) if start.elapsed() > Duration::from_secs(120) => {
                let _ = child.kill();
                let _ = child.wait();
                break None;
            }
            Ok(None) => std::thread::sleep(Duration::from_millis(5)),
            Err(_) => break None,
        }
    };
    drop(in_m);
    let stdout = ro.join().ok()?;
    let stderr = re.join().ok()?;
    let status = status?;
    use std::os::unix::process::ExitStatusExt;
    Some(CliOut { code: status.code(), signal: status.signal(), stdout, stderr, timed_out: false, hang: None, ambient: vec![], stdin_kind: "terminal" })
}
