//! EIP-712 reference computed from a type AST (never from a type string).

use super::keccak;
use super::u256::Big;
use serde::{Deserialize, Serialize};
use std::collections::BTreeSet;

#[derive(Clone, Debug, PartialEq, Eq, Hash, Serialize, Deserialize)]
pub enum Ty {
    Bool,
    Address,
    String,
    Bytes,
    BytesN(u8),
    Uint(u16),
    Int(u16),
    Struct(String),
    Array(Box<Ty>, Option<u32>),
}

#[derive(Clone, Debug, PartialEq, Eq, Hash, Serialize, Deserialize)]
pub struct StructDef {
    pub name: String,
    pub members: Vec<(String, Ty)>,
}

#[derive(Clone, Debug, PartialEq, Eq, Hash, Serialize, Deserialize, Default)]
pub struct TypeGraph {
    pub structs: Vec<StructDef>,
}

#[derive(Clone, Debug, PartialEq, Eq, Hash, Serialize, Deserialize)]
pub enum Val {
    Bool(bool),
    Address([u8; 20]),
    Str(String),
    Bytes(#[serde(with = "super::tx::hexbytes")] Vec<u8>),
    Uint(Big),
    Int { neg: bool, mag: Big },
    Struct(Vec<(String, Val)>),
    Array(Vec<Val>),
}

impl Ty {
    /// The type's name in EIP-712 syntax.
    pub fn name(&self) -> String {
        match self {
            Ty::Bool => "bool".into(),
            Ty::Address => "address".into(),
            Ty::String => "string".into(),
            Ty::Bytes => "bytes".into(),
            Ty::BytesN(n) => format!("bytes{n}"),
            Ty::Uint(n) => format!("uint{n}"),
            Ty::Int(n) => format!("int{n}"),
            Ty::Struct(s) => s.clone(),
            Ty::Array(t, None) => format!("{}[]", t.name()),
            Ty::Array(t, Some(n)) => format!("{}[{n}]", t.name()),
        }
    }
    pub fn struct_ref(&self) -> Option<&str> {
        match self {
            Ty::Struct(s) => Some(s),
            Ty::Array(t, _) => t.struct_ref(),
            _ => None,
        }
    }
    pub fn is_array(&self) -> bool {
        matches!(self, Ty::Array(..))
    }
    pub fn array_dims(&self) -> u32 {
        match self {
            Ty::Array(t, _) => 1 + t.array_dims(),
            _ => 0,
        }
    }
}

impl TypeGraph {
    pub fn get(&self, name: &str) -> Option<&StructDef> {
        self.structs.iter().find(|s| s.name == name)
    }

    /// Struct types reachable from `name`, excluding `name` itself, in name
    /// (byte) order. None if some referenced struct is undefined.
    pub fn dependencies(&self, name: &str) -> Option<Vec<String>> {
        let mut seen: BTreeSet<String> = BTreeSet::new();
        let mut stack = vec![name.to_string()];
        let mut visited_root = false;
        while let Some(cur) = stack.pop() {
            if cur == name {
                if visited_root {
                    continue;
                }
                visited_root = true;
            } else if !seen.insert(cur.clone()) {
                continue;
            }
            let def = self.get(&cur)?;
            for (_, t) in &def.members {
                if let Some(r) = t.struct_ref() {
                    stack.push(r.to_string());
                }
            }
        }
        Some(seen.into_iter().collect())
    }

    fn one(&self, name: &str) -> Option<String> {
        let def = self.get(name)?;
        let members: Vec<String> = def.members.iter().map(|(n, t)| format!("{} {}", t.name(), n)).collect();
        Some(format!("{}({})", name, members.join(",")))
    }

    pub fn encode_type(&self, name: &str) -> Option<String> {
        let mut s = self.one(name)?;
        for d in self.dependencies(name)? {
            s.push_str(&self.one(&d)?);
        }
        Some(s)
    }

    pub fn type_hash(&self, name: &str) -> Option<[u8; 32]> {
        Some(keccak(self.encode_type(name)?.as_bytes()))
    }

    /// encodeData of one value: the 32-byte word. None if the value does not
    /// conform to the type (the generator never produces that; used by
    /// conformance checks).
    pub fn encode_value(&self, ty: &Ty, v: &Val) -> Option<[u8; 32]> {
        Some(match (ty, v) {
            (Ty::Bool, Val::Bool(b)) => {
                let mut w = [0u8; 32];
                w[31] = u8::from(*b);
                w
            }
            (Ty::Address, Val::Address(a)) => {
                let mut w = [0u8; 32];
                w[12..].copy_from_slice(a);
                w
            }
            (Ty::String, Val::Str(s)) => keccak(s.as_bytes()),
            (Ty::Bytes, Val::Bytes(b)) => keccak(b),
            (Ty::BytesN(n), Val::Bytes(b)) => {
                if b.len() != *n as usize || *n == 0 || *n > 32 {
                    return None;
                }
                let mut w = [0u8; 32];
                w[..b.len()].copy_from_slice(b);
                w
            }
            (Ty::Uint(n), Val::Uint(x)) => {
                if x.bit_len() > *n as u32 {
                    return None;
                }
                x.to_be32()?
            }
            (Ty::Int(n), Val::Int { neg, mag }) => {
                // range [-2^(n-1), 2^(n-1))
                let half = Big::pow2(*n as u32 - 1);
                let ok = if *neg { mag <= &half } else { mag < &half };
                if !ok {
                    return None;
                }
                mag.twos_word(*neg)?
            }
            (Ty::Struct(name), Val::Struct(_)) => self.hash_struct(name, v)?,
            (Ty::Array(t, size), Val::Array(items)) => {
                if let Some(n) = size {
                    if items.len() != *n as usize {
                        return None;
                    }
                }
                let mut buf = Vec::with_capacity(items.len() * 32);
                for it in items {
                    buf.extend_from_slice(&self.encode_value(t, it)?);
                }
                keccak(&buf)
            }
            _ => return None,
        })
    }

    pub fn hash_struct(&self, name: &str, v: &Val) -> Option<[u8; 32]> {
        let def = self.get(name)?;
        let Val::Struct(fields) = v else { return None };
        if fields.len() != def.members.len() {
            return None;
        }
        let mut buf = self.type_hash(name)?.to_vec();
        for (mname, mty) in &def.members {
            let (_, fv) = fields.iter().find(|(n, _)| n == mname)?;
            buf.extend_from_slice(&self.encode_value(mty, fv)?);
        }
        Some(keccak(&buf))
    }
}

pub fn signing_digest(domain_separator: &[u8; 32], message_hash: &[u8; 32]) -> [u8; 32] {
    super::keccak_parts(&[&[0x19, 0x01], domain_separator, message_hash])
}

/// The five standard domain fields in their standard order.
pub fn standard_domain_fields() -> [(&'static str, Ty); 5] {
    [
        ("name", Ty::String),
        ("version", Ty::String),
        ("chainId", Ty::Uint(256)),
        ("verifyingContract", Ty::Address),
        ("salt", Ty::BytesN(32)),
    ]
}

/// Well-formedness of an EIP712Domain member list per the property.
pub fn domain_well_formed(members: &[(String, Ty)]) -> bool {
    if members.is_empty() {
        return false;
    }
    let std = standard_domain_fields();
    let mut last: Option<usize> = None;
    for (n, t) in members {
        let Some(pos) = std.iter().position(|(sn, _)| sn == n) else { return false };
        if &std[pos].1 != t {
            return false;
        }
        if let Some(l) = last {
            if pos <= l {
                return false;
            }
        }
        last = Some(pos);
    }
    true
}
