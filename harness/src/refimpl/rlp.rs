//! RLP reference: encoder from the yellow-paper definition and a STRICT
//! (canonical-only) decoder.

#[derive(Clone, Debug, PartialEq, Eq, Hash)]
pub enum Item {
    Bytes(Vec<u8>),
    List(Vec<Item>),
}

fn be_min(mut n: usize) -> Vec<u8> {
    let mut v = vec![];
    while n > 0 {
        v.push((n & 0xff) as u8);
        n >>= 8;
    }
    v.reverse();
    v
}

/// Header for a payload of `len` bytes with base 0x80 (string) or 0xc0 (list).
pub fn header(len: u64, base: u8) -> Vec<u8> {
    if len <= 55 {
        vec![base + len as u8]
    } else {
        let mut be = vec![];
        let mut n = len;
        while n > 0 {
            be.push((n & 0xff) as u8);
            n >>= 8;
        }
        be.reverse();
        let mut out = vec![base + 55 + be.len() as u8];
        out.extend_from_slice(&be);
        out
    }
}

pub fn encode_bytes(b: &[u8]) -> Vec<u8> {
    if b.len() == 1 && b[0] < 0x80 {
        return vec![b[0]];
    }
    let mut out = header(b.len() as u64, 0x80);
    out.extend_from_slice(b);
    out
}

pub fn encode(item: &Item) -> Vec<u8> {
    match item {
        Item::Bytes(b) => encode_bytes(b),
        Item::List(items) => {
            let mut payload = vec![];
            for i in items {
                payload.extend_from_slice(&encode(i));
            }
            let mut out = header(payload.len() as u64, 0xc0);
            out.extend_from_slice(&payload);
            out
        }
    }
}

/// Minimal big-endian representation of an integer given as big-endian bytes.
pub fn uint_min(be: &[u8]) -> Vec<u8> {
    let z = be.iter().take_while(|b| **b == 0).count();
    be[z..].to_vec()
}

pub fn uint(be: &[u8]) -> Item {
    Item::Bytes(uint_min(be))
}

/// Integer view of a decoded item: rejects lists and leading zero bytes.
pub fn as_uint(item: &Item) -> Result<Vec<u8>, String> {
    match item {
        Item::Bytes(b) if b.first() == Some(&0) => Err("integer with leading zero byte".into()),
        Item::Bytes(b) => Ok(b.clone()),
        Item::List(_) => Err("list where integer expected".into()),
    }
}

fn read_len(data: &[u8], pos: usize, n: usize) -> Result<usize, String> {
    if pos + n > data.len() {
        return Err("truncated length".into());
    }
    let b = &data[pos..pos + n];
    if b[0] == 0 {
        return Err("length with leading zero byte".into());
    }
    if n > 8 {
        return Err("length too large".into());
    }
    let mut v: usize = 0;
    for x in b {
        v = (v << 8) | *x as usize;
    }
    if v < 56 {
        return Err(format!("long form used for length {v} < 56"));
    }
    let _ = be_min;
    Ok(v)
}

fn decode_at(data: &[u8], pos: usize, depth: u32) -> Result<(Item, usize), String> {
    if depth > 64 {
        return Err("nesting too deep".into());
    }
    let Some(&t) = data.get(pos) else { return Err("truncated".into()) };
    match t {
        0x00..=0x7f => Ok((Item::Bytes(vec![t]), pos + 1)),
        0x80..=0xb7 => {
            let len = (t - 0x80) as usize;
            let end = pos + 1 + len;
            if end > data.len() {
                return Err("truncated string".into());
            }
            let b = &data[pos + 1..end];
            if len == 1 && b[0] < 0x80 {
                return Err("single byte below 0x80 wrapped in a string header".into());
            }
            Ok((Item::Bytes(b.to_vec()), end))
        }
        0xb8..=0xbf => {
            let n = (t - 0xb7) as usize;
            let len = read_len(data, pos + 1, n)?;
            let start = pos + 1 + n;
            let end = start.checked_add(len).ok_or("overflow")?;
            if end > data.len() {
                return Err("truncated long string".into());
            }
            Ok((Item::Bytes(data[start..end].to_vec()), end))
        }
        0xc0..=0xf7 => {
            let len = (t - 0xc0) as usize;
            let end = pos + 1 + len;
            if end > data.len() {
                return Err("truncated list".into());
            }
            Ok((Item::List(decode_seq(data, pos + 1, end, depth)?), end))
        }
        0xf8..=0xff => {
            let n = (t - 0xf7) as usize;
            let len = read_len(data, pos + 1, n)?;
            let start = pos + 1 + n;
            let end = start.checked_add(len).ok_or("overflow")?;
            if end > data.len() {
                return Err("truncated long list".into());
            }
            Ok((Item::List(decode_seq(data, start, end, depth)?), end))
        }
    }
}

fn decode_seq(data: &[u8], mut pos: usize, end: usize, depth: u32) -> Result<Vec<Item>, String> {
    let mut items = vec![];
    while pos < end {
        let (it, next) = decode_at(&data[..end], pos, depth + 1)?;
        items.push(it);
        pos = next;
    }
    Ok(items)
}

/// Decodes exactly one canonical item spanning all of `data`.
pub fn decode_strict(data: &[u8]) -> Result<Item, String> {
    let (it, end) = decode_at(data, 0, 0)?;
    if end != data.len() {
        return Err(format!("{} trailing bytes", data.len() - end));
    }
    Ok(it)
}

#[cfg(test)]
mod tests {
    use super::*;
    #[test]
    fn strictness() {
        assert!(decode_strict(&[0x81, 0x05]).is_err());
        assert!(decode_strict(&[0x81, 0x80]).is_ok());
        assert!(decode_strict(&[0xb8, 0x05, 1, 2, 3, 4, 5]).is_err());
        assert!(decode_strict(&[0xb9, 0x00, 0x38]).is_err());
        assert!(decode_strict(&[0x80, 0x00]).is_err());
        assert_eq!(decode_strict(&[0xc8, 0x83, b'c', b'a', b't', 0x83, b'd', b'o', b'g']).unwrap(),
            Item::List(vec![Item::Bytes(b"cat".to_vec()), Item::Bytes(b"dog".to_vec())]));
        let long = vec![7u8; 56];
        let enc = encode_bytes(&long);
        assert_eq!(&enc[..2], &[0xb8, 56]);
        assert_eq!(decode_strict(&enc).unwrap(), Item::Bytes(long));
        assert!(as_uint(&Item::Bytes(vec![0, 1])).is_err());
        assert!(as_uint(&Item::Bytes(vec![])).is_ok());
    }
}
