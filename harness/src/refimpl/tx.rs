//! Transaction reference model: kind rule, unsigned/signed payloads, digests.

use super::rlp::{self, Item};
use super::u256::Big;
use serde::{Deserialize, Serialize};

#[derive(Clone, Copy, Debug, PartialEq, Eq, Hash, Serialize, Deserialize)]
pub enum Kind {
    Legacy,
    Eip2930,
    Eip1559,
}

/// The stated kind rule, from the set of JSON keys present.
pub fn kind_from_keys<'a>(keys: impl IntoIterator<Item = &'a str>) -> Kind {
    let keys: Vec<&str> = keys.into_iter().collect();
    if keys.contains(&"maxPriorityFeePerGas") || keys.contains(&"maxFeePerGas") {
        Kind::Eip1559
    } else if keys.contains(&"accessList") {
        Kind::Eip2930
    } else {
        Kind::Legacy
    }
}

#[derive(Clone, Debug, PartialEq, Eq, Hash, Serialize, Deserialize)]
pub struct TxModel {
    pub kind: Kind,
    pub chain_id: Option<Big>,
    pub nonce: Big,
    pub gas_price: Big,
    pub max_priority_fee: Big,
    pub max_fee: Big,
    pub gas: Big,
    pub to: Option<[u8; 20]>,
    pub value: Big,
    #[serde(with = "hexbytes")]
    pub data: Vec<u8>,
    pub access_list: Vec<([u8; 20], Vec<[u8; 32]>)>,
}

pub mod hexbytes {
    use serde::{Deserialize, Deserializer, Serializer};
    pub fn serialize<S: Serializer>(v: &Vec<u8>, s: S) -> Result<S::Ok, S::Error> {
        s.serialize_str(&super::super::hex0x(v))
    }
    pub fn deserialize<'de, D: Deserializer<'de>>(d: D) -> Result<Vec<u8>, D::Error> {
        let s = String::deserialize(d)?;
        super::super::unhex(s.strip_prefix("0x").unwrap_or(&s)).ok_or_else(|| serde::de::Error::custom("bad hex"))
    }
}

fn n(b: &Big) -> Item {
    Item::Bytes(b.to_be_min())
}

impl TxModel {
    fn access_list_item(&self) -> Item {
        Item::List(
            self.access_list
                .iter()
                .map(|(a, slots)| {
                    Item::List(vec![
                        Item::Bytes(a.to_vec()),
                        Item::List(slots.iter().map(|s| Item::Bytes(s.to_vec())).collect()),
                    ])
                })
                .collect(),
        )
    }

    fn to_item(&self) -> Item {
        Item::Bytes(self.to.map(|a| a.to_vec()).unwrap_or_default())
    }

    /// The fields that precede the signature, in wire order.
    pub fn body_items(&self) -> Vec<Item> {
        match self.kind {
            Kind::Legacy => vec![
                n(&self.nonce),
                n(&self.gas_price),
                n(&self.gas),
                self.to_item(),
                n(&self.value),
                Item::Bytes(self.data.clone()),
            ],
            Kind::Eip2930 => vec![
                n(self.chain_id.as_ref().expect("typed tx has chain id")),
                n(&self.nonce),
                n(&self.gas_price),
                n(&self.gas),
                self.to_item(),
                n(&self.value),
                Item::Bytes(self.data.clone()),
                self.access_list_item(),
            ],
            Kind::Eip1559 => vec![
                n(self.chain_id.as_ref().expect("typed tx has chain id")),
                n(&self.nonce),
                n(&self.max_priority_fee),
                n(&self.max_fee),
                n(&self.gas),
                self.to_item(),
                n(&self.value),
                Item::Bytes(self.data.clone()),
                self.access_list_item(),
            ],
        }
    }

    pub fn type_byte(&self) -> Option<u8> {
        match self.kind {
            Kind::Legacy => None,
            Kind::Eip2930 => Some(1),
            Kind::Eip1559 => Some(2),
        }
    }

    pub fn unsigned_payload(&self) -> Vec<u8> {
        let mut items = self.body_items();
        if self.kind == Kind::Legacy {
            if let Some(c) = &self.chain_id {
                items.push(n(c));
                items.push(Item::Bytes(vec![]));
                items.push(Item::Bytes(vec![]));
            }
        }
        let mut out: Vec<u8> = self.type_byte().into_iter().collect();
        out.extend_from_slice(&rlp::encode(&Item::List(items)));
        out
    }

    pub fn digest(&self) -> [u8; 32] {
        super::keccak(&self.unsigned_payload())
    }

    /// v (legacy) or yParity (typed) as an exact integer; None if it does not fit 256 bits.
    pub fn v_value(&self, parity: bool) -> Option<Big> {
        let p = u32::from(parity);
        let v = match (self.kind, &self.chain_id) {
            (Kind::Legacy, None) => Big::from_u128(27 + p as u128),
            (Kind::Legacy, Some(c)) => c.mul_small(2).add_small(35 + p),
            _ => Big::from_u128(p as u128),
        };
        v.fits_256().then_some(v)
    }

    pub fn signed_payload(&self, r: &[u8; 32], s: &[u8; 32], parity: bool) -> Option<Vec<u8>> {
        let mut items = self.body_items();
        items.push(n(&self.v_value(parity)?));
        items.push(rlp::uint(r));
        items.push(rlp::uint(s));
        let mut out: Vec<u8> = self.type_byte().into_iter().collect();
        out.extend_from_slice(&rlp::encode(&Item::List(items)));
        Some(out)
    }
}

/// Largest chain id for which 35 + 2c + 1 fits 256 bits.
pub fn c_max() -> Big {
    // floor((2^256 - 1 - 36) / 2)
    let m = Big::pow2(256).sub(&Big::from_u128(37)).unwrap();
    m.divrem_small(2).0
}
