//! BIP-39 reference: bit-string based, own copy of the English list.

use super::sha256;
use std::collections::HashMap;
use std::sync::OnceLock;

pub const WORDLIST_SHA256: &str = "2f5eed53a4727b4bf8880d8f3f199efc90e58503646d9ff8eff3a2ed3b24dbda";
static TEXT: &str = include_str!("../../data/bip39-english.txt");

pub struct List {
    pub words: Vec<&'static str>,
    pub index: HashMap<&'static str, u16>,
}

pub fn list() -> &'static List {
    static L: OnceLock<List> = OnceLock::new();
    L.get_or_init(|| {
        let words: Vec<&'static str> = TEXT.lines().collect();
        assert_eq!(words.len(), 2048, "reference word list must have 2048 entries");
        assert_eq!(super::hex_lower(&sha256(TEXT.as_bytes())), WORDLIST_SHA256, "reference word list hash");
        let index = words.iter().enumerate().map(|(i, w)| (*w, i as u16)).collect();
        List { words, index }
    })
}

pub fn word(i: u16) -> &'static str {
    list().words[i as usize]
}

pub fn lookup(w: &str) -> Option<u16> {
    list().index.get(w).copied()
}

pub const LENGTHS: [usize; 5] = [12, 15, 18, 21, 24];

/// entropy bytes for a word count, if it is one of the five sizes
pub fn entropy_len(words: usize) -> Option<usize> {
    LENGTHS.contains(&words).then_some(words * 4 / 3)
}

fn bits_of(bytes: &[u8]) -> Vec<bool> {
    let mut v = Vec::with_capacity(bytes.len() * 8);
    for b in bytes {
        for i in (0..8).rev() {
            v.push((b >> i) & 1 == 1);
        }
    }
    v
}

/// entropy (16/20/24/28/32 bytes) -> word indices
pub fn encode_indices(entropy: &[u8]) -> Vec<u16> {
    assert!(matches!(entropy.len(), 16 | 20 | 24 | 28 | 32));
    let mut bits = bits_of(entropy);
    let cs = entropy.len() * 8 / 32;
    let h = bits_of(&sha256(entropy));
    bits.extend_from_slice(&h[..cs]);
    assert_eq!(bits.len() % 11, 0);
    bits.chunks(11)
        .map(|c| c.iter().fold(0u16, |a, b| (a << 1) | u16::from(*b)))
        .collect()
}

pub fn encode_words(entropy: &[u8]) -> Vec<&'static str> {
    encode_indices(entropy).into_iter().map(word).collect()
}

pub fn encode_phrase(entropy: &[u8]) -> String {
    encode_words(entropy).join(" ")
}

#[derive(Debug, Clone, PartialEq, Eq)]
pub enum Invalid {
    WordCount(usize),
    UnknownWord(String),
    Checksum,
}

/// word indices -> entropy, verifying the count and checksum
pub fn decode_indices(idx: &[u16]) -> Result<Vec<u8>, Invalid> {
    let ent_bytes = entropy_len(idx.len()).ok_or(Invalid::WordCount(idx.len()))?;
    let mut bits = Vec::with_capacity(idx.len() * 11);
    for i in idx {
        for b in (0..11).rev() {
            bits.push((i >> b) & 1 == 1);
        }
    }
    let (e, c) = bits.split_at(ent_bytes * 8);
    let entropy: Vec<u8> = e
        .chunks(8)
        .map(|c| c.iter().fold(0u8, |a, b| (a << 1) | u8::from(*b)))
        .collect();
    let h = bits_of(&sha256(&entropy));
    if c != &h[..c.len()] {
        return Err(Invalid::Checksum);
    }
    Ok(entropy)
}

/// Splits on ASCII white space only (the set the checks generate).
pub fn split_ascii_ws(phrase: &str) -> Vec<&str> {
    phrase
        .split(|c: char| matches!(c, ' ' | '\t' | '\n' | '\r' | '\x0b' | '\x0c'))
        .filter(|w| !w.is_empty())
        .collect()
}

/// Full validity judgement of a phrase (white space = ASCII white space).
pub fn decode_phrase(phrase: &str) -> Result<Vec<u8>, Invalid> {
    let words = split_ascii_ws(phrase);
    if entropy_len(words.len()).is_none() {
        return Err(Invalid::WordCount(words.len()));
    }
    let mut idx = Vec::with_capacity(words.len());
    for w in &words {
        idx.push(lookup(w).ok_or_else(|| Invalid::UnknownWord(w.to_string()))?);
    }
    decode_indices(&idx)
}

/// BIP-39 seed from canonical phrase and an ALREADY NORMALISED passphrase.
pub fn seed_from_normalised(canonical_phrase: &str, nfkd_passphrase: &str) -> [u8; 64] {
    let mut salt = b"mnemonic".to_vec();
    salt.extend_from_slice(nfkd_passphrase.as_bytes());
    let v = super::pbkdf2_hmac_sha512(canonical_phrase.as_bytes(), &salt, 2048, 64);
    v.try_into().unwrap()
}

/// A valid mnemonic of `words` words whose words are as long (`long = true`) or as short as possible:
/// all but the last word are drawn (by `pick`) from the longest / shortest words of the list and the last
/// word is the longest / shortest of the final words the checksum allows. Returns the entropy.
pub fn entropy_with_word_lengths(words: usize, long: bool, mut pick: impl FnMut(usize) -> usize) -> Vec<u8> {
    let l = list();
    let mut by_len: Vec<u16> = (0..2048u16).collect();
    by_len.sort_by_key(|i| {
        let n = l.words[*i as usize].len() as i32;
        (if long { -n } else { n }, *i)
    });
    let pool = &by_len[..200];
    let mut idx: Vec<u16> = (0..words - 1).map(|_| pool[pick(pool.len())]).collect();
    let mut best: Option<(u16, usize)> = None;
    for w in 0..2048u16 {
        idx.push(w);
        if decode_indices(&idx).is_ok() {
            let n = l.words[w as usize].len();
            let better = match best {
                None => true,
                Some((_, bn)) => {
                    if long {
                        n > bn
                    } else {
                        n < bn
                    }
                }
            };
            if better {
                best = Some((w, n));
            }
        }
        idx.pop();
    }
    idx.push(best.expect("some final word satisfies the checksum").0);
    decode_indices(&idx).expect("valid by construction")
}
