//! RFC 6979 deterministic ECDSA over secp256k1 with HMAC-SHA256, written from
//! section 3.2 of the RFC, plus Ethereum's low-s normalisation.

use super::hmac_sha256;
use super::secp::{self, B32};

/// bits2octets for qlen = hlen = 256: reduce the digest modulo q.
fn bits2octets(h1: &B32) -> B32 {
    secp::scalar_reduce(h1)
}

/// The sequence of candidate nonces of RFC 6979 §3.2 for an arbitrary order q
/// given as a predicate `valid(k)` = 1 <= k < q. `x` is int2octets(private key).
pub fn nonces(x: &B32, h1_octets: &B32, valid: impl Fn(&B32) -> bool, take: usize) -> Vec<B32> {
    let mut v = [0x01u8; 32];
    let mut k = [0x00u8; 32];
    k = hmac_sha256(&k, &[&v, &[0x00], x, h1_octets]);
    v = hmac_sha256(&k, &[&v]);
    k = hmac_sha256(&k, &[&v, &[0x01], x, h1_octets]);
    v = hmac_sha256(&k, &[&v]);
    let mut out = vec![];
    loop {
        v = hmac_sha256(&k, &[&v]);
        let t = v; // qlen == hlen: one block
        if valid(&t) {
            out.push(t);
            if out.len() >= take {
                return out;
            }
        }
        k = hmac_sha256(&k, &[&v, &[0x00]]);
        v = hmac_sha256(&k, &[&v]);
    }
}

#[derive(Clone, Copy, Debug, PartialEq, Eq)]
pub struct Sig {
    pub r: B32,
    pub s: B32,
    pub y_parity: bool,
    /// the raw s was above n/2 and was replaced by n - s (parity flipped)
    pub flipped: bool,
}

/// Deterministic signature of digest `h1` (used as is, not hashed again) by
/// private key `d`, low-s normalised.
pub fn sign(d: &B32, h1: &B32) -> Sig {
    let octets = bits2octets(h1);
    for k in nonces(d, &octets, secp::is_valid_secret, 8) {
        if let Some((r, s, y_odd, _x_over)) = secp::ecdsa_sign_with_nonce(h1, d, &k) {
            let high = secp::cmp(&s, &secp::HALF_N) == std::cmp::Ordering::Greater;
            let (s, y) = if high { (secp::scalar_neg(&s), !y_odd) } else { (s, y_odd) };
            return Sig { r, s, y_parity: y, flipped: high };
        }
    }
    unreachable!("eight consecutive invalid nonces")
}
