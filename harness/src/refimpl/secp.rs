//! Self-contained reference implementation of secp256k1 arithmetic.
//!
//! Purpose: an independent test oracle. Only `std` is used; no bignum or curve
//! crate. Written for obviousness, not for speed, and it is NOT constant time.
//! Never use it to handle real secrets.
//!
//! Conventions
//! * Public API: every integer is a big-endian 32-byte array (`B32`).
//! * Internally: `U256 = [u64; 4]`, little-endian limbs (limb 0 is least
//!   significant).
//! * Both moduli have the shape m = 2^256 - c, so a 512-bit value
//!   `hi * 2^256 + lo` is congruent to `hi * c + lo`; reduction folds until
//!   `hi == 0` and then subtracts m at most once.
//! * Arithmetic never relies on implicit wrap-around: carries are propagated
//!   through u128 intermediates that provably cannot overflow, or through
//!   explicit `overflowing_*` / `wrapping_*` calls. The file is meant to be
//!   compiled with overflow checks enabled.
//! * `add`, `mul` and `neg` require their `Point` arguments to satisfy
//!   `on_curve` and panic (assert) otherwise: silent garbage from an oracle is
//!   worse than a loud failure. `ecdsa_verify` returns `false` for an
//!   off-curve public key instead.

use std::cmp::Ordering;
use std::sync::OnceLock;

pub type B32 = [u8; 32];
type U256 = [u64; 4];

// ---------------------------------------------------------------------------
// Constants
// ---------------------------------------------------------------------------

const fn hex_nibble(c: u8) -> u8 {
    match c {
        b'0'..=b'9' => c - b'0',
        b'a'..=b'f' => c - b'a' + 10,
        b'A'..=b'F' => c - b'A' + 10,
        _ => panic!("bad hex digit"),
    }
}

const fn hex32(s: &str) -> B32 {
    let b = s.as_bytes();
    assert!(b.len() == 64);
    let mut out = [0u8; 32];
    let mut i = 0;
    while i < 32 {
        out[i] = (hex_nibble(b[2 * i]) << 4) | hex_nibble(b[2 * i + 1]);
        i += 1;
    }
    out
}

/// Field prime 2^256 - 2^32 - 977.
pub const P: B32 = hex32("FFFFFFFFFFFFFFFFFFFFFFFFFFFFFFFFFFFFFFFFFFFFFFFFFFFFFFFEFFFFFC2F");
/// Group order.
pub const N: B32 = hex32("FFFFFFFFFFFFFFFFFFFFFFFFFFFFFFFEBAAEDCE6AF48A03BBFD25E8CD0364141");
/// (N - 1) / 2 = floor(N / 2).
pub const HALF_N: B32 = hex32("7FFFFFFFFFFFFFFFFFFFFFFFFFFFFFFF5D576E7357A4501DDFE92F46681B20A0");

const GX: B32 = hex32("79BE667EF9DCBBAC55A06295CE870B07029BFCDB2DCE28D959F2815B16F81798");
const GY: B32 = hex32("483ADA7726A3C4655DA4FBFC0E1108A8FD17B448A68554199C47D08FFB10D4B8");

const ZERO: U256 = [0, 0, 0, 0];
const ONE: U256 = [1, 0, 0, 0];
const SEVEN: U256 = [7, 0, 0, 0];

const fn from_be(b: &B32) -> U256 {
    let mut out = [0u64; 4];
    let mut i = 0;
    while i < 4 {
        let mut v = 0u64;
        let mut j = 0;
        while j < 8 {
            v = (v << 8) | (b[8 * i + j] as u64);
            j += 1;
        }
        out[3 - i] = v;
        i += 1;
    }
    out
}

fn to_be(a: &U256) -> B32 {
    let mut out = [0u8; 32];
    for i in 0..4 {
        out[8 * i..8 * i + 8].copy_from_slice(&a[3 - i].to_be_bytes());
    }
    out
}

/// 2^256 - m for m != 0 (two's complement negation).
const fn two_pow_256_minus(m: &U256) -> U256 {
    let mut out = [0u64; 4];
    let mut carry = true;
    let mut i = 0;
    while i < 4 {
        let (v, c) = (!m[i]).overflowing_add(carry as u64);
        out[i] = v;
        carry = c;
        i += 1;
    }
    out
}

/// A modulus of the form m = 2^256 - c with m > 2^255.
struct Modulus {
    m: U256,
    c: U256,
}

static FP: Modulus = Modulus {
    m: from_be(&P),
    c: two_pow_256_minus(&from_be(&P)),
};

static FN: Modulus = Modulus {
    m: from_be(&N),
    c: two_pow_256_minus(&from_be(&N)),
};

// ---------------------------------------------------------------------------
// 256-bit integer helpers
// ---------------------------------------------------------------------------

/// a + b + carry -> (low, carry_out). Cannot overflow u128.
#[inline(always)]
fn adc(a: u64, b: u64, carry: u64) -> (u64, u64) {
    let t = (a as u128) + (b as u128) + (carry as u128);
    (t as u64, (t >> 64) as u64)
}

/// a - b - borrow -> (low, borrow_out) with borrow in {0, 1}.
#[inline(always)]
fn sbb(a: u64, b: u64, borrow: u64) -> (u64, u64) {
    let (d1, b1) = a.overflowing_sub(b);
    let (d2, b2) = d1.overflowing_sub(borrow);
    (d2, (b1 | b2) as u64)
}

/// acc + a * b + carry -> (low, high).
/// Max value: (2^64-1) + (2^64-1)^2 + (2^64-1) = 2^128 - 1, so no overflow.
#[inline(always)]
fn mac(acc: u64, a: u64, b: u64, carry: u64) -> (u64, u64) {
    let t = (acc as u128) + (a as u128) * (b as u128) + (carry as u128);
    (t as u64, (t >> 64) as u64)
}

fn u_cmp(a: &U256, b: &U256) -> Ordering {
    for i in (0..4).rev() {
        match a[i].cmp(&b[i]) {
            Ordering::Equal => {}
            o => return o,
        }
    }
    Ordering::Equal
}

#[inline]
fn u_ge(a: &U256, b: &U256) -> bool {
    u_cmp(a, b) != Ordering::Less
}

#[inline]
fn u_is_zero(a: &U256) -> bool {
    (a[0] | a[1] | a[2] | a[3]) == 0
}

/// (a + b) mod 2^256 and the carry out.
fn u_add(a: &U256, b: &U256) -> (U256, bool) {
    let mut out = [0u64; 4];
    let mut carry = 0u64;
    for i in 0..4 {
        let (v, c) = adc(a[i], b[i], carry);
        out[i] = v;
        carry = c;
    }
    (out, carry != 0)
}

/// (a - b) mod 2^256 and the borrow out.
fn u_sub(a: &U256, b: &U256) -> (U256, bool) {
    let mut out = [0u64; 4];
    let mut borrow = 0u64;
    for i in 0..4 {
        let (v, bo) = sbb(a[i], b[i], borrow);
        out[i] = v;
        borrow = bo;
    }
    (out, borrow != 0)
}

/// Logical shift right by `k` bits, 0 < k < 64.
fn u_shr(a: &U256, k: u32) -> U256 {
    assert!(k > 0 && k < 64);
    let mut out = [0u64; 4];
    for i in 0..4 {
        let hi = if i + 1 < 4 { a[i + 1] << (64 - k) } else { 0 };
        out[i] = (a[i] >> k) | hi;
    }
    out
}

/// Full 256 x 256 -> 512 bit schoolbook product.
fn mul_wide(a: &U256, b: &U256) -> [u64; 8] {
    let mut out = [0u64; 8];
    for j in 0..4 {
        if b[j] == 0 {
            continue; // out[j + 4] is still 0 here, nothing to add
        }
        let mut carry = 0u64;
        for i in 0..4 {
            let (lo, hi) = mac(out[i + j], a[i], b[j], carry);
            out[i + j] = lo;
            carry = hi;
        }
        out[j + 4] = carry;
    }
    out
}

// ---------------------------------------------------------------------------
// Modular arithmetic (generic over the two moduli)
// ---------------------------------------------------------------------------

/// Reduce a 256-bit value (one conditional subtraction is enough, m > 2^255).
fn m_reduce(a: &U256, m: &Modulus) -> U256 {
    if u_ge(a, &m.m) {
        let (d, borrow) = u_sub(a, &m.m);
        debug_assert!(!borrow);
        d
    } else {
        *a
    }
}

/// Reduce a 512-bit value by folding hi * 2^256 + lo -> hi * c + lo.
/// Every fold strictly decreases the value while hi != 0, so this terminates.
fn m_reduce_wide(mut x: [u64; 8], m: &Modulus) -> U256 {
    loop {
        let hi: U256 = [x[4], x[5], x[6], x[7]];
        let lo: U256 = [x[0], x[1], x[2], x[3]];
        if u_is_zero(&hi) {
            return m_reduce(&lo, m);
        }
        // hi * c + lo <= (2^256-1)(2^256-1) + 2^256 - 1 < 2^512: fits.
        let mut t = mul_wide(&hi, &m.c);
        let mut carry = 0u64;
        for i in 0..8 {
            let add = if i < 4 { lo[i] } else { 0 };
            let (v, c) = adc(t[i], add, carry);
            t[i] = v;
            carry = c;
        }
        assert!(carry == 0, "fold overflow (impossible)");
        x = t;
    }
}

/// (a + b) mod m; requires a, b < m.
fn m_add(a: &U256, b: &U256, m: &Modulus) -> U256 {
    debug_assert!(!u_ge(a, &m.m) && !u_ge(b, &m.m));
    let (s, carry) = u_add(a, b);
    if carry || u_ge(&s, &m.m) {
        // true sum is in [m, 2m); subtracting m lands in [0, m) < 2^256, so
        // the low 256 bits of the wrapping subtraction are the exact answer.
        u_sub(&s, &m.m).0
    } else {
        s
    }
}

/// (a - b) mod m; requires a, b < m.
fn m_sub(a: &U256, b: &U256, m: &Modulus) -> U256 {
    debug_assert!(!u_ge(a, &m.m) && !u_ge(b, &m.m));
    let (d, borrow) = u_sub(a, b);
    if borrow {
        u_add(&d, &m.m).0
    } else {
        d
    }
}

/// (-a) mod m; requires a < m.
fn m_neg(a: &U256, m: &Modulus) -> U256 {
    m_sub(&ZERO, a, m)
}

/// (a * b) mod m; any 256-bit inputs, reduced output.
fn m_mul(a: &U256, b: &U256, m: &Modulus) -> U256 {
    m_reduce_wide(mul_wide(a, b), m)
}

fn m_sqr(a: &U256, m: &Modulus) -> U256 {
    m_mul(a, a, m)
}

/// base^exp mod m, fixed 4-bit window, most significant nibble first.
fn m_pow(base: &U256, exp: &U256, m: &Modulus) -> U256 {
    let b = m_reduce(base, m);
    let mut tbl = [ONE; 16];
    for i in 1..16 {
        tbl[i] = m_mul(&tbl[i - 1], &b, m);
    }
    let mut acc = ONE;
    for limb in (0..4).rev() {
        for nib in (0..16).rev() {
            for _ in 0..4 {
                acc = m_sqr(&acc, m);
            }
            let d = ((exp[limb] >> (4 * nib)) & 15) as usize;
            if d != 0 {
                acc = m_mul(&acc, &tbl[d], m);
            }
        }
    }
    acc
}

/// a^-1 mod m via Fermat (m prime); a must not be 0 mod m.
fn m_inv(a: &U256, m: &Modulus) -> U256 {
    let (e, borrow) = u_sub(&m.m, &[2, 0, 0, 0]);
    debug_assert!(!borrow);
    let r = m_pow(a, &e, m);
    debug_assert!(m_mul(&r, a, m) == ONE, "inverse of zero requested");
    r
}

// Field shorthands.
#[inline]
fn f_add(a: &U256, b: &U256) -> U256 {
    m_add(a, b, &FP)
}
#[inline]
fn f_sub(a: &U256, b: &U256) -> U256 {
    m_sub(a, b, &FP)
}
#[inline]
fn f_mul(a: &U256, b: &U256) -> U256 {
    m_mul(a, b, &FP)
}
#[inline]
fn f_sqr(a: &U256) -> U256 {
    m_sqr(a, &FP)
}
#[inline]
fn f_dbl(a: &U256) -> U256 {
    m_add(a, a, &FP)
}

/// Square root mod P (P = 3 mod 4): candidate a^((P+1)/4), verified by squaring.
fn f_sqrt(a: &U256) -> Option<U256> {
    let (p1, carry) = u_add(&FP.m, &ONE);
    debug_assert!(!carry);
    let e = u_shr(&p1, 2);
    let r = m_pow(a, &e, &FP);
    if f_sqr(&r) == m_reduce(a, &FP) {
        Some(r)
    } else {
        None
    }
}

/// x^3 + 7 mod P.
fn curve_rhs(x: &U256) -> U256 {
    f_add(&f_mul(&f_sqr(x), x), &SEVEN)
}

// ---------------------------------------------------------------------------
// Jacobian points (x = X/Z^2, y = Y/Z^3; Z == 0 is the point at infinity)
// ---------------------------------------------------------------------------

#[derive(Clone, Copy, Debug)]
struct Jac {
    x: U256,
    y: U256,
    z: U256,
}

const JAC_INF: Jac = Jac { x: ONE, y: ONE, z: ZERO };

impl Jac {
    fn from_affine(x: &U256, y: &U256) -> Jac {
        Jac { x: *x, y: *y, z: ONE }
    }
    fn is_inf(&self) -> bool {
        u_is_zero(&self.z)
    }
}

fn jac_to_affine(p: &Jac) -> Option<(U256, U256)> {
    if p.is_inf() {
        return None;
    }
    if p.z == ONE {
        return Some((p.x, p.y));
    }
    let zi = m_inv(&p.z, &FP);
    let zi2 = f_sqr(&zi);
    let zi3 = f_mul(&zi2, &zi);
    Some((f_mul(&p.x, &zi2), f_mul(&p.y, &zi3)))
}

/// Doubling for a = 0: S = 4XY^2, M = 3X^2, X' = M^2 - 2S,
/// Y' = M(S - X') - 8Y^4, Z' = 2YZ.
fn jac_double(p: &Jac) -> Jac {
    if p.is_inf() || u_is_zero(&p.y) {
        return JAC_INF;
    }
    let xx = f_sqr(&p.x);
    let yy = f_sqr(&p.y);
    let yyyy = f_sqr(&yy);
    let s = f_dbl(&f_dbl(&f_mul(&p.x, &yy)));
    let m = f_add(&f_dbl(&xx), &xx);
    let x3 = f_sub(&f_sqr(&m), &f_dbl(&s));
    let y3 = f_sub(&f_mul(&m, &f_sub(&s, &x3)), &f_dbl(&f_dbl(&f_dbl(&yyyy))));
    let z3 = f_dbl(&f_mul(&p.y, &p.z));
    Jac { x: x3, y: y3, z: z3 }
}

/// General addition; handles infinity, a == b (doubling) and a == -b.
/// U1 = X1 Z2^2, U2 = X2 Z1^2, S1 = Y1 Z2^3, S2 = Y2 Z1^3, H = U2 - U1,
/// R = S2 - S1, X3 = R^2 - H^3 - 2 U1 H^2, Y3 = R (U1 H^2 - X3) - S1 H^3,
/// Z3 = H Z1 Z2. Multiplications by Z2 are skipped when Z2 == 1.
fn jac_add(a: &Jac, b: &Jac) -> Jac {
    if a.is_inf() {
        return *b;
    }
    if b.is_inf() {
        return *a;
    }
    let b_affine = b.z == ONE;
    let z1z1 = f_sqr(&a.z);
    let (u1, s1) = if b_affine {
        (a.x, a.y)
    } else {
        let z2z2 = f_sqr(&b.z);
        (f_mul(&a.x, &z2z2), f_mul(&f_mul(&a.y, &b.z), &z2z2))
    };
    let u2 = f_mul(&b.x, &z1z1);
    let s2 = f_mul(&f_mul(&b.y, &a.z), &z1z1);
    let h = f_sub(&u2, &u1);
    let r = f_sub(&s2, &s1);
    if u_is_zero(&h) {
        return if u_is_zero(&r) { jac_double(a) } else { JAC_INF };
    }
    let hh = f_sqr(&h);
    let hhh = f_mul(&hh, &h);
    let v = f_mul(&u1, &hh);
    let x3 = f_sub(&f_sub(&f_sqr(&r), &hhh), &f_dbl(&v));
    let y3 = f_sub(&f_mul(&r, &f_sub(&v, &x3)), &f_mul(&s1, &hhh));
    let z1z2 = if b_affine { a.z } else { f_mul(&a.z, &b.z) };
    let z3 = f_mul(&z1z2, &h);
    Jac { x: x3, y: y3, z: z3 }
}

/// k * p for any 256-bit integer k (not reduced), 4-bit fixed window.
fn jac_mul(p: &Jac, k: &U256) -> Jac {
    let mut tbl = [JAC_INF; 16];
    tbl[1] = *p;
    for i in 2..16 {
        tbl[i] = jac_add(&tbl[i - 1], p);
    }
    let mut acc = JAC_INF;
    for limb in (0..4).rev() {
        for nib in (0..16).rev() {
            for _ in 0..4 {
                acc = jac_double(&acc);
            }
            let d = ((k[limb] >> (4 * nib)) & 15) as usize;
            if d != 0 {
                acc = jac_add(&acc, &tbl[d]);
            }
        }
    }
    acc
}

/// G_TABLE[i][j] = (j + 1) * 16^i * G in affine coordinates, i in 0..64.
fn g_table() -> &'static Vec<[(U256, U256); 15]> {
    static TABLE: OnceLock<Vec<[(U256, U256); 15]>> = OnceLock::new();
    TABLE.get_or_init(|| {
        let mut out = Vec::with_capacity(64);
        let mut base = Jac::from_affine(&from_be(&GX), &from_be(&GY));
        for _ in 0..64 {
            let mut row = [(ZERO, ZERO); 15];
            let mut acc = base;
            for j in 0..15 {
                row[j] = jac_to_affine(&acc).expect("multiples of G below N are finite");
                acc = jac_add(&acc, &base);
            }
            out.push(row);
            // acc is now 16 * base; normalise so the next row adds an affine base.
            let (bx, by) = jac_to_affine(&acc).expect("16^i * G is finite");
            base = Jac::from_affine(&bx, &by);
        }
        out
    })
}

/// k * G for k already reduced mod N.
fn jac_mul_g(k: &U256) -> Jac {
    debug_assert!(!u_ge(k, &FN.m));
    let tbl = g_table();
    let mut acc = JAC_INF;
    for i in 0..64 {
        let d = ((k[i / 16] >> (4 * (i % 16))) & 15) as usize;
        if d != 0 {
            let (x, y) = &tbl[i][d - 1];
            acc = jac_add(&acc, &Jac::from_affine(x, y));
        }
    }
    acc
}

// ---------------------------------------------------------------------------
// Public API
// ---------------------------------------------------------------------------

/// Affine point on the curve, never infinity.
#[derive(Clone, Copy, Debug, PartialEq, Eq)]
pub struct Point {
    pub x: B32,
    pub y: B32,
}

fn point_from_affine(xy: Option<(U256, U256)>) -> Option<Point> {
    xy.map(|(x, y)| Point { x: to_be(&x), y: to_be(&y) })
}

fn point_to_jac(p: &Point) -> Jac {
    Jac::from_affine(&from_be(&p.x), &from_be(&p.y))
}

/// Integer comparison of big-endian values.
pub fn cmp(a: &B32, b: &B32) -> Ordering {
    for i in 0..32 {
        match a[i].cmp(&b[i]) {
            Ordering::Equal => {}
            o => return o,
        }
    }
    Ordering::Equal
}

pub fn is_zero(a: &B32) -> bool {
    a.iter().all(|&b| b == 0)
}

/// 1 <= k < N.
pub fn is_valid_secret(k: &B32) -> bool {
    !is_zero(k) && cmp(k, &N) == Ordering::Less
}

/// y^2 == x^3 + 7 (mod P) with x, y < P.
pub fn on_curve(p: &Point) -> bool {
    let x = from_be(&p.x);
    let y = from_be(&p.y);
    if u_ge(&x, &FP.m) || u_ge(&y, &FP.m) {
        return false;
    }
    f_sqr(&y) == curve_rhs(&x)
}

pub fn generator() -> Point {
    Point { x: GX, y: GY }
}

/// k*G for the integer k taken mod N; None iff k = 0 (mod N).
pub fn mul_g(k: &B32) -> Option<Point> {
    let kr = m_reduce(&from_be(k), &FN);
    point_from_affine(jac_to_affine(&jac_mul_g(&kr)))
}

/// k*P for the 256-bit integer k; None iff the result is infinity.
/// Panics if `p` is not on the curve.
pub fn mul(p: &Point, k: &B32) -> Option<Point> {
    assert!(on_curve(p), "secp::mul: point not on curve");
    point_from_affine(jac_to_affine(&jac_mul(&point_to_jac(p), &from_be(k))))
}

/// a + b using the textbook affine chord/tangent formulas (deliberately
/// independent of the Jacobian code used by `mul`/`mul_g`).
/// None iff the sum is infinity. Panics if an input is not on the curve.
pub fn add(a: &Point, b: &Point) -> Option<Point> {
    assert!(on_curve(a), "secp::add: first point not on curve");
    assert!(on_curve(b), "secp::add: second point not on curve");
    let (x1, y1) = (from_be(&a.x), from_be(&a.y));
    let (x2, y2) = (from_be(&b.x), from_be(&b.y));
    let lambda = if x1 == x2 {
        if y1 != y2 || u_is_zero(&y1) {
            // b == -a (on-curve points sharing x have y2 = +-y1).
            return None;
        }
        // tangent: 3 x^2 / (2 y)
        let xx = f_sqr(&x1);
        let num = f_add(&f_dbl(&xx), &xx);
        f_mul(&num, &m_inv(&f_dbl(&y1), &FP))
    } else {
        // chord: (y2 - y1) / (x2 - x1)
        f_mul(&f_sub(&y2, &y1), &m_inv(&f_sub(&x2, &x1), &FP))
    };
    let x3 = f_sub(&f_sub(&f_sqr(&lambda), &x1), &x2);
    let y3 = f_sub(&f_mul(&lambda, &f_sub(&x1, &x3)), &y1);
    Some(Point { x: to_be(&x3), y: to_be(&y3) })
}

/// (x, P - y). Panics if `a` is not on the curve.
pub fn neg(a: &Point) -> Point {
    assert!(on_curve(a), "secp::neg: point not on curve");
    Point { x: a.x, y: to_be(&m_neg(&from_be(&a.y), &FP)) }
}

/// Point with the given x (x < P) and y parity; None if x >= P or x^3 + 7 is
/// not a square.
pub fn lift_x(x: &B32, y_odd: bool) -> Option<Point> {
    let xv = from_be(x);
    if u_ge(&xv, &FP.m) {
        return None;
    }
    let mut y = f_sqrt(&curve_rhs(&xv))?;
    if ((y[0] & 1) == 1) != y_odd {
        y = m_neg(&y, &FP);
    }
    if ((y[0] & 1) == 1) != y_odd {
        return None; // only possible for y == 0, which never happens on this curve
    }
    Some(Point { x: *x, y: to_be(&y) })
}

/// SEC1 compressed encoding: 02/03 || X.
pub fn compressed(p: &Point) -> [u8; 33] {
    let mut out = [0u8; 33];
    out[0] = 0x02 | (p.y[31] & 1);
    out[1..].copy_from_slice(&p.x);
    out
}

/// SEC1 uncompressed encoding: 04 || X || Y.
pub fn uncompressed(p: &Point) -> [u8; 65] {
    let mut out = [0u8; 65];
    out[0] = 0x04;
    out[1..33].copy_from_slice(&p.x);
    out[33..].copy_from_slice(&p.y);
    out
}

/// a mod N.
pub fn scalar_reduce(a: &B32) -> B32 {
    to_be(&m_reduce(&from_be(a), &FN))
}

/// (a + b) mod N for any 256-bit inputs.
pub fn scalar_add(a: &B32, b: &B32) -> B32 {
    let ar = m_reduce(&from_be(a), &FN);
    let br = m_reduce(&from_be(b), &FN);
    to_be(&m_add(&ar, &br, &FN))
}

/// (a * b) mod N for any 256-bit inputs.
pub fn scalar_mul(a: &B32, b: &B32) -> B32 {
    to_be(&m_mul(&from_be(a), &from_be(b), &FN))
}

/// (-a) mod N for any 256-bit input.
pub fn scalar_neg(a: &B32) -> B32 {
    to_be(&m_neg(&m_reduce(&from_be(a), &FN), &FN))
}

/// a^-1 mod N; None iff a = 0 (mod N).
pub fn scalar_inv(a: &B32) -> Option<B32> {
    let ar = m_reduce(&from_be(a), &FN);
    if u_is_zero(&ar) {
        return None;
    }
    Some(to_be(&m_inv(&ar, &FN)))
}

/// Raw ECDSA with a caller-supplied nonce k (1 <= k < N), private key d
/// (1 <= d < N) and message scalar z (any 256-bit value, reduced mod N).
///
/// Returns (r, s, y_is_odd, x_overflowed) where R = k*G, r = R.x mod N,
/// s = k^-1 (z + r d) mod N, y_is_odd = parity of R.y and
/// x_overflowed = (R.x >= N). No low-s normalisation.
/// None if k or d is out of range, or if r == 0 or s == 0.
pub fn ecdsa_sign_with_nonce(z: &B32, d: &B32, k: &B32) -> Option<(B32, B32, bool, bool)> {
    if !is_valid_secret(d) || !is_valid_secret(k) {
        return None;
    }
    let zr = m_reduce(&from_be(z), &FN);
    let dv = from_be(d);
    let kv = from_be(k);
    let (rx, ry) = jac_to_affine(&jac_mul_g(&kv))?;
    let x_overflowed = u_ge(&rx, &FN.m);
    let y_is_odd = (ry[0] & 1) == 1;
    let r = m_reduce(&rx, &FN);
    if u_is_zero(&r) {
        return None;
    }
    let kinv = m_inv(&kv, &FN);
    let s = m_mul(&kinv, &m_add(&zr, &m_mul(&r, &dv, &FN), &FN), &FN);
    if u_is_zero(&s) {
        return None;
    }
    Some((to_be(&r), to_be(&s), y_is_odd, x_overflowed))
}

/// Standard ECDSA verification: requires 1 <= r, s < N; z is reduced mod N.
/// High-s signatures are accepted (no malleability rule). Returns false for
/// an off-curve public key.
pub fn ecdsa_verify(z: &B32, r: &B32, s: &B32, public: &Point) -> bool {
    if !is_valid_secret(r) || !is_valid_secret(s) || !on_curve(public) {
        return false;
    }
    let zr = m_reduce(&from_be(z), &FN);
    let rv = from_be(r);
    let sv = from_be(s);
    let w = m_inv(&sv, &FN);
    let u1 = m_mul(&zr, &w, &FN);
    let u2 = m_mul(&rv, &w, &FN);
    let sum = jac_add(&jac_mul_g(&u1), &jac_mul(&point_to_jac(public), &u2));
    match jac_to_affine(&sum) {
        None => false,
        Some((x, _)) => m_reduce(&x, &FN) == rv,
    }
}

/// Public key recovery for a recovery id whose x did not overflow:
/// R = lift_x(r, y_odd); Q = r^-1 (s R - z G).
/// None if r or s is outside [1, N-1], if the lift fails, or if the result is
/// infinity.
pub fn ecdsa_recover(z: &B32, r: &B32, s: &B32, y_odd: bool) -> Option<Point> {
    if !is_valid_secret(r) || !is_valid_secret(s) {
        return None;
    }
    let big_r = lift_x(r, y_odd)?;
    let zr = m_reduce(&from_be(z), &FN);
    let rv = from_be(r);
    let sv = from_be(s);
    let rinv = m_inv(&rv, &FN);
    let u1 = m_neg(&m_mul(&zr, &rinv, &FN), &FN);
    let u2 = m_mul(&sv, &rinv, &FN);
    let sum = jac_add(&jac_mul_g(&u1), &jac_mul(&point_to_jac(&big_r), &u2));
    point_from_affine(jac_to_affine(&sum))
}

// ---------------------------------------------------------------------------
// Internal self-checks (no external crates)
// ---------------------------------------------------------------------------

#[cfg(test)]
mod tests {
    use super::*;

    #[test]
    fn constants() {
        // P = 2^256 - 2^32 - 977
        assert_eq!(FP.c, [(1u64 << 32) + 977, 0, 0, 0]);
        // 2^256 - N, about 129 bits
        assert_eq!(FN.c, [0x402DA1732FC9BEBF, 0x4551231950B75FC4, 1, 0]);
        // HALF_N * 2 + 1 == N
        let h = from_be(&HALF_N);
        let (d, c1) = u_add(&h, &h);
        let (n, c2) = u_add(&d, &ONE);
        assert!(!c1 && !c2);
        assert_eq!(n, FN.m);
        assert!(on_curve(&generator()));
        assert_eq!(to_be(&from_be(&GX)), GX);
    }

    #[test]
    fn order_of_g() {
        // (N-1)*G == -G, hence N*G == infinity.
        let (nm1, _) = u_sub(&FN.m, &ONE);
        let p = mul_g(&to_be(&nm1)).unwrap();
        assert_eq!(p, neg(&generator()));
        assert_eq!(add(&p, &generator()), None);
        assert_eq!(mul(&generator(), &N), None);
        assert_eq!(mul_g(&N), None);
    }

    #[test]
    fn jacobian_special_cases() {
        // Same point in three different Jacobian representations.
        let k = to_be(&[0x1234_5678_9ABC_DEF0, 0x0FED_CBA9_8765_4321, 0xDEAD_BEEF_0BAD_F00D, 0x1357_9BDF_0246_8ACE]);
        let g = point_to_jac(&generator());
        let a = jac_mul(&g, &from_be(&k)); // Z != 1
        let b = jac_mul_g(&from_be(&k)); // different Z != 1
        let c = mul_g(&k).unwrap(); // affine
        assert!(a.z != ONE && b.z != ONE && a.z != b.z);
        assert_eq!(point_from_affine(jac_to_affine(&a)), Some(c));
        assert_eq!(point_from_affine(jac_to_affine(&b)), Some(c));
        let dbl = add(&c, &c);
        let cj = point_to_jac(&c);
        for (p, q) in [(&a, &b), (&b, &a), (&a, &cj), (&cj, &a), (&a, &a), (&cj, &cj)] {
            assert_eq!(point_from_affine(jac_to_affine(&jac_add(p, q))), dbl);
        }
        assert_eq!(point_from_affine(jac_to_affine(&jac_double(&a))), dbl);
        // opposite points -> infinity, regardless of representation
        let nb = Jac { x: b.x, y: m_neg(&b.y, &FP), z: b.z };
        let ncj = point_to_jac(&neg(&c));
        for (p, q) in [(&a, &nb), (&nb, &a), (&a, &ncj), (&ncj, &a), (&cj, &ncj)] {
            assert!(jac_add(p, q).is_inf());
        }
        // infinity is the identity
        assert_eq!(point_from_affine(jac_to_affine(&jac_add(&JAC_INF, &a))), Some(c));
        assert_eq!(point_from_affine(jac_to_affine(&jac_add(&a, &JAC_INF))), Some(c));
        assert!(jac_add(&JAC_INF, &JAC_INF).is_inf());
        assert!(jac_double(&JAC_INF).is_inf());
        assert!(jac_mul(&JAC_INF, &from_be(&k)).is_inf());
        assert!(jac_mul(&a, &ZERO).is_inf());
    }

    #[test]
    fn fold_extremes() {
        let max = [u64::MAX; 4];
        for m in [&FP, &FN] {
            // (2^256-1)^2 mod m == c'^2 mod m where 2^256-1 = c - 1 (mod m)
            let (cm1, _) = u_sub(&m.c, &ONE);
            assert_eq!(m_mul(&max, &max, m), m_mul(&cm1, &cm1, m));
            assert_eq!(m_reduce_wide([u64::MAX; 8], m), {
                // 2^512 - 1 = c^2 - 1 (mod m)
                let cc = m_mul(&m.c, &m.c, m);
                m_sub(&cc, &ONE, m)
            });
            let (mm1, _) = u_sub(&m.m, &ONE);
            assert_eq!(m_mul(&mm1, &mm1, m), ONE);
            assert_eq!(m_add(&mm1, &mm1, m), m_sub(&mm1, &ONE, m));
            assert_eq!(m_inv(&mm1, m), mm1);
        }
    }
}
