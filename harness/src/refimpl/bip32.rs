//! BIP-32 private derivation exactly as the BIP states it.

use super::hmac_sha512;
use super::secp::{self, B32};

#[derive(Clone, Copy, Debug, PartialEq, Eq, Hash, serde::Serialize, serde::Deserialize)]
pub struct Step {
    pub index: u32, // < 2^31
    pub hardened: bool,
}

#[derive(Debug, PartialEq, Eq)]
pub enum Bip32Error {
    /// I_L >= n or I_L == 0 for the master key, or I_L >= n / child == 0 at a step
    Invalid(usize),
}

pub fn master(seed: &[u8]) -> Result<(B32, [u8; 32]), Bip32Error> {
    let i = hmac_sha512(b"Bitcoin seed", &[seed]);
    let mut il = [0u8; 32];
    let mut ir = [0u8; 32];
    il.copy_from_slice(&i[..32]);
    ir.copy_from_slice(&i[32..]);
    if !secp::is_valid_secret(&il) {
        return Err(Bip32Error::Invalid(0));
    }
    Ok((il, ir))
}

pub fn ckd_priv(k_par: &B32, c_par: &[u8; 32], step: Step, pos: usize) -> Result<(B32, [u8; 32]), Bip32Error> {
    assert!(step.index < 0x8000_0000);
    let i = if step.hardened { step.index + 0x8000_0000 } else { step.index };
    let ser32 = i.to_be_bytes();
    let out = if step.hardened {
        hmac_sha512(c_par, &[&[0u8], k_par, &ser32])
    } else {
        let p = secp::mul_g(k_par).expect("parent key is valid");
        hmac_sha512(c_par, &[&secp::compressed(&p), &ser32])
    };
    let mut il = [0u8; 32];
    let mut ir = [0u8; 32];
    il.copy_from_slice(&out[..32]);
    ir.copy_from_slice(&out[32..]);
    if secp::cmp(&il, &secp::N) != std::cmp::Ordering::Less {
        return Err(Bip32Error::Invalid(pos));
    }
    let child = secp::scalar_add(&il, k_par);
    if secp::is_zero(&child) {
        return Err(Bip32Error::Invalid(pos));
    }
    Ok((child, ir))
}

pub fn derive(seed: &[u8], path: &[Step]) -> Result<B32, Bip32Error> {
    let (mut k, mut c) = master(seed)?;
    for (pos, step) in path.iter().enumerate() {
        let (k2, c2) = ckd_priv(&k, &c, *step, pos + 1)?;
        k = k2;
        c = c2;
    }
    Ok(k)
}

pub fn render(path: &[Step]) -> String {
    let mut s = String::from("m");
    for st in path {
        s.push('/');
        s.push_str(&super::dec(st.index as u128));
        if st.hardened {
            s.push('\'');
        }
    }
    s
}

pub fn default_path(account_index: u32) -> Vec<Step> {
    vec![
        Step { index: 44, hardened: true },
        Step { index: 60, hardened: true },
        Step { index: 0, hardened: true },
        Step { index: 0, hardened: false },
        Step { index: account_index, hardened: false },
    ]
}
