//! Minimal arbitrary-precision unsigned integer (little-endian u32 limbs) for
//! the oracles: exact decimal/hex conversion, comparison with 2^256, two's
//! complement words. Written for clarity, not speed.

use std::cmp::Ordering;

#[derive(Clone, Debug, PartialEq, Eq, Hash, Default)]
pub struct Big(pub Vec<u32>);

impl Big {
    fn norm(mut self) -> Big {
        while self.0.last() == Some(&0) {
            self.0.pop();
        }
        self
    }
    pub fn zero() -> Big {
        Big(vec![])
    }
    pub fn from_u128(mut v: u128) -> Big {
        let mut l = vec![];
        while v > 0 {
            l.push(v as u32);
            v >>= 32;
        }
        Big(l)
    }
    pub fn is_zero(&self) -> bool {
        self.0.is_empty()
    }
    pub fn pow2(k: u32) -> Big {
        let mut l = vec![0u32; (k / 32) as usize + 1];
        l[(k / 32) as usize] = 1 << (k % 32);
        Big(l)
    }
    pub fn bit_len(&self) -> u32 {
        match self.0.last() {
            None => 0,
            Some(t) => (self.0.len() as u32 - 1) * 32 + (32 - t.leading_zeros()),
        }
    }
    pub fn mul_small(&self, m: u32) -> Big {
        let mut out = Vec::with_capacity(self.0.len() + 1);
        let mut carry: u64 = 0;
        for l in &self.0 {
            let v = *l as u64 * m as u64 + carry;
            out.push(v as u32);
            carry = v >> 32;
        }
        if carry > 0 {
            out.push(carry as u32);
        }
        Big(out).norm()
    }
    pub fn add_small(&self, a: u32) -> Big {
        self.add(&Big::from_u128(a as u128))
    }
    pub fn add(&self, o: &Big) -> Big {
        let n = self.0.len().max(o.0.len());
        let mut out = Vec::with_capacity(n + 1);
        let mut carry = 0u64;
        for i in 0..n {
            let v = *self.0.get(i).unwrap_or(&0) as u64 + *o.0.get(i).unwrap_or(&0) as u64 + carry;
            out.push(v as u32);
            carry = v >> 32;
        }
        if carry > 0 {
            out.push(carry as u32);
        }
        Big(out).norm()
    }
    /// self - o, None if negative
    pub fn sub(&self, o: &Big) -> Option<Big> {
        if self.cmp(o) == Ordering::Less {
            return None;
        }
        let mut out = Vec::with_capacity(self.0.len());
        let mut borrow = 0i64;
        for i in 0..self.0.len() {
            let mut v = self.0[i] as i64 - *o.0.get(i).unwrap_or(&0) as i64 - borrow;
            if v < 0 {
                v += 1 << 32;
                borrow = 1;
            } else {
                borrow = 0;
            }
            out.push(v as u32);
        }
        Some(Big(out).norm())
    }
    /// (quotient, remainder) by a small divisor
    pub fn divrem_small(&self, d: u32) -> (Big, u32) {
        let mut out = vec![0u32; self.0.len()];
        let mut rem: u64 = 0;
        for i in (0..self.0.len()).rev() {
            let cur = (rem << 32) | self.0[i] as u64;
            out[i] = (cur / d as u64) as u32;
            rem = cur % d as u64;
        }
        (Big(out).norm(), rem as u32)
    }
    pub fn from_dec(s: &str) -> Option<Big> {
        if s.is_empty() || !s.bytes().all(|b| b.is_ascii_digit()) {
            return None;
        }
        let mut v = Big::zero();
        for b in s.bytes() {
            v = v.mul_small(10).add_small((b - b'0') as u32);
        }
        Some(v)
    }
    pub fn to_dec(&self) -> String {
        if self.is_zero() {
            return "0".into();
        }
        let mut digits = vec![];
        let mut cur = self.clone();
        while !cur.is_zero() {
            let (q, r) = cur.divrem_small(1_000_000_000);
            let mut r = r;
            for _ in 0..9 {
                digits.push(b'0' + (r % 10) as u8);
                r /= 10;
            }
            cur = q;
        }
        while digits.last() == Some(&b'0') {
            digits.pop();
        }
        digits.reverse();
        String::from_utf8(digits).unwrap()
    }
    pub fn from_be_bytes(b: &[u8]) -> Big {
        let mut l = vec![];
        for chunk in b.rchunks(4) {
            let mut v = 0u32;
            for x in chunk {
                v = (v << 8) | *x as u32;
            }
            l.push(v);
        }
        Big(l).norm()
    }
    pub fn from_hex(s: &str) -> Option<Big> {
        if s.is_empty() || !s.bytes().all(|b| b.is_ascii_hexdigit()) {
            return None;
        }
        let padded = if s.len() % 2 == 1 { format!("0{s}") } else { s.to_string() };
        Some(Big::from_be_bytes(&super::unhex(&padded)?))
    }
    /// minimal big-endian bytes (empty for zero)
    pub fn to_be_min(&self) -> Vec<u8> {
        let mut out = vec![];
        for l in self.0.iter().rev() {
            out.extend_from_slice(&l.to_be_bytes());
        }
        let z = out.iter().take_while(|b| **b == 0).count();
        out.drain(..z);
        out
    }
    pub fn to_be32(&self) -> Option<[u8; 32]> {
        let m = self.to_be_min();
        if m.len() > 32 {
            return None;
        }
        let mut o = [0u8; 32];
        o[32 - m.len()..].copy_from_slice(&m);
        Some(o)
    }
    /// minimal lower-case hex digits ("0" for zero)
    pub fn to_hex(&self) -> String {
        let h = super::hex_lower(&self.to_be_min());
        let t = h.trim_start_matches('0');
        if t.is_empty() {
            "0".into()
        } else {
            t.to_string()
        }
    }
    pub fn fits_256(&self) -> bool {
        self.bit_len() <= 256
    }
    pub fn to_u128(&self) -> Option<u128> {
        if self.bit_len() > 128 {
            return None;
        }
        let mut v = 0u128;
        for l in self.0.iter().rev() {
            v = (v << 32) | *l as u128;
        }
        Some(v)
    }
    /// two's complement 256-bit word of -self (self <= 2^255) or +self
    pub fn twos_word(&self, negative: bool) -> Option<[u8; 32]> {
        if !negative || self.is_zero() {
            return self.to_be32();
        }
        Big::pow2(256).sub(self)?.to_be32()
    }
}

impl PartialOrd for Big {
    fn partial_cmp(&self, o: &Big) -> Option<Ordering> {
        Some(self.cmp(o))
    }
}
impl Ord for Big {
    fn cmp(&self, o: &Big) -> Ordering {
        if self.0.len() != o.0.len() {
            return self.0.len().cmp(&o.0.len());
        }
        for i in (0..self.0.len()).rev() {
            if self.0[i] != o.0[i] {
                return self.0[i].cmp(&o.0[i]);
            }
        }
        Ordering::Equal
    }
}

impl serde::Serialize for Big {
    fn serialize<S: serde::Serializer>(&self, s: S) -> Result<S::Ok, S::Error> {
        s.serialize_str(&format!("0x{}", self.to_hex()))
    }
}
impl<'de> serde::Deserialize<'de> for Big {
    fn deserialize<D: serde::Deserializer<'de>>(d: D) -> Result<Big, D::Error> {
        let s = String::deserialize(d)?;
        let h = s.strip_prefix("0x").ok_or_else(|| serde::de::Error::custom("Big: missing 0x"))?;
        Big::from_hex(h).ok_or_else(|| serde::de::Error::custom("Big: bad hex"))
    }
}
