//! Hand-written NFKD reference data (test oracle).
//!
//! This table was written by hand from the Unicode Character Database
//! (UnicodeData.txt decomposition mappings, field 5, and canonical combining
//! classes, field 3). It deliberately does NOT depend on any crate, so it can
//! serve as an oracle independent of `unicode-normalization`.
//!
//! All non-ASCII scalars are written as `\u{...}` escapes so the file is
//! reviewable and immune to editor / VCS normalisation.
//!
//! Canonical combining classes (ccc) used below:
//!   1   overlays            U+0334..U+0338
//!   7   nukta               U+093C, U+09BC, U+0A3C, U+0B3C
//!   8   kana voicing        U+3099, U+309A
//!   9   virama              U+094D
//!   10..25 Hebrew points    U+05B0 (10) .. U+05B7 (17), U+05B8 (18), U+05B9 (19),
//!                           U+05BC (21), U+05BF (23), U+05C1 (24), U+05C2 (25)
//!   27..34 Arabic harakat   U+064B (27), U+064C (28), U+064D (29), U+064E (30),
//!                           U+064F (31), U+0650 (32), U+0651 (33), U+0652 (34)
//!   103 / 107 Thai          U+0E38 (103), U+0E48 (107)
//!   129 / 130 / 132 Tibetan U+0F71 (129), U+0F72 (130), U+0F74 (132), U+0F80 (130)
//!   202 attached below      U+0327 cedilla, U+0328 ogonek
//!   216 attached above right U+031B horn
//!   220 below               U+0323 dot below, U+0325 ring below, U+0326 comma below,
//!                           U+0331 macron below, U+0333
//!   230 above               U+0300..U+0314 (most), U+0342, U+0653..U+0655 (230/230/220*)
//!   232 above right         U+0315
//!   234 double above        U+0361
//!   240 iota subscript      U+0345
//!   (* U+0655 ARABIC HAMZA BELOW has ccc 220.)

/// (label, composed_or_compat_form, fully_decomposed_nfkd_form).
///
/// For every entry, NFKD(first) == second exactly, second is already in NFKD
/// form (NFKD(second) == second), and first != second.
pub const PAIRS: &[(&str, &str, &str)] = &[
    // ------------------------------------------------------------------
    // latin: Latin-1 / Latin Extended precomposed letters, one mark
    // ------------------------------------------------------------------
    ("latin/A-grave", "\u{00C0}", "A\u{0300}"),
    ("latin/A-ring", "\u{00C5}", "A\u{030A}"),
    ("latin/O-diaeresis", "\u{00D6}", "O\u{0308}"),
    ("latin/e-acute", "\u{00E9}", "e\u{0301}"),
    ("latin/u-diaeresis", "\u{00FC}", "u\u{0308}"),
    ("latin/n-tilde", "\u{00F1}", "n\u{0303}"),
    ("latin/c-cedilla", "\u{00E7}", "c\u{0327}"),
    ("latin/y-diaeresis", "\u{00FF}", "y\u{0308}"),
    ("latin/a-macron", "\u{0101}", "a\u{0304}"),
    ("latin/a-breve", "\u{0103}", "a\u{0306}"),
    ("latin/a-ogonek", "\u{0105}", "a\u{0328}"),
    ("latin/c-caron", "\u{010D}", "c\u{030C}"),
    ("latin/e-dot-above", "\u{0117}", "e\u{0307}"),
    ("latin/g-breve", "\u{011F}", "g\u{0306}"),
    ("latin/I-dot-above", "\u{0130}", "I\u{0307}"),
    ("latin/k-cedilla", "\u{0137}", "k\u{0327}"),
    ("latin/n-caron", "\u{0148}", "n\u{030C}"),
    ("latin/o-double-acute", "\u{0151}", "o\u{030B}"),
    ("latin/r-caron", "\u{0159}", "r\u{030C}"),
    ("latin/s-cedilla", "\u{015F}", "s\u{0327}"),
    ("latin/t-caron", "\u{0165}", "t\u{030C}"),
    ("latin/u-ring", "\u{016F}", "u\u{030A}"),
    ("latin/z-caron", "\u{017E}", "z\u{030C}"),
    ("latin/o-horn", "\u{01A1}", "o\u{031B}"),
    ("latin/u-horn", "\u{01B0}", "u\u{031B}"),
    ("latin/j-caron", "\u{01F0}", "j\u{030C}"),
    ("latin/s-comma-below", "\u{0219}", "s\u{0326}"),
    ("latin/t-comma-below", "\u{021B}", "t\u{0326}"),
    // ------------------------------------------------------------------
    // latin2: precomposed letters with two marks (recursive decomposition)
    // ------------------------------------------------------------------
    ("latin2/u-diaeresis-macron", "\u{01D6}", "u\u{0308}\u{0304}"),
    ("latin2/u-diaeresis-acute", "\u{01D8}", "u\u{0308}\u{0301}"),
    ("latin2/u-diaeresis-caron", "\u{01DA}", "u\u{0308}\u{030C}"),
    ("latin2/u-diaeresis-grave", "\u{01DC}", "u\u{0308}\u{0300}"),
    ("latin2/o-ogonek-macron", "\u{01ED}", "o\u{0328}\u{0304}"),
    ("latin2/a-ring-acute", "\u{01FB}", "a\u{030A}\u{0301}"),
    ("latin2/o-tilde-macron", "\u{022D}", "o\u{0303}\u{0304}"),
    ("latin2/o-dot-above-macron", "\u{0231}", "o\u{0307}\u{0304}"),
    ("latin2/c-cedilla-acute", "\u{1E09}", "c\u{0327}\u{0301}"),
    ("latin2/e-macron-acute", "\u{1E17}", "e\u{0304}\u{0301}"),
    ("latin2/e-cedilla-breve", "\u{1E1D}", "e\u{0327}\u{0306}"),
    ("latin2/I-diaeresis-acute", "\u{1E2E}", "I\u{0308}\u{0301}"),
    ("latin2/l-dot-below-macron", "\u{1E39}", "l\u{0323}\u{0304}"),
    ("latin2/o-tilde-diaeresis", "\u{1E4F}", "o\u{0303}\u{0308}"),
    ("latin2/r-dot-below-macron", "\u{1E5D}", "r\u{0323}\u{0304}"),
    ("latin2/s-acute-dot-above", "\u{1E65}", "s\u{0301}\u{0307}"),
    ("latin2/s-caron-dot-above", "\u{1E67}", "s\u{030C}\u{0307}"),
    ("latin2/s-dot-below-dot-above", "\u{1E69}", "s\u{0323}\u{0307}"),
    ("latin2/a-circumflex-acute", "\u{1EA5}", "a\u{0302}\u{0301}"),
    ("latin2/a-dot-below-circumflex", "\u{1EAD}", "a\u{0323}\u{0302}"),
    ("latin2/a-breve-hook", "\u{1EB3}", "a\u{0306}\u{0309}"),
    ("latin2/e-dot-below-circumflex", "\u{1EC7}", "e\u{0323}\u{0302}"),
    ("latin2/o-horn-acute", "\u{1EDB}", "o\u{031B}\u{0301}"),
    ("latin2/u-horn-dot-below", "\u{1EF1}", "u\u{031B}\u{0323}"),
    // U+1E9B = <017F, 0307> canonically; U+017F = <compat> 0073.
    ("latin2/long-s-dot-above", "\u{1E9B}", "s\u{0307}"),
    // ------------------------------------------------------------------
    // reorder: canonical reordering of combining marks
    //
    // NOT listed (same class, order must be preserved, already NFKD):
    //   "a\u{0301}\u{0308}"  (230, 230)  stays as is
    //   "a\u{0308}\u{0301}"  (230, 230)  stays as is
    //   "a\u{0323}\u{0331}"  (220, 220)  stays as is
    //   "c\u{0327}\u{0328}"  (202, 202)  stays as is
    //   "\u{304B}\u{3099}\u{309A}" (8, 8) stays as is
    // Also NOT listed: "a\u{0301}\u{034F}\u{0323}" -- U+034F CGJ has ccc 0
    // and blocks reordering, so that string is already in NFKD form.
    // (Some of these appear in NON_EQUIVALENT against their swapped form.)
    // ------------------------------------------------------------------
    ("reorder/acute-dotbelow", "a\u{0301}\u{0323}", "a\u{0323}\u{0301}"),
    ("reorder/acute-cedilla", "c\u{0301}\u{0327}", "c\u{0327}\u{0301}"),
    ("reorder/acute-horn", "o\u{0301}\u{031B}", "o\u{031B}\u{0301}"),
    ("reorder/dotbelow-horn", "o\u{0323}\u{031B}", "o\u{031B}\u{0323}"),
    ("reorder/dotbelow-ogonek", "a\u{0323}\u{0328}", "a\u{0328}\u{0323}"),
    ("reorder/diaeresis-ogonek", "a\u{0308}\u{0328}", "a\u{0328}\u{0308}"),
    ("reorder/three-marks", "u\u{0323}\u{0308}\u{031B}", "u\u{031B}\u{0323}\u{0308}"),
    ("reorder/three-marks-stable", "a\u{0301}\u{0308}\u{0323}", "a\u{0323}\u{0301}\u{0308}"),
    ("reorder/precomposed-then-below", "\u{00E9}\u{0323}", "e\u{0323}\u{0301}"),
    ("reorder/circumflex-then-below", "\u{00E2}\u{0323}", "a\u{0323}\u{0302}"),
    ("reorder/macron-then-ogonek", "\u{014D}\u{0328}", "o\u{0328}\u{0304}"),
    ("reorder/dotbelow-letter-then-circumflex", "\u{1EA1}\u{0302}", "a\u{0323}\u{0302}"),
    ("reorder/acute-overlay", "a\u{0301}\u{0334}", "a\u{0334}\u{0301}"),
    ("reorder/comma-above-right", "a\u{0315}\u{0301}", "a\u{0301}\u{0315}"),
    ("reorder/double-above", "a\u{0361}\u{0301}", "a\u{0301}\u{0361}"),
    ("reorder/ypogegrammeni-acute", "\u{03B1}\u{0345}\u{0301}", "\u{03B1}\u{0301}\u{0345}"),
    ("reorder/ypogegrammeni-psili", "\u{03B1}\u{0345}\u{0313}", "\u{03B1}\u{0313}\u{0345}"),
    ("reorder/polytonic-plus-acute", "\u{1F80}\u{0301}", "\u{03B1}\u{0313}\u{0301}\u{0345}"),
    ("reorder/hebrew-shindot-dagesh", "\u{05E9}\u{05C1}\u{05BC}", "\u{05E9}\u{05BC}\u{05C1}"),
    ("reorder/hebrew-dagesh-patah", "\u{05D1}\u{05BC}\u{05B7}", "\u{05D1}\u{05B7}\u{05BC}"),
    ("reorder/hebrew-presentation-patah", "\u{FB31}\u{05B7}", "\u{05D1}\u{05B7}\u{05BC}"),
    ("reorder/arabic-shadda-fatha", "\u{0628}\u{0651}\u{064E}", "\u{0628}\u{064E}\u{0651}"),
    ("reorder/devanagari-virama-nukta", "\u{0915}\u{094D}\u{093C}", "\u{0915}\u{093C}\u{094D}"),
    ("reorder/thai-tone-vowel", "\u{0E01}\u{0E48}\u{0E38}", "\u{0E01}\u{0E38}\u{0E48}"),
    ("reorder/tibetan-vowels", "\u{0F40}\u{0F72}\u{0F71}", "\u{0F40}\u{0F71}\u{0F72}"),
    ("reorder/long-s-dot-above-dot-below", "\u{1E9B}\u{0323}", "s\u{0323}\u{0307}"),
    // ------------------------------------------------------------------
    // singleton: canonical singletons and combining-mark singletons
    // ------------------------------------------------------------------
    ("singleton/ohm", "\u{2126}", "\u{03A9}"),
    ("singleton/kelvin", "\u{212A}", "K"),
    ("singleton/angstrom", "\u{212B}", "A\u{030A}"),
    ("singleton/grave-tone-mark", "a\u{0340}", "a\u{0300}"),
    ("singleton/acute-tone-mark", "a\u{0341}", "a\u{0301}"),
    ("singleton/koronis", "\u{03B1}\u{0343}", "\u{03B1}\u{0313}"),
    ("singleton/dialytika-tonos-mark", "\u{03B9}\u{0344}", "\u{03B9}\u{0308}\u{0301}"),
    ("singleton/greek-numeral-sign", "\u{0374}", "\u{02B9}"),
    ("singleton/greek-question-mark", "\u{037E}", ";"),
    ("singleton/greek-ano-teleia", "\u{0387}", "\u{00B7}"),
    ("singleton/greek-prosgegrammeni", "\u{1FBE}", "\u{03B9}"),
    ("singleton/greek-varia", "\u{1FEF}", "`"),
    ("singleton/greek-oxia-alpha", "\u{1F71}", "\u{03B1}\u{0301}"),
    ("singleton/en-quad", "\u{2000}", " "),
    ("singleton/em-quad", "\u{2001}", " "),
    ("singleton/left-angle-bracket", "\u{2329}", "\u{3008}"),
    ("singleton/right-angle-bracket", "\u{232A}", "\u{3009}"),
    // ------------------------------------------------------------------
    // fullwidth: U+FF01..U+FF5E -> ASCII, plus full-width symbols
    // ------------------------------------------------------------------
    ("fullwidth/exclamation", "\u{FF01}", "!"),
    ("fullwidth/quotation", "\u{FF02}", "\""),
    ("fullwidth/digit-0", "\u{FF10}", "0"),
    ("fullwidth/digit-9", "\u{FF19}", "9"),
    ("fullwidth/at", "\u{FF20}", "@"),
    ("fullwidth/A", "\u{FF21}", "A"),
    ("fullwidth/Z", "\u{FF3A}", "Z"),
    ("fullwidth/backslash", "\u{FF3C}", "\\"),
    ("fullwidth/underscore", "\u{FF3F}", "_"),
    ("fullwidth/a", "\u{FF41}", "a"),
    ("fullwidth/z", "\u{FF5A}", "z"),
    ("fullwidth/tilde", "\u{FF5E}", "~"),
    ("fullwidth/cent", "\u{FFE0}", "\u{00A2}"),
    ("fullwidth/pound", "\u{FFE1}", "\u{00A3}"),
    ("fullwidth/not", "\u{FFE2}", "\u{00AC}"),
    // U+FFE3 -> <wide> U+00AF -> <compat> 0020 0304
    ("fullwidth/macron", "\u{FFE3}", " \u{0304}"),
    ("fullwidth/yen", "\u{FFE5}", "\u{00A5}"),
    ("fullwidth/won", "\u{FFE6}", "\u{20A9}"),
    // ------------------------------------------------------------------
    // halfwidth: half-width katakana / hangul
    // ------------------------------------------------------------------
    ("halfwidth/ideographic-full-stop", "\u{FF61}", "\u{3002}"),
    ("halfwidth/wo", "\u{FF66}", "\u{30F2}"),
    ("halfwidth/prolonged-sound", "\u{FF70}", "\u{30FC}"),
    ("halfwidth/a", "\u{FF71}", "\u{30A2}"),
    ("halfwidth/ka", "\u{FF76}", "\u{30AB}"),
    ("halfwidth/ka-voiced", "\u{FF76}\u{FF9E}", "\u{30AB}\u{3099}"),
    ("halfwidth/ha-semivoiced", "\u{FF8A}\u{FF9F}", "\u{30CF}\u{309A}"),
    ("halfwidth/n", "\u{FF9D}", "\u{30F3}"),
    ("halfwidth/voiced-mark", "\u{FF9E}", "\u{3099}"),
    ("halfwidth/semivoiced-mark", "\u{FF9F}", "\u{309A}"),
    // U+FFA1 -> <narrow> U+3131 -> <compat> U+1100
    ("halfwidth/hangul-kiyeok", "\u{FFA1}", "\u{1100}"),
    ("halfwidth/hangul-a", "\u{FFC2}", "\u{1161}"),
    ("halfwidth/hangul-filler", "\u{FFA0}", "\u{1160}"),
    // ------------------------------------------------------------------
    // ligature: Latin / Armenian ligatures and digraphs
    // ------------------------------------------------------------------
    ("ligature/ff", "\u{FB00}", "ff"),
    ("ligature/fi", "\u{FB01}", "fi"),
    ("ligature/fl", "\u{FB02}", "fl"),
    ("ligature/ffi", "\u{FB03}", "ffi"),
    ("ligature/ffl", "\u{FB04}", "ffl"),
    // U+FB05 -> <compat> 017F 0074, U+017F -> <compat> 0073
    ("ligature/long-s-t", "\u{FB05}", "st"),
    ("ligature/st", "\u{FB06}", "st"),
    ("ligature/IJ", "\u{0132}", "IJ"),
    ("ligature/ij", "\u{0133}", "ij"),
    ("ligature/DZ-caron", "\u{01C4}", "DZ\u{030C}"),
    ("ligature/Dz-caron", "\u{01C5}", "Dz\u{030C}"),
    ("ligature/dz-caron", "\u{01C6}", "dz\u{030C}"),
    ("ligature/LJ", "\u{01C7}", "LJ"),
    ("ligature/Lj", "\u{01C8}", "Lj"),
    ("ligature/lj", "\u{01C9}", "lj"),
    ("ligature/nj", "\u{01CC}", "nj"),
    ("ligature/DZ", "\u{01F1}", "DZ"),
    ("ligature/dz", "\u{01F3}", "dz"),
    ("ligature/n-apostrophe", "\u{0149}", "\u{02BC}n"),
    ("ligature/L-middle-dot", "\u{013F}", "L\u{00B7}"),
    ("ligature/l-middle-dot", "\u{0140}", "l\u{00B7}"),
    ("ligature/a-right-half-ring", "\u{1E9A}", "a\u{02BE}"),
    ("ligature/armenian-ech-yiwn", "\u{0587}", "\u{0565}\u{0582}"),
    ("ligature/armenian-men-now", "\u{FB13}", "\u{0574}\u{0576}"),
    // ------------------------------------------------------------------
    // supersub: superscripts, subscripts, modifier letters
    // ------------------------------------------------------------------
    ("supersub/feminine-ordinal", "\u{00AA}", "a"),
    ("supersub/masculine-ordinal", "\u{00BA}", "o"),
    ("supersub/super-1", "\u{00B9}", "1"),
    ("supersub/super-2", "\u{00B2}", "2"),
    ("supersub/super-3", "\u{00B3}", "3"),
    ("supersub/super-0", "\u{2070}", "0"),
    ("supersub/super-i", "\u{2071}", "i"),
    ("supersub/super-4", "\u{2074}", "4"),
    ("supersub/super-plus", "\u{207A}", "+"),
    ("supersub/super-minus", "\u{207B}", "\u{2212}"),
    ("supersub/super-n", "\u{207F}", "n"),
    ("supersub/sub-0", "\u{2080}", "0"),
    ("supersub/sub-1", "\u{2081}", "1"),
    ("supersub/sub-plus", "\u{208A}", "+"),
    ("supersub/sub-a", "\u{2090}", "a"),
    ("supersub/modifier-h", "\u{02B0}", "h"),
    ("supersub/modifier-h-hook", "\u{02B1}", "\u{0266}"),
    ("supersub/modifier-j", "\u{02B2}", "j"),
    ("supersub/modifier-turned-r", "\u{02B4}", "\u{0279}"),
    ("supersub/modifier-x", "\u{02E3}", "x"),
    ("supersub/modifier-capital-A", "\u{1D2C}", "A"),
    ("supersub/modifier-small-a", "\u{1D43}", "a"),
    ("supersub/modifier-georgian-nar", "\u{10FC}", "\u{10DC}"),
    // ------------------------------------------------------------------
    // fraction: vulgar fractions (U+2044 FRACTION SLASH, not '/')
    // ------------------------------------------------------------------
    ("fraction/one-quarter", "\u{00BC}", "1\u{2044}4"),
    ("fraction/one-half", "\u{00BD}", "1\u{2044}2"),
    ("fraction/three-quarters", "\u{00BE}", "3\u{2044}4"),
    ("fraction/one-third", "\u{2153}", "1\u{2044}3"),
    ("fraction/two-thirds", "\u{2154}", "2\u{2044}3"),
    ("fraction/one-eighth", "\u{215B}", "1\u{2044}8"),
    ("fraction/numerator-one", "\u{215F}", "1\u{2044}"),
    ("fraction/zero-thirds", "\u{2189}", "0\u{2044}3"),
    // ------------------------------------------------------------------
    // roman: Roman numerals
    // ------------------------------------------------------------------
    ("roman/I", "\u{2160}", "I"),
    ("roman/IV", "\u{2163}", "IV"),
    ("roman/VIII", "\u{2167}", "VIII"),
    ("roman/XII", "\u{216B}", "XII"),
    ("roman/L", "\u{216C}", "L"),
    ("roman/C", "\u{216D}", "C"),
    ("roman/D", "\u{216E}", "D"),
    ("roman/M", "\u{216F}", "M"),
    ("roman/small-i", "\u{2170}", "i"),
    ("roman/small-iv", "\u{2173}", "iv"),
    ("roman/small-x", "\u{2179}", "x"),
    ("roman/small-xii", "\u{217B}", "xii"),
    // ------------------------------------------------------------------
    // enclosed: circled / parenthesised / full-stop numbers and letters
    // ------------------------------------------------------------------
    ("enclosed/circled-1", "\u{2460}", "1"),
    ("enclosed/circled-10", "\u{2469}", "10"),
    ("enclosed/circled-20", "\u{2473}", "20"),
    ("enclosed/paren-1", "\u{2474}", "(1)"),
    ("enclosed/paren-20", "\u{2487}", "(20)"),
    ("enclosed/fullstop-1", "\u{2488}", "1."),
    ("enclosed/fullstop-20", "\u{249B}", "20."),
    ("enclosed/paren-a", "\u{249C}", "(a)"),
    ("enclosed/circled-A", "\u{24B6}", "A"),
    ("enclosed/circled-Z", "\u{24CF}", "Z"),
    ("enclosed/circled-a", "\u{24D0}", "a"),
    ("enclosed/circled-z", "\u{24E9}", "z"),
    ("enclosed/circled-0", "\u{24EA}", "0"),
    ("enclosed/circled-21", "\u{3251}", "21"),
    ("enclosed/circled-36", "\u{32B1}", "36"),
    ("enclosed/circled-50", "\u{32BF}", "50"),
    ("enclosed/paren-kabushiki", "\u{3231}", "(\u{682A})"),
    ("enclosed/paren-yuugen", "\u{3232}", "(\u{6709})"),
    ("enclosed/paren-ideograph-one", "\u{3220}", "(\u{4E00})"),
    ("enclosed/circled-ideograph-one", "\u{3280}", "\u{4E00}"),
    ("enclosed/circled-kabushiki", "\u{3291}", "\u{682A}"),
    ("enclosed/circled-katakana-a", "\u{32D0}", "\u{30A2}"),
    ("enclosed/paren-hangul-kiyeok", "\u{3200}", "(\u{1100})"),
    ("enclosed/paren-hangul-ga", "\u{320E}", "(\u{1100}\u{1161})"),
    ("enclosed/circled-hangul-kiyeok", "\u{3260}", "\u{1100}"),
    ("enclosed/circled-hangul-ga", "\u{326E}", "\u{1100}\u{1161}"),
    ("enclosed/month-1", "\u{32C0}", "1\u{6708}"),
    ("enclosed/day-1", "\u{33E0}", "1\u{65E5}"),
    ("enclosed/hour-0", "\u{3358}", "0\u{70B9}"),
    // ------------------------------------------------------------------
    // square: squared Latin units, era names, squared katakana words
    // ------------------------------------------------------------------
    ("square/hPa", "\u{3371}", "hPa"),
    ("square/pA", "\u{3380}", "pA"),
    // <square> 03BC 0041 (Greek mu, not the micro sign)
    ("square/muA", "\u{3382}", "\u{03BC}A"),
    ("square/kg", "\u{338F}", "kg"),
    ("square/Hz", "\u{3390}", "Hz"),
    ("square/kHz", "\u{3391}", "kHz"),
    ("square/MHz", "\u{3392}", "MHz"),
    // <square> 03BC 2113; U+2113 -> <font> 006C
    ("square/mu-l", "\u{3395}", "\u{03BC}l"),
    ("square/mm", "\u{339C}", "mm"),
    ("square/cm", "\u{339D}", "cm"),
    ("square/km", "\u{339E}", "km"),
    // <square> 006D 00B2; U+00B2 -> <super> 0032
    ("square/m-squared", "\u{33A1}", "m2"),
    ("square/m-cubed", "\u{33A5}", "m3"),
    ("square/m-over-s", "\u{33A7}", "m\u{2215}s"),
    ("square/m-over-s-squared", "\u{33A8}", "m\u{2215}s2"),
    ("square/Pa", "\u{33A9}", "Pa"),
    ("square/am", "\u{33C2}", "a.m."),
    ("square/cc", "\u{33C4}", "cc"),
    ("square/C-over-kg", "\u{33C6}", "C\u{2215}kg"),
    ("square/Co", "\u{33C7}", "Co."),
    ("square/KK", "\u{33CD}", "KK"),
    ("square/log", "\u{33D2}", "log"),
    ("square/pm", "\u{33D8}", "p.m."),
    ("square/Wb", "\u{33DD}", "Wb"),
    ("square/gal", "\u{33FF}", "gal"),
    ("square/era-heisei", "\u{337B}", "\u{5E73}\u{6210}"),
    ("square/era-shouwa", "\u{337C}", "\u{662D}\u{548C}"),
    ("square/era-taishou", "\u{337D}", "\u{5927}\u{6B63}"),
    ("square/era-meizi", "\u{337E}", "\u{660E}\u{6CBB}"),
    ("square/era-reiwa", "\u{32FF}", "\u{4EE4}\u{548C}"),
    ("square/corporation", "\u{337F}", "\u{682A}\u{5F0F}\u{4F1A}\u{793E}"),
    // U+3300 SQUARE APAATO: <square> 30A2 30D1 30FC 30C8; U+30D1 -> 30CF 309A
    ("square/apaato", "\u{3300}", "\u{30A2}\u{30CF}\u{309A}\u{30FC}\u{30C8}"),
    ("square/aaru", "\u{3303}", "\u{30A2}\u{30FC}\u{30EB}"),
    ("square/inti", "\u{3305}", "\u{30A4}\u{30F3}\u{30C1}"),
    ("square/karorii", "\u{330D}", "\u{30AB}\u{30ED}\u{30EA}\u{30FC}"),
    ("square/kiro", "\u{3314}", "\u{30AD}\u{30ED}"),
    ("square/kiromeetoru", "\u{3316}", "\u{30AD}\u{30ED}\u{30E1}\u{30FC}\u{30C8}\u{30EB}"),
    // U+3318 SQUARE GURAMU: 30B0 30E9 30E0; U+30B0 -> 30AF 3099
    ("square/guramu", "\u{3318}", "\u{30AF}\u{3099}\u{30E9}\u{30E0}"),
    ("square/senti", "\u{3322}", "\u{30BB}\u{30F3}\u{30C1}"),
    // U+3326 SQUARE DORU: 30C9 30EB; U+30C9 -> 30C8 3099
    ("square/doru", "\u{3326}", "\u{30C8}\u{3099}\u{30EB}"),
    ("square/ton", "\u{3327}", "\u{30C8}\u{30F3}"),
    ("square/hekutaaru", "\u{3336}", "\u{30D8}\u{30AF}\u{30BF}\u{30FC}\u{30EB}"),
    // U+333B SQUARE PEEZI: 30DA 30FC 30B8; 30DA -> 30D8 309A; 30B8 -> 30B7 3099
    ("square/peezi", "\u{333B}", "\u{30D8}\u{309A}\u{30FC}\u{30B7}\u{3099}"),
    ("square/miri", "\u{3349}", "\u{30DF}\u{30EA}"),
    ("square/meetoru", "\u{334D}", "\u{30E1}\u{30FC}\u{30C8}\u{30EB}"),
    ("square/rittoru", "\u{3351}", "\u{30EA}\u{30C3}\u{30C8}\u{30EB}"),
    ("square/watto", "\u{3357}", "\u{30EF}\u{30C3}\u{30C8}"),
    // ------------------------------------------------------------------
    // letterlike: letterlike symbols, TM, degree signs, account-of, etc.
    // ------------------------------------------------------------------
    ("letterlike/account-of", "\u{2100}", "a/c"),
    ("letterlike/addressed-to-subject", "\u{2101}", "a/s"),
    ("letterlike/double-struck-C", "\u{2102}", "C"),
    ("letterlike/degree-celsius", "\u{2103}", "\u{00B0}C"),
    ("letterlike/care-of", "\u{2105}", "c/o"),
    ("letterlike/cada-una", "\u{2106}", "c/u"),
    ("letterlike/euler-constant", "\u{2107}", "\u{0190}"),
    ("letterlike/degree-fahrenheit", "\u{2109}", "\u{00B0}F"),
    ("letterlike/script-H", "\u{210B}", "H"),
    ("letterlike/planck", "\u{210E}", "h"),
    ("letterlike/planck-over-2pi", "\u{210F}", "\u{0127}"),
    ("letterlike/script-small-l", "\u{2113}", "l"),
    ("letterlike/double-struck-N", "\u{2115}", "N"),
    ("letterlike/numero", "\u{2116}", "No"),
    ("letterlike/double-struck-R", "\u{211D}", "R"),
    ("letterlike/service-mark", "\u{2120}", "SM"),
    ("letterlike/telephone", "\u{2121}", "TEL"),
    ("letterlike/trade-mark", "\u{2122}", "TM"),
    ("letterlike/double-struck-Z", "\u{2124}", "Z"),
    ("letterlike/black-letter-Z", "\u{2128}", "Z"),
    ("letterlike/script-B", "\u{212C}", "B"),
    ("letterlike/script-small-e", "\u{212F}", "e"),
    ("letterlike/script-M", "\u{2133}", "M"),
    ("letterlike/script-small-o", "\u{2134}", "o"),
    ("letterlike/alef-symbol", "\u{2135}", "\u{05D0}"),
    ("letterlike/information-source", "\u{2139}", "i"),
    ("letterlike/facsimile", "\u{213B}", "FAX"),
    ("letterlike/double-struck-italic-D", "\u{2145}", "D"),
    ("letterlike/double-struck-italic-d", "\u{2146}", "d"),
    // ------------------------------------------------------------------
    // punct: general punctuation, small / vertical form variants
    // ------------------------------------------------------------------
    ("punct/non-breaking-hyphen", "\u{2011}", "\u{2010}"),
    ("punct/double-low-line", "\u{2017}", " \u{0333}"),
    ("punct/one-dot-leader", "\u{2024}", "."),
    ("punct/two-dot-leader", "\u{2025}", ".."),
    ("punct/ellipsis", "\u{2026}", "..."),
    ("punct/double-prime", "\u{2033}", "\u{2032}\u{2032}"),
    ("punct/triple-prime", "\u{2034}", "\u{2032}\u{2032}\u{2032}"),
    ("punct/quadruple-prime", "\u{2057}", "\u{2032}\u{2032}\u{2032}\u{2032}"),
    ("punct/double-exclamation", "\u{203C}", "!!"),
    ("punct/overline", "\u{203E}", " \u{0305}"),
    ("punct/double-question", "\u{2047}", "??"),
    ("punct/question-exclamation", "\u{2048}", "?!"),
    ("punct/exclamation-question", "\u{2049}", "!?"),
    ("punct/tibetan-nobreak-tsheg", "\u{0F0C}", "\u{0F0B}"),
    ("punct/vertical-comma", "\u{FE10}", ","),
    // U+FE30 -> <vertical> U+2025 -> <compat> 002E 002E
    ("punct/vertical-two-dot-leader", "\u{FE30}", ".."),
    ("punct/vertical-em-dash", "\u{FE31}", "\u{2014}"),
    ("punct/vertical-en-dash", "\u{FE32}", "\u{2013}"),
    ("punct/vertical-low-line", "\u{FE33}", "_"),
    ("punct/vertical-left-paren", "\u{FE35}", "("),
    ("punct/vertical-right-paren", "\u{FE36}", ")"),
    ("punct/vertical-left-brace", "\u{FE37}", "{"),
    ("punct/small-comma", "\u{FE50}", ","),
    ("punct/small-full-stop", "\u{FE52}", "."),
    ("punct/small-semicolon", "\u{FE54}", ";"),
    ("punct/small-colon", "\u{FE55}", ":"),
    ("punct/small-number-sign", "\u{FE5F}", "#"),
    ("punct/small-percent", "\u{FE6A}", "%"),
    ("punct/small-at", "\u{FE6B}", "@"),
    ("punct/postal-mark-face", "\u{3036}", "\u{3012}"),
    // ------------------------------------------------------------------
    // space: no-break and fixed-width spaces
    // ------------------------------------------------------------------
    ("space/no-break", "\u{00A0}", " "),
    ("space/en-space", "\u{2002}", " "),
    ("space/em-space", "\u{2003}", " "),
    ("space/three-per-em", "\u{2004}", " "),
    ("space/four-per-em", "\u{2005}", " "),
    ("space/six-per-em", "\u{2006}", " "),
    ("space/figure-space", "\u{2007}", " "),
    ("space/punctuation-space", "\u{2008}", " "),
    ("space/thin-space", "\u{2009}", " "),
    ("space/hair-space", "\u{200A}", " "),
    ("space/narrow-no-break", "\u{202F}", " "),
    ("space/medium-mathematical", "\u{205F}", " "),
    ("space/ideographic", "\u{3000}", " "),
    // ------------------------------------------------------------------
    // spacing-mark: spacing clones of diacritics -> SPACE + combining mark
    // ------------------------------------------------------------------
    ("spacing-mark/diaeresis", "\u{00A8}", " \u{0308}"),
    ("spacing-mark/macron", "\u{00AF}", " \u{0304}"),
    ("spacing-mark/acute", "\u{00B4}", " \u{0301}"),
    ("spacing-mark/cedilla", "\u{00B8}", " \u{0327}"),
    ("spacing-mark/breve", "\u{02D8}", " \u{0306}"),
    ("spacing-mark/dot-above", "\u{02D9}", " \u{0307}"),
    ("spacing-mark/ring-above", "\u{02DA}", " \u{030A}"),
    ("spacing-mark/ogonek", "\u{02DB}", " \u{0328}"),
    ("spacing-mark/small-tilde", "\u{02DC}", " \u{0303}"),
    ("spacing-mark/double-acute", "\u{02DD}", " \u{030B}"),
    ("spacing-mark/greek-ypogegrammeni", "\u{037A}", " \u{0345}"),
    ("spacing-mark/greek-tonos", "\u{0384}", " \u{0301}"),
    ("spacing-mark/greek-dialytika-tonos", "\u{0385}", " \u{0308}\u{0301}"),
    ("spacing-mark/greek-koronis", "\u{1FBD}", " \u{0313}"),
    ("spacing-mark/greek-psili", "\u{1FBF}", " \u{0313}"),
    ("spacing-mark/greek-perispomeni", "\u{1FC0}", " \u{0342}"),
    ("spacing-mark/greek-dialytika-perispomeni", "\u{1FC1}", " \u{0308}\u{0342}"),
    ("spacing-mark/greek-psili-varia", "\u{1FCD}", " \u{0313}\u{0300}"),
    ("spacing-mark/greek-dialytika-varia", "\u{1FED}", " \u{0308}\u{0300}"),
    ("spacing-mark/greek-dialytika-oxia", "\u{1FEE}", " \u{0308}\u{0301}"),
    // U+1FFD -> U+00B4 (canonical singleton) -> <compat> 0020 0301
    ("spacing-mark/greek-oxia", "\u{1FFD}", " \u{0301}"),
    ("spacing-mark/greek-dasia", "\u{1FFE}", " \u{0314}"),
    ("spacing-mark/kana-voiced", "\u{309B}", " \u{3099}"),
    ("spacing-mark/kana-semivoiced", "\u{309C}", " \u{309A}"),
    // ------------------------------------------------------------------
    // variant: compatibility letter variants
    // ------------------------------------------------------------------
    ("variant/long-s", "\u{017F}", "s"),
    ("variant/micro-sign", "\u{00B5}", "\u{03BC}"),
    ("variant/greek-beta-symbol", "\u{03D0}", "\u{03B2}"),
    ("variant/greek-theta-symbol", "\u{03D1}", "\u{03B8}"),
    ("variant/greek-upsilon-hook", "\u{03D2}", "\u{03A5}"),
    ("variant/greek-upsilon-hook-acute", "\u{03D3}", "\u{03A5}\u{0301}"),
    ("variant/greek-upsilon-hook-diaeresis", "\u{03D4}", "\u{03A5}\u{0308}"),
    ("variant/greek-phi-symbol", "\u{03D5}", "\u{03C6}"),
    ("variant/greek-pi-symbol", "\u{03D6}", "\u{03C0}"),
    ("variant/greek-kappa-symbol", "\u{03F0}", "\u{03BA}"),
    ("variant/greek-rho-symbol", "\u{03F1}", "\u{03C1}"),
    ("variant/greek-lunate-sigma", "\u{03F2}", "\u{03C2}"),
    ("variant/greek-capital-theta-symbol", "\u{03F4}", "\u{0398}"),
    ("variant/greek-lunate-epsilon", "\u{03F5}", "\u{03B5}"),
    ("variant/greek-capital-lunate-sigma", "\u{03F9}", "\u{03A3}"),
    // ------------------------------------------------------------------
    // greek: monotonic (tonos / dialytika) and polytonic
    // ------------------------------------------------------------------
    ("greek/Alpha-tonos", "\u{0386}", "\u{0391}\u{0301}"),
    ("greek/Epsilon-tonos", "\u{0388}", "\u{0395}\u{0301}"),
    ("greek/Eta-tonos", "\u{0389}", "\u{0397}\u{0301}"),
    ("greek/Iota-tonos", "\u{038A}", "\u{0399}\u{0301}"),
    ("greek/Omicron-tonos", "\u{038C}", "\u{039F}\u{0301}"),
    ("greek/Upsilon-tonos", "\u{038E}", "\u{03A5}\u{0301}"),
    ("greek/Omega-tonos", "\u{038F}", "\u{03A9}\u{0301}"),
    ("greek/iota-dialytika-tonos", "\u{0390}", "\u{03B9}\u{0308}\u{0301}"),
    ("greek/Iota-dialytika", "\u{03AA}", "\u{0399}\u{0308}"),
    ("greek/Upsilon-dialytika", "\u{03AB}", "\u{03A5}\u{0308}"),
    ("greek/alpha-tonos", "\u{03AC}", "\u{03B1}\u{0301}"),
    ("greek/epsilon-tonos", "\u{03AD}", "\u{03B5}\u{0301}"),
    ("greek/eta-tonos", "\u{03AE}", "\u{03B7}\u{0301}"),
    ("greek/iota-tonos", "\u{03AF}", "\u{03B9}\u{0301}"),
    ("greek/upsilon-dialytika-tonos", "\u{03B0}", "\u{03C5}\u{0308}\u{0301}"),
    ("greek/iota-dialytika", "\u{03CA}", "\u{03B9}\u{0308}"),
    ("greek/upsilon-dialytika", "\u{03CB}", "\u{03C5}\u{0308}"),
    ("greek/omicron-tonos", "\u{03CC}", "\u{03BF}\u{0301}"),
    ("greek/upsilon-tonos", "\u{03CD}", "\u{03C5}\u{0301}"),
    ("greek/omega-tonos", "\u{03CE}", "\u{03C9}\u{0301}"),
    ("greek/alpha-psili", "\u{1F00}", "\u{03B1}\u{0313}"),
    ("greek/alpha-dasia", "\u{1F01}", "\u{03B1}\u{0314}"),
    ("greek/alpha-psili-varia", "\u{1F02}", "\u{03B1}\u{0313}\u{0300}"),
    ("greek/alpha-dasia-varia", "\u{1F03}", "\u{03B1}\u{0314}\u{0300}"),
    ("greek/alpha-psili-oxia", "\u{1F04}", "\u{03B1}\u{0313}\u{0301}"),
    ("greek/alpha-dasia-oxia", "\u{1F05}", "\u{03B1}\u{0314}\u{0301}"),
    ("greek/alpha-psili-perispomeni", "\u{1F06}", "\u{03B1}\u{0313}\u{0342}"),
    ("greek/alpha-dasia-perispomeni", "\u{1F07}", "\u{03B1}\u{0314}\u{0342}"),
    ("greek/alpha-varia", "\u{1F70}", "\u{03B1}\u{0300}"),
    ("greek/alpha-psili-ypogegrammeni", "\u{1F80}", "\u{03B1}\u{0313}\u{0345}"),
    ("greek/alpha-dasia-perispomeni-ypogegrammeni", "\u{1F87}", "\u{03B1}\u{0314}\u{0342}\u{0345}"),
    ("greek/Alpha-psili-prosgegrammeni", "\u{1F88}", "\u{0391}\u{0313}\u{0345}"),
    ("greek/omega-dasia-perispomeni-ypogegrammeni", "\u{1FA7}", "\u{03C9}\u{0314}\u{0342}\u{0345}"),
    ("greek/alpha-vrachy", "\u{1FB0}", "\u{03B1}\u{0306}"),
    ("greek/alpha-macron", "\u{1FB1}", "\u{03B1}\u{0304}"),
    ("greek/alpha-ypogegrammeni", "\u{1FB3}", "\u{03B1}\u{0345}"),
    ("greek/alpha-oxia-ypogegrammeni", "\u{1FB4}", "\u{03B1}\u{0301}\u{0345}"),
    ("greek/alpha-perispomeni", "\u{1FB6}", "\u{03B1}\u{0342}"),
    ("greek/alpha-perispomeni-ypogegrammeni", "\u{1FB7}", "\u{03B1}\u{0342}\u{0345}"),
    ("greek/iota-dialytika-oxia", "\u{1FD3}", "\u{03B9}\u{0308}\u{0301}"),
    ("greek/iota-dialytika-perispomeni", "\u{1FD7}", "\u{03B9}\u{0308}\u{0342}"),
    ("greek/upsilon-dialytika-oxia", "\u{1FE3}", "\u{03C5}\u{0308}\u{0301}"),
    ("greek/rho-psili", "\u{1FE4}", "\u{03C1}\u{0313}"),
    ("greek/rho-dasia", "\u{1FE5}", "\u{03C1}\u{0314}"),
    ("greek/Rho-dasia", "\u{1FEC}", "\u{03A1}\u{0314}"),
    ("greek/omega-ypogegrammeni", "\u{1FF3}", "\u{03C9}\u{0345}"),
    ("greek/Omega-prosgegrammeni", "\u{1FFC}", "\u{03A9}\u{0345}"),
    // ------------------------------------------------------------------
    // cyrillic
    // ------------------------------------------------------------------
    ("cyrillic/Ie-grave", "\u{0400}", "\u{0415}\u{0300}"),
    ("cyrillic/Io", "\u{0401}", "\u{0415}\u{0308}"),
    ("cyrillic/Yi", "\u{0407}", "\u{0406}\u{0308}"),
    ("cyrillic/I-grave", "\u{040D}", "\u{0418}\u{0300}"),
    ("cyrillic/Short-U", "\u{040E}", "\u{0423}\u{0306}"),
    ("cyrillic/Short-I", "\u{0419}", "\u{0418}\u{0306}"),
    ("cyrillic/short-i", "\u{0439}", "\u{0438}\u{0306}"),
    ("cyrillic/ie-grave", "\u{0450}", "\u{0435}\u{0300}"),
    ("cyrillic/io", "\u{0451}", "\u{0435}\u{0308}"),
    ("cyrillic/gje", "\u{0453}", "\u{0433}\u{0301}"),
    ("cyrillic/yi", "\u{0457}", "\u{0456}\u{0308}"),
    ("cyrillic/kje", "\u{045C}", "\u{043A}\u{0301}"),
    ("cyrillic/i-grave", "\u{045D}", "\u{0438}\u{0300}"),
    ("cyrillic/short-u", "\u{045E}", "\u{0443}\u{0306}"),
    ("cyrillic/Izhitsa-double-grave", "\u{0476}", "\u{0474}\u{030F}"),
    ("cyrillic/izhitsa-double-grave", "\u{0477}", "\u{0475}\u{030F}"),
    ("cyrillic/zhe-breve", "\u{04C2}", "\u{0436}\u{0306}"),
    ("cyrillic/a-breve", "\u{04D1}", "\u{0430}\u{0306}"),
    ("cyrillic/a-diaeresis", "\u{04D3}", "\u{0430}\u{0308}"),
    ("cyrillic/schwa-diaeresis", "\u{04DB}", "\u{04D9}\u{0308}"),
    ("cyrillic/i-macron", "\u{04E3}", "\u{0438}\u{0304}"),
    ("cyrillic/u-diaeresis", "\u{04F1}", "\u{0443}\u{0308}"),
    // ------------------------------------------------------------------
    // hebrew: presentation forms (all excluded from composition)
    // ------------------------------------------------------------------
    ("hebrew/yod-hiriq", "\u{FB1D}", "\u{05D9}\u{05B4}"),
    ("hebrew/yiddish-yod-yod-patah", "\u{FB1F}", "\u{05F2}\u{05B7}"),
    ("hebrew/alternative-ayin", "\u{FB20}", "\u{05E2}"),
    ("hebrew/wide-alef", "\u{FB21}", "\u{05D0}"),
    ("hebrew/alternative-plus", "\u{FB29}", "+"),
    ("hebrew/shin-shin-dot", "\u{FB2A}", "\u{05E9}\u{05C1}"),
    ("hebrew/shin-sin-dot", "\u{FB2B}", "\u{05E9}\u{05C2}"),
    // U+FB2C -> FB49 05C1; U+FB49 -> 05E9 05BC
    ("hebrew/shin-dagesh-shin-dot", "\u{FB2C}", "\u{05E9}\u{05BC}\u{05C1}"),
    ("hebrew/shin-dagesh-sin-dot", "\u{FB2D}", "\u{05E9}\u{05BC}\u{05C2}"),
    ("hebrew/alef-patah", "\u{FB2E}", "\u{05D0}\u{05B7}"),
    ("hebrew/alef-qamats", "\u{FB2F}", "\u{05D0}\u{05B8}"),
    ("hebrew/alef-mapiq", "\u{FB30}", "\u{05D0}\u{05BC}"),
    ("hebrew/bet-dagesh", "\u{FB31}", "\u{05D1}\u{05BC}"),
    ("hebrew/vav-dagesh", "\u{FB35}", "\u{05D5}\u{05BC}"),
    ("hebrew/final-kaf-dagesh", "\u{FB3A}", "\u{05DA}\u{05BC}"),
    ("hebrew/kaf-dagesh", "\u{FB3B}", "\u{05DB}\u{05BC}"),
    ("hebrew/tav-dagesh", "\u{FB4A}", "\u{05EA}\u{05BC}"),
    ("hebrew/vav-holam", "\u{FB4B}", "\u{05D5}\u{05B9}"),
    ("hebrew/bet-rafe", "\u{FB4C}", "\u{05D1}\u{05BF}"),
    ("hebrew/alef-lamed-ligature", "\u{FB4F}", "\u{05D0}\u{05DC}"),
    // ------------------------------------------------------------------
    // arabic: canonical (hamza/madda) and presentation forms
    // ------------------------------------------------------------------
    ("arabic/alef-madda", "\u{0622}", "\u{0627}\u{0653}"),
    ("arabic/alef-hamza-above", "\u{0623}", "\u{0627}\u{0654}"),
    ("arabic/waw-hamza", "\u{0624}", "\u{0648}\u{0654}"),
    ("arabic/alef-hamza-below", "\u{0625}", "\u{0627}\u{0655}"),
    ("arabic/yeh-hamza", "\u{0626}", "\u{064A}\u{0654}"),
    ("arabic/heh-yeh-above", "\u{06C0}", "\u{06D5}\u{0654}"),
    ("arabic/heh-goal-hamza", "\u{06C2}", "\u{06C1}\u{0654}"),
    ("arabic/yeh-barree-hamza", "\u{06D3}", "\u{06D2}\u{0654}"),
    ("arabic/high-hamza-alef", "\u{0675}", "\u{0627}\u{0674}"),
    ("arabic/high-hamza-waw", "\u{0676}", "\u{0648}\u{0674}"),
    ("arabic/u-high-hamza", "\u{0677}", "\u{06C7}\u{0674}"),
    ("arabic/high-hamza-yeh", "\u{0678}", "\u{064A}\u{0674}"),
    ("arabic/alef-wasla-isolated", "\u{FB50}", "\u{0671}"),
    ("arabic/peh-isolated", "\u{FB56}", "\u{067E}"),
    ("arabic/jeh-isolated", "\u{FB8A}", "\u{0698}"),
    ("arabic/gaf-isolated", "\u{FB92}", "\u{06AF}"),
    ("arabic/farsi-yeh-isolated", "\u{FBFC}", "\u{06CC}"),
    // U+FC00 -> <isolated> 0626 062C; U+0626 -> 064A 0654
    ("arabic/lig-yeh-hamza-jeem", "\u{FC00}", "\u{064A}\u{0654}\u{062C}"),
    ("arabic/lig-beh-meem", "\u{FC08}", "\u{0628}\u{0645}"),
    ("arabic/lig-shadda-dammatan", "\u{FC5E}", " \u{064C}\u{0651}"),
    ("arabic/lig-salla-yeh-barree", "\u{FDF0}", "\u{0635}\u{0644}\u{06D2}"),
    ("arabic/lig-qala-yeh-barree", "\u{FDF1}", "\u{0642}\u{0644}\u{06D2}"),
    ("arabic/lig-allah", "\u{FDF2}", "\u{0627}\u{0644}\u{0644}\u{0647}"),
    ("arabic/lig-akbar", "\u{FDF3}", "\u{0627}\u{0643}\u{0628}\u{0631}"),
    ("arabic/lig-mohammad", "\u{FDF4}", "\u{0645}\u{062D}\u{0645}\u{062F}"),
    (
        "arabic/lig-sallallahou-alayhe-wasallam",
        "\u{FDFA}",
        "\u{0635}\u{0644}\u{0649} \u{0627}\u{0644}\u{0644}\u{0647} \u{0639}\u{0644}\u{064A}\u{0647} \u{0648}\u{0633}\u{0644}\u{0645}",
    ),
    (
        "arabic/lig-jallajalalouhou",
        "\u{FDFB}",
        "\u{062C}\u{0644} \u{062C}\u{0644}\u{0627}\u{0644}\u{0647}",
    ),
    ("arabic/rial-sign", "\u{FDFC}", "\u{0631}\u{06CC}\u{0627}\u{0644}"),
    ("arabic/fathatan-isolated", "\u{FE70}", " \u{064B}"),
    ("arabic/tatweel-fathatan", "\u{FE71}", "\u{0640}\u{064B}"),
    ("arabic/fatha-isolated", "\u{FE76}", " \u{064E}"),
    ("arabic/shadda-isolated", "\u{FE7C}", " \u{0651}"),
    ("arabic/alef-madda-isolated", "\u{FE81}", "\u{0627}\u{0653}"),
    ("arabic/alef-isolated", "\u{FE8D}", "\u{0627}"),
    ("arabic/alef-final", "\u{FE8E}", "\u{0627}"),
    ("arabic/beh-isolated", "\u{FE8F}", "\u{0628}"),
    ("arabic/beh-initial", "\u{FE91}", "\u{0628}"),
    ("arabic/lam-initial", "\u{FEDF}", "\u{0644}"),
    ("arabic/heh-initial", "\u{FEEB}", "\u{0647}"),
    ("arabic/lam-alef-madda-isolated", "\u{FEF5}", "\u{0644}\u{0627}\u{0653}"),
    ("arabic/lam-alef-hamza-above-isolated", "\u{FEF7}", "\u{0644}\u{0627}\u{0654}"),
    ("arabic/lam-alef-hamza-below-isolated", "\u{FEF9}", "\u{0644}\u{0627}\u{0655}"),
    ("arabic/lam-alef-isolated", "\u{FEFB}", "\u{0644}\u{0627}"),
    ("arabic/lam-alef-final", "\u{FEFC}", "\u{0644}\u{0627}"),
    // ------------------------------------------------------------------
    // indic: Devanagari nukta forms and other Brahmic two-part letters/vowels
    // ------------------------------------------------------------------
    ("indic/devanagari-nnna", "\u{0929}", "\u{0928}\u{093C}"),
    ("indic/devanagari-rra", "\u{0931}", "\u{0930}\u{093C}"),
    ("indic/devanagari-llla", "\u{0934}", "\u{0933}\u{093C}"),
    ("indic/devanagari-qa", "\u{0958}", "\u{0915}\u{093C}"),
    ("indic/devanagari-khha", "\u{0959}", "\u{0916}\u{093C}"),
    ("indic/devanagari-ghha", "\u{095A}", "\u{0917}\u{093C}"),
    ("indic/devanagari-za", "\u{095B}", "\u{091C}\u{093C}"),
    ("indic/devanagari-dddha", "\u{095C}", "\u{0921}\u{093C}"),
    ("indic/devanagari-rha", "\u{095D}", "\u{0922}\u{093C}"),
    ("indic/devanagari-fa", "\u{095E}", "\u{092B}\u{093C}"),
    ("indic/devanagari-yya", "\u{095F}", "\u{092F}\u{093C}"),
    ("indic/bengali-vowel-o", "\u{09CB}", "\u{09C7}\u{09BE}"),
    ("indic/bengali-vowel-au", "\u{09CC}", "\u{09C7}\u{09D7}"),
    ("indic/bengali-rra", "\u{09DC}", "\u{09A1}\u{09BC}"),
    ("indic/bengali-rha", "\u{09DD}", "\u{09A2}\u{09BC}"),
    ("indic/bengali-yya", "\u{09DF}", "\u{09AF}\u{09BC}"),
    ("indic/gurmukhi-lla", "\u{0A33}", "\u{0A32}\u{0A3C}"),
    ("indic/gurmukhi-sha", "\u{0A36}", "\u{0A38}\u{0A3C}"),
    ("indic/gurmukhi-khha", "\u{0A59}", "\u{0A16}\u{0A3C}"),
    ("indic/gurmukhi-ghha", "\u{0A5A}", "\u{0A17}\u{0A3C}"),
    ("indic/gurmukhi-za", "\u{0A5B}", "\u{0A1C}\u{0A3C}"),
    ("indic/gurmukhi-fa", "\u{0A5E}", "\u{0A2B}\u{0A3C}"),
    ("indic/oriya-vowel-ai", "\u{0B48}", "\u{0B47}\u{0B56}"),
    ("indic/oriya-vowel-o", "\u{0B4B}", "\u{0B47}\u{0B3E}"),
    ("indic/oriya-vowel-au", "\u{0B4C}", "\u{0B47}\u{0B57}"),
    ("indic/oriya-rra", "\u{0B5C}", "\u{0B21}\u{0B3C}"),
    ("indic/oriya-rha", "\u{0B5D}", "\u{0B22}\u{0B3C}"),
    ("indic/tamil-au", "\u{0B94}", "\u{0B92}\u{0BD7}"),
    ("indic/tamil-vowel-o", "\u{0BCA}", "\u{0BC6}\u{0BBE}"),
    ("indic/tamil-vowel-oo", "\u{0BCB}", "\u{0BC7}\u{0BBE}"),
    ("indic/tamil-vowel-au", "\u{0BCC}", "\u{0BC6}\u{0BD7}"),
    ("indic/telugu-vowel-ai", "\u{0C48}", "\u{0C46}\u{0C56}"),
    ("indic/kannada-vowel-ii", "\u{0CC0}", "\u{0CBF}\u{0CD5}"),
    ("indic/kannada-vowel-ee", "\u{0CC7}", "\u{0CC6}\u{0CD5}"),
    ("indic/kannada-vowel-ai", "\u{0CC8}", "\u{0CC6}\u{0CD6}"),
    ("indic/kannada-vowel-o", "\u{0CCA}", "\u{0CC6}\u{0CC2}"),
    // U+0CCB -> 0CCA 0CD5 -> 0CC6 0CC2 0CD5
    ("indic/kannada-vowel-oo", "\u{0CCB}", "\u{0CC6}\u{0CC2}\u{0CD5}"),
    ("indic/malayalam-vowel-o", "\u{0D4A}", "\u{0D46}\u{0D3E}"),
    ("indic/malayalam-vowel-oo", "\u{0D4B}", "\u{0D47}\u{0D3E}"),
    ("indic/malayalam-vowel-au", "\u{0D4C}", "\u{0D46}\u{0D57}"),
    ("indic/sinhala-vowel-ee", "\u{0DDA}", "\u{0DD9}\u{0DCA}"),
    ("indic/sinhala-vowel-o", "\u{0DDC}", "\u{0DD9}\u{0DCF}"),
    // U+0DDD -> 0DDC 0DCA -> 0DD9 0DCF 0DCA
    ("indic/sinhala-vowel-oo", "\u{0DDD}", "\u{0DD9}\u{0DCF}\u{0DCA}"),
    ("indic/sinhala-vowel-au", "\u{0DDE}", "\u{0DD9}\u{0DDF}"),
    ("indic/thai-sara-am", "\u{0E33}", "\u{0E4D}\u{0E32}"),
    ("indic/lao-vowel-am", "\u{0EB3}", "\u{0ECD}\u{0EB2}"),
    ("indic/lao-ho-no", "\u{0EDC}", "\u{0EAB}\u{0E99}"),
    ("indic/lao-ho-mo", "\u{0EDD}", "\u{0EAB}\u{0EA1}"),
    ("indic/tibetan-gha", "\u{0F43}", "\u{0F42}\u{0FB7}"),
    ("indic/tibetan-ddha", "\u{0F4D}", "\u{0F4C}\u{0FB7}"),
    ("indic/tibetan-dha", "\u{0F52}", "\u{0F51}\u{0FB7}"),
    ("indic/tibetan-bha", "\u{0F57}", "\u{0F56}\u{0FB7}"),
    ("indic/tibetan-dzha", "\u{0F5C}", "\u{0F5B}\u{0FB7}"),
    ("indic/tibetan-kssa", "\u{0F69}", "\u{0F40}\u{0FB5}"),
    ("indic/tibetan-vowel-ii", "\u{0F73}", "\u{0F71}\u{0F72}"),
    ("indic/tibetan-vowel-uu", "\u{0F75}", "\u{0F71}\u{0F74}"),
    ("indic/tibetan-vocalic-r", "\u{0F76}", "\u{0FB2}\u{0F80}"),
    // U+0F77 -> <compat> 0FB2 0F81; U+0F81 -> 0F71 0F80
    ("indic/tibetan-vocalic-rr", "\u{0F77}", "\u{0FB2}\u{0F71}\u{0F80}"),
    ("indic/tibetan-reversed-ii", "\u{0F81}", "\u{0F71}\u{0F80}"),
    ("indic/myanmar-uu", "\u{1026}", "\u{1025}\u{102E}"),
    ("indic/balinese-akara-tedung", "\u{1B06}", "\u{1B05}\u{1B35}"),
    // ------------------------------------------------------------------
    // kana: voiced / semi-voiced hiragana and katakana, vertical ligatures
    // ------------------------------------------------------------------
    ("kana/hiragana-ga", "\u{304C}", "\u{304B}\u{3099}"),
    ("kana/hiragana-gu", "\u{3050}", "\u{304F}\u{3099}"),
    ("kana/hiragana-go", "\u{3054}", "\u{3053}\u{3099}"),
    ("kana/hiragana-za", "\u{3056}", "\u{3055}\u{3099}"),
    ("kana/hiragana-zo", "\u{305E}", "\u{305D}\u{3099}"),
    ("kana/hiragana-da", "\u{3060}", "\u{305F}\u{3099}"),
    ("kana/hiragana-ba", "\u{3070}", "\u{306F}\u{3099}"),
    ("kana/hiragana-pa", "\u{3071}", "\u{306F}\u{309A}"),
    ("kana/hiragana-be", "\u{3079}", "\u{3078}\u{3099}"),
    ("kana/hiragana-po", "\u{307D}", "\u{307B}\u{309A}"),
    ("kana/hiragana-vu", "\u{3094}", "\u{3046}\u{3099}"),
    ("kana/hiragana-voiced-iteration", "\u{309E}", "\u{309D}\u{3099}"),
    ("kana/hiragana-digraph-yori", "\u{309F}", "\u{3088}\u{308A}"),
    ("kana/katakana-ga", "\u{30AC}", "\u{30AB}\u{3099}"),
    ("kana/katakana-do", "\u{30C9}", "\u{30C8}\u{3099}"),
    ("kana/katakana-ba", "\u{30D0}", "\u{30CF}\u{3099}"),
    ("kana/katakana-pa", "\u{30D1}", "\u{30CF}\u{309A}"),
    ("kana/katakana-po", "\u{30DD}", "\u{30DB}\u{309A}"),
    ("kana/katakana-vu", "\u{30F4}", "\u{30A6}\u{3099}"),
    ("kana/katakana-va", "\u{30F7}", "\u{30EF}\u{3099}"),
    ("kana/katakana-vo", "\u{30FA}", "\u{30F2}\u{3099}"),
    ("kana/katakana-voiced-iteration", "\u{30FE}", "\u{30FD}\u{3099}"),
    ("kana/katakana-digraph-koto", "\u{30FF}", "\u{30B3}\u{30C8}"),
    // ------------------------------------------------------------------
    // cjk: compatibility ideographs, Kangxi radicals, radicals supplement,
    //      Hangzhou numerals, Hangul compatibility jamo
    //
    // NOT listed: U+FA0E, U+FA0F, U+FA11, U+FA13, U+FA14, U+FA1F, U+FA21,
    // U+FA23, U+FA24, U+FA27..U+FA29 live in the compatibility block but are
    // unified ideographs with NO decomposition mapping.
    // ------------------------------------------------------------------
    ("cjk/compat-F900", "\u{F900}", "\u{8C48}"),
    ("cjk/compat-F901", "\u{F901}", "\u{66F4}"),
    ("cjk/compat-F902", "\u{F902}", "\u{8ECA}"),
    ("cjk/compat-F907", "\u{F907}", "\u{9F9C}"),
    ("cjk/compat-F908", "\u{F908}", "\u{9F9C}"),
    ("cjk/compat-F90A", "\u{F90A}", "\u{91D1}"),
    ("cjk/compat-F928", "\u{F928}", "\u{5ECA}"),
    ("cjk/compat-F92C", "\u{F92C}", "\u{90CE}"),
    ("cjk/compat-F9D1", "\u{F9D1}", "\u{516D}"),
    ("cjk/compat-F9DC", "\u{F9DC}", "\u{9686}"),
    ("cjk/compat-F9DD", "\u{F9DD}", "\u{5229}"),
    ("cjk/compat-F9E9", "\u{F9E9}", "\u{91CC}"),
    ("cjk/compat-F9F4", "\u{F9F4}", "\u{6797}"),
    ("cjk/compat-F9F7", "\u{F9F7}", "\u{7ACB}"),
    ("cjk/compat-F9FE", "\u{F9FE}", "\u{8336}"),
    ("cjk/compat-F9FF", "\u{F9FF}", "\u{523A}"),
    ("cjk/compat-FA00", "\u{FA00}", "\u{5207}"),
    ("cjk/compat-FA01", "\u{FA01}", "\u{5EA6}"),
    ("cjk/compat-FA08", "\u{FA08}", "\u{884C}"),
    ("cjk/compat-FA0A", "\u{FA0A}", "\u{898B}"),
    ("cjk/compat-FA0C", "\u{FA0C}", "\u{5140}"),
    ("cjk/compat-FA10", "\u{FA10}", "\u{585A}"),
    ("cjk/compat-FA12", "\u{FA12}", "\u{6674}"),
    ("cjk/compat-FA16", "\u{FA16}", "\u{732A}"),
    ("cjk/compat-FA19", "\u{FA19}", "\u{795E}"),
    ("cjk/compat-FA1B", "\u{FA1B}", "\u{798F}"),
    ("cjk/compat-FA1D", "\u{FA1D}", "\u{7CBE}"),
    ("cjk/compat-FA1E", "\u{FA1E}", "\u{7FBD}"),
    ("cjk/compat-FA26", "\u{FA26}", "\u{90FD}"),
    ("cjk/compat-FA2A", "\u{FA2A}", "\u{98EF}"),
    ("cjk/compat-FA2D", "\u{FA2D}", "\u{9DB4}"),
    ("cjk/compat-FA30", "\u{FA30}", "\u{4FAE}"),
    ("cjk/compat-supp-2F800", "\u{2F800}", "\u{4E3D}"),
    ("cjk/compat-supp-2F801", "\u{2F801}", "\u{4E38}"),
    ("cjk/compat-supp-2F802", "\u{2F802}", "\u{4E41}"),
    ("cjk/compat-supp-2F803", "\u{2F803}", "\u{20122}"),
    ("cjk/compat-supp-2F804", "\u{2F804}", "\u{4F60}"),
    ("cjk/compat-supp-2F805", "\u{2F805}", "\u{4FAE}"),
    ("cjk/compat-supp-2F80E", "\u{2F80E}", "\u{514D}"),
    ("cjk/compat-supp-2F81A", "\u{2F81A}", "\u{51AC}"),
    ("cjk/compat-supp-2F81B", "\u{2F81B}", "\u{51B5}"),
    ("cjk/compat-supp-2FA1D", "\u{2FA1D}", "\u{2A600}"),
    ("cjk/kangxi-one", "\u{2F00}", "\u{4E00}"),
    ("cjk/kangxi-line", "\u{2F01}", "\u{4E28}"),
    ("cjk/kangxi-man", "\u{2F08}", "\u{4EBA}"),
    ("cjk/kangxi-again", "\u{2F1C}", "\u{53C8}"),
    ("cjk/kangxi-mouth", "\u{2F1D}", "\u{53E3}"),
    ("cjk/kangxi-earth", "\u{2F1F}", "\u{571F}"),
    ("cjk/kangxi-big", "\u{2F24}", "\u{5927}"),
    ("cjk/kangxi-woman", "\u{2F25}", "\u{5973}"),
    ("cjk/kangxi-heart", "\u{2F3C}", "\u{5FC3}"),
    ("cjk/kangxi-sun", "\u{2F47}", "\u{65E5}"),
    ("cjk/kangxi-moon", "\u{2F49}", "\u{6708}"),
    ("cjk/kangxi-tree", "\u{2F4A}", "\u{6728}"),
    ("cjk/kangxi-water", "\u{2F54}", "\u{6C34}"),
    ("cjk/kangxi-fire", "\u{2F55}", "\u{706B}"),
    ("cjk/kangxi-gold", "\u{2FA6}", "\u{91D1}"),
    ("cjk/kangxi-dragon", "\u{2FD3}", "\u{9F8D}"),
    ("cjk/kangxi-turtle", "\u{2FD4}", "\u{9F9C}"),
    ("cjk/kangxi-flute", "\u{2FD5}", "\u{9FA0}"),
    ("cjk/radical-supp-mother", "\u{2E9F}", "\u{6BCD}"),
    ("cjk/radical-supp-simplified-turtle", "\u{2EF3}", "\u{9F9F}"),
    ("cjk/hangzhou-ten", "\u{3038}", "\u{5341}"),
    ("cjk/hangzhou-twenty", "\u{3039}", "\u{5344}"),
    ("cjk/hangzhou-thirty", "\u{303A}", "\u{5345}"),
    ("cjk/hangul-compat-kiyeok", "\u{3131}", "\u{1100}"),
    ("cjk/hangul-compat-kiyeok-sios", "\u{3133}", "\u{11AA}"),
    ("cjk/hangul-compat-nieun", "\u{3134}", "\u{1102}"),
    ("cjk/hangul-compat-a", "\u{314F}", "\u{1161}"),
    ("cjk/hangul-compat-filler", "\u{3164}", "\u{1160}"),
    // ------------------------------------------------------------------
    // astral: supplementary-plane characters
    // ------------------------------------------------------------------
    ("astral/math-bold-A", "\u{1D400}", "A"),
    ("astral/math-bold-a", "\u{1D41A}", "a"),
    ("astral/math-italic-A", "\u{1D434}", "A"),
    ("astral/math-italic-a", "\u{1D44E}", "a"),
    ("astral/math-bold-italic-A", "\u{1D468}", "A"),
    ("astral/math-script-A", "\u{1D49C}", "A"),
    ("astral/math-bold-script-A", "\u{1D4D0}", "A"),
    ("astral/math-fraktur-A", "\u{1D504}", "A"),
    ("astral/math-double-struck-A", "\u{1D538}", "A"),
    ("astral/math-bold-fraktur-A", "\u{1D56C}", "A"),
    ("astral/math-sans-A", "\u{1D5A0}", "A"),
    ("astral/math-sans-bold-A", "\u{1D5D4}", "A"),
    ("astral/math-sans-italic-A", "\u{1D608}", "A"),
    ("astral/math-sans-bold-italic-A", "\u{1D63C}", "A"),
    ("astral/math-monospace-A", "\u{1D670}", "A"),
    ("astral/math-italic-dotless-i", "\u{1D6A4}", "\u{0131}"),
    ("astral/math-italic-dotless-j", "\u{1D6A5}", "\u{0237}"),
    ("astral/math-bold-Alpha", "\u{1D6A8}", "\u{0391}"),
    // U+1D6B9 -> <font> 03F4 -> <compat> 0398
    ("astral/math-bold-Theta-symbol", "\u{1D6B9}", "\u{0398}"),
    ("astral/math-bold-Omega", "\u{1D6C0}", "\u{03A9}"),
    ("astral/math-bold-nabla", "\u{1D6C1}", "\u{2207}"),
    ("astral/math-bold-alpha", "\u{1D6C2}", "\u{03B1}"),
    ("astral/math-bold-final-sigma", "\u{1D6D3}", "\u{03C2}"),
    ("astral/math-bold-omega", "\u{1D6DA}", "\u{03C9}"),
    ("astral/math-bold-partial", "\u{1D6DB}", "\u{2202}"),
    // U+1D6DC -> <font> 03F5 -> <compat> 03B5
    ("astral/math-bold-epsilon-symbol", "\u{1D6DC}", "\u{03B5}"),
    ("astral/math-bold-theta-symbol", "\u{1D6DD}", "\u{03B8}"),
    ("astral/math-bold-pi-symbol", "\u{1D6E1}", "\u{03C0}"),
    ("astral/math-bold-Digamma", "\u{1D7CA}", "\u{03DC}"),
    ("astral/math-bold-digamma", "\u{1D7CB}", "\u{03DD}"),
    ("astral/math-bold-0", "\u{1D7CE}", "0"),
    ("astral/math-bold-9", "\u{1D7D7}", "9"),
    ("astral/math-double-struck-0", "\u{1D7D8}", "0"),
    ("astral/math-sans-0", "\u{1D7E2}", "0"),
    ("astral/math-sans-bold-0", "\u{1D7EC}", "0"),
    ("astral/math-monospace-0", "\u{1D7F6}", "0"),
    ("astral/math-monospace-9", "\u{1D7FF}", "9"),
    ("astral/music-half-note", "\u{1D15E}", "\u{1D157}\u{1D165}"),
    ("astral/music-quarter-note", "\u{1D15F}", "\u{1D158}\u{1D165}"),
    // U+1D160 -> 1D15F 1D16E -> 1D158 1D165 1D16E
    ("astral/music-eighth-note", "\u{1D160}", "\u{1D158}\u{1D165}\u{1D16E}"),
    ("astral/music-sixteenth-note", "\u{1D161}", "\u{1D158}\u{1D165}\u{1D16F}"),
    ("astral/music-128th-note", "\u{1D164}", "\u{1D158}\u{1D165}\u{1D172}"),
    ("astral/music-minima", "\u{1D1BB}", "\u{1D1B9}\u{1D165}"),
    ("astral/music-minima-black", "\u{1D1BC}", "\u{1D1BA}\u{1D165}"),
    ("astral/music-semiminima-white", "\u{1D1BD}", "\u{1D1B9}\u{1D165}\u{1D16E}"),
    ("astral/music-fusa-black", "\u{1D1C0}", "\u{1D1BA}\u{1D165}\u{1D16F}"),
    ("astral/enclosed-digit-zero-full-stop", "\u{1F100}", "0."),
    ("astral/enclosed-digit-zero-comma", "\u{1F101}", "0,"),
    ("astral/enclosed-digit-nine-comma", "\u{1F10A}", "9,"),
    ("astral/enclosed-paren-A", "\u{1F110}", "(A)"),
    ("astral/enclosed-paren-Z", "\u{1F129}", "(Z)"),
    ("astral/enclosed-tortoise-shell-S", "\u{1F12A}", "\u{3014}S\u{3015}"),
    ("astral/enclosed-circled-italic-C", "\u{1F12B}", "C"),
    ("astral/enclosed-circled-italic-R", "\u{1F12C}", "R"),
    ("astral/enclosed-circled-CD", "\u{1F12D}", "CD"),
    ("astral/enclosed-circled-WZ", "\u{1F12E}", "WZ"),
    ("astral/enclosed-squared-A", "\u{1F130}", "A"),
    ("astral/enclosed-squared-Z", "\u{1F149}", "Z"),
    ("astral/enclosed-squared-HV", "\u{1F14A}", "HV"),
    ("astral/enclosed-squared-PPV", "\u{1F14E}", "PPV"),
    ("astral/enclosed-squared-WC", "\u{1F14F}", "WC"),
    ("astral/enclosed-raised-MC", "\u{1F16A}", "MC"),
    ("astral/enclosed-raised-MD", "\u{1F16B}", "MD"),
    ("astral/enclosed-squared-DJ", "\u{1F190}", "DJ"),
    ("astral/enclosed-square-hiragana-hoka", "\u{1F200}", "\u{307B}\u{304B}"),
    ("astral/enclosed-squared-katakana-koko", "\u{1F201}", "\u{30B3}\u{30B3}"),
    ("astral/enclosed-squared-katakana-sa", "\u{1F202}", "\u{30B5}"),
    ("astral/enclosed-squared-cjk-hand", "\u{1F210}", "\u{624B}"),
    ("astral/enclosed-tortoise-shell-cjk-origin", "\u{1F240}", "\u{3014}\u{672C}\u{3015}"),
    ("astral/enclosed-circled-ideograph-advantage", "\u{1F250}", "\u{5F97}"),
    ("astral/enclosed-circled-ideograph-accept", "\u{1F251}", "\u{53EF}"),
    ("astral/segmented-digit-0", "\u{1FBF0}", "0"),
    ("astral/segmented-digit-9", "\u{1FBF9}", "9"),
    ("astral/arabic-math-alef", "\u{1EE00}", "\u{0627}"),
    ("astral/arabic-math-beh", "\u{1EE01}", "\u{0628}"),
    ("astral/kaithi-dddha", "\u{1109A}", "\u{11099}\u{110BA}"),
    ("astral/kaithi-rha", "\u{1109C}", "\u{1109B}\u{110BA}"),
    ("astral/kaithi-va", "\u{110AB}", "\u{110A5}\u{110BA}"),
    ("astral/chakma-vowel-o", "\u{1112E}", "\u{11131}\u{11127}"),
    ("astral/chakma-vowel-au", "\u{1112F}", "\u{11132}\u{11127}"),
    ("astral/grantha-vowel-oo", "\u{1134B}", "\u{11347}\u{1133E}"),
    ("astral/grantha-vowel-au", "\u{1134C}", "\u{11347}\u{11357}"),
    ("astral/tirhuta-vowel-ai", "\u{114BB}", "\u{114B9}\u{114BA}"),
    ("astral/tirhuta-vowel-o", "\u{114BC}", "\u{114B9}\u{114B0}"),
    ("astral/tirhuta-vowel-au", "\u{114BE}", "\u{114B9}\u{114BD}"),
    ("astral/siddham-vowel-o", "\u{115BA}", "\u{115B8}\u{115AF}"),
    ("astral/siddham-vowel-au", "\u{115BB}", "\u{115B9}\u{115AF}"),
    ("astral/dives-akuru-vowel-o", "\u{11938}", "\u{11935}\u{11930}"),
    // ------------------------------------------------------------------
    // hangul: precomposed syllables (must agree with hangul_decompose)
    // ------------------------------------------------------------------
    ("hangul/ga-first", "\u{AC00}", "\u{1100}\u{1161}"),
    ("hangul/gag", "\u{AC01}", "\u{1100}\u{1161}\u{11A8}"),
    ("hangul/gae", "\u{AC1C}", "\u{1100}\u{1162}"),
    ("hangul/gyeog", "\u{ACA9}", "\u{1100}\u{1167}\u{11A8}"),
    ("hangul/geul", "\u{AE00}", "\u{1100}\u{1173}\u{11AF}"),
    ("hangul/na", "\u{B098}", "\u{1102}\u{1161}"),
    ("hangul/nyeong", "\u{B155}", "\u{1102}\u{1167}\u{11BC}"),
    ("hangul/an", "\u{C548}", "\u{110B}\u{1161}\u{11AB}"),
    ("hangul/han", "\u{D55C}", "\u{1112}\u{1161}\u{11AB}"),
    ("hangul/hih-last", "\u{D7A3}", "\u{1112}\u{1175}\u{11C2}"),
    ("hangul/word-hangeul", "\u{D55C}\u{AE00}", "\u{1112}\u{1161}\u{11AB}\u{1100}\u{1173}\u{11AF}"),
    ("hangul/word-annyeong", "\u{C548}\u{B155}", "\u{110B}\u{1161}\u{11AB}\u{1102}\u{1167}\u{11BC}"),
    // LV syllable followed by a conjoining T jamo: the syllable decomposes,
    // the trailing jamo is copied (same NFKD as U+AC01).
    ("hangul/lv-plus-t-jamo", "\u{AC00}\u{11A8}", "\u{1100}\u{1161}\u{11A8}"),
    // ------------------------------------------------------------------
    // mixed: multi-character strings mixing the above
    // ------------------------------------------------------------------
    (
        "mixed/password-like",
        "p\u{00E4}ssw\u{00F6}rd\u{FF11}\u{FF12}\u{FB01}",
        "pa\u{0308}sswo\u{0308}rd12fi",
    ),
    (
        "mixed/angstrom-word",
        "\u{00C5}ngstr\u{00F6}m \u{212B}",
        "A\u{030A}ngstro\u{0308}m A\u{030A}",
    ),
    (
        "mixed/fullwidth-hello-world",
        "\u{FF28}\u{FF45}\u{FF4C}\u{FF4C}\u{FF4F}\u{3000}\u{FF37}\u{FF4F}\u{FF52}\u{FF4C}\u{FF44}\u{FF01}",
        "Hello World!",
    ),
    ("mixed/cafe-numero", "caf\u{00E9} \u{2116}\u{00A0}\u{2464}", "cafe\u{0301} No 5"),
    (
        "mixed/zurich-tm-half-km",
        "Z\u{00FC}rich\u{2122} \u{00BD}\u{339E}",
        "Zu\u{0308}richTM 1\u{2044}2km",
    ),
    ("mixed/circled-roman-super-sub", "\u{2460}\u{2161}\u{00B3}\u{2084}", "1II34"),
    (
        "mixed/halfwidth-katakana-password",
        "\u{FF8A}\u{FF9F}\u{FF7D}\u{FF9C}\u{FF70}\u{FF84}\u{FF9E}",
        "\u{30CF}\u{309A}\u{30B9}\u{30EF}\u{30FC}\u{30C8}\u{3099}",
    ),
    (
        "mixed/katakana-password",
        "\u{30D1}\u{30B9}\u{30EF}\u{30FC}\u{30C9}",
        "\u{30CF}\u{309A}\u{30B9}\u{30EF}\u{30FC}\u{30C8}\u{3099}",
    ),
    (
        "mixed/bip39-japanese-ideographic-space",
        "\u{3042}\u{3044}\u{3053}\u{304F}\u{3057}\u{3093}\u{3000}\u{3042}\u{304A}\u{305E}\u{3089}",
        "\u{3042}\u{3044}\u{3053}\u{304F}\u{3057}\u{3093} \u{3042}\u{304A}\u{305D}\u{3099}\u{3089}",
    ),
    ("mixed/bip39-french", "\u{00E9}l\u{00E8}ve", "e\u{0301}le\u{0300}ve"),
    ("mixed/bip39-spanish-abaco", "\u{00E1}baco", "a\u{0301}baco"),
    ("mixed/bip39-spanish-nino", "ni\u{00F1}o", "nin\u{0303}o"),
    (
        "mixed/bip39-korean-gagyeog",
        "\u{AC00}\u{ACA9}",
        "\u{1100}\u{1161}\u{1100}\u{1167}\u{11A8}",
    ),
    (
        "mixed/vietnamese-tieng-viet",
        "Ti\u{1EBF}ng Vi\u{1EC7}t",
        "Tie\u{0302}\u{0301}ng Vie\u{0323}\u{0302}t",
    ),
    (
        "mixed/greek-polytonic-plus-compat",
        "\u{1F87}\u{2126}\u{00B5}",
        "\u{03B1}\u{0314}\u{0342}\u{0345}\u{03A9}\u{03BC}",
    ),
    (
        "mixed/strasse-long-s-ligature",
        "Stra\u{00DF}e \u{FB05}ra\u{017F}e",
        "Stra\u{00DF}e strase",
    ),
    (
        "mixed/hebrew-arabic-presentation",
        "\u{FB2A}\u{FB4F} \u{FEFB}\u{FDF2}",
        "\u{05E9}\u{05C1}\u{05D0}\u{05DC} \u{0644}\u{0627}\u{0627}\u{0644}\u{0644}\u{0647}",
    ),
    (
        "mixed/astral-math-word",
        "\u{1D407}\u{1D41E}\u{1D425}\u{1D425}\u{1D428}\u{1D7D9}",
        "Hello1",
    ),
    (
        "mixed/reorder-inside-word",
        "qu\u{0301}\u{0323}\u{1EA5}y \u{FF21}\u{0301}\u{0327}",
        "qu\u{0323}\u{0301}a\u{0302}\u{0301}y A\u{0327}\u{0301}",
    ),
];

/// Pairs of strings that are NOT NFKD-equivalent although they look similar.
/// (label, a, b); for every entry NFKD(a) != NFKD(b).
pub const NON_EQUIVALENT: &[(&str, &str, &str)] = &[
    // --- cross-script homoglyphs (NFKD never maps between scripts) ---
    ("homoglyph/latin-A-greek-Alpha", "A", "\u{0391}"),
    ("homoglyph/latin-A-cyrillic-A", "A", "\u{0410}"),
    ("homoglyph/greek-Alpha-cyrillic-A", "\u{0391}", "\u{0410}"),
    ("homoglyph/latin-a-cyrillic-a", "a", "\u{0430}"),
    ("homoglyph/latin-e-cyrillic-ie", "e", "\u{0435}"),
    ("homoglyph/latin-o-greek-omicron", "o", "\u{03BF}"),
    ("homoglyph/latin-o-cyrillic-o", "o", "\u{043E}"),
    ("homoglyph/latin-p-cyrillic-er", "p", "\u{0440}"),
    ("homoglyph/latin-c-cyrillic-es", "c", "\u{0441}"),
    ("homoglyph/latin-I-cyrillic-byelorussian-I", "I", "\u{0406}"),
    ("homoglyph/latin-i-cyrillic-byelorussian-i", "i", "\u{0456}"),
    ("homoglyph/latin-K-greek-Kappa", "K", "\u{039A}"),
    ("homoglyph/ascii-I-l", "I", "l"),
    ("homoglyph/ascii-l-1", "l", "1"),
    ("homoglyph/ascii-O-0", "O", "0"),
    ("homoglyph/cjk-zero-ascii-0", "\u{3007}", "0"),
    ("homoglyph/cjk-one-katakana-prolonged", "\u{4E00}", "\u{30FC}"),
    ("homoglyph/katakana-prolonged-em-dash", "\u{30FC}", "\u{2014}"),
    ("homoglyph/katakana-ha-hiragana-ha", "\u{30CF}", "\u{306F}"),
    ("homoglyph/katakana-he-hiragana-he", "\u{30D8}", "\u{3078}"),
    // --- letters with no decomposition (they are NOT base + mark) ---
    ("nodecomp/sharp-s-vs-ss", "\u{00DF}", "ss"),
    ("nodecomp/capital-sharp-s-vs-SS", "\u{1E9E}", "SS"),
    ("nodecomp/capital-sharp-s-vs-sharp-s", "\u{1E9E}", "\u{00DF}"),
    ("nodecomp/AE-vs-A-E", "\u{00C6}", "AE"),
    ("nodecomp/ae-vs-a-e", "\u{00E6}", "ae"),
    ("nodecomp/oe-vs-o-e", "\u{0153}", "oe"),
    ("nodecomp/o-stroke-vs-o", "\u{00F8}", "o"),
    ("nodecomp/O-stroke-vs-O", "\u{00D8}", "O"),
    ("nodecomp/o-stroke-vs-o-combining-solidus", "\u{00F8}", "o\u{0338}"),
    ("nodecomp/dotless-i-vs-i", "\u{0131}", "i"),
    ("nodecomp/d-stroke-vs-d", "\u{0111}", "d"),
    ("nodecomp/D-stroke-vs-Eth", "\u{0110}", "\u{00D0}"),
    ("nodecomp/Eth-vs-D", "\u{00D0}", "D"),
    ("nodecomp/thorn-vs-th", "\u{00FE}", "th"),
    ("nodecomp/l-stroke-vs-l", "\u{0142}", "l"),
    ("nodecomp/h-stroke-vs-h", "\u{0127}", "h"),
    ("nodecomp/planck-over-2pi-vs-h", "\u{210F}", "h"),
    ("nodecomp/FA0E-vs-FA0F", "\u{FA0E}", "\u{FA0F}"),
    ("nodecomp/FA0E-vs-FA0C-target", "\u{FA0E}", "\u{5140}"),
    // --- case is never folded by NFKD ---
    ("case/A-a", "A", "a"),
    ("case/E-acute", "\u{00C9}", "\u{00E9}"),
    ("case/kelvin-vs-small-k", "\u{212A}", "k"),
    ("case/ohm-vs-small-omega", "\u{2126}", "\u{03C9}"),
    ("case/long-s-vs-capital-S", "\u{017F}", "S"),
    ("case/I-dot-above-vs-I", "\u{0130}", "I"),
    ("case/I-dot-above-vs-i", "\u{0130}", "i"),
    ("case/i-dot-above-vs-i", "i\u{0307}", "i"),
    ("case/roman-numeral-I-vs-small", "\u{2160}", "\u{2170}"),
    ("case/circled-A-vs-circled-a", "\u{24B6}", "\u{24D0}"),
    ("case/fullwidth-A-vs-a", "\u{FF21}", "\u{FF41}"),
    ("case/ligature-fi-vs-FI", "\u{FB01}", "FI"),
    ("case/greek-Iota-dialytika-tonos", "\u{03AA}\u{0301}", "\u{0390}"),
    // --- NFKC_Casefold-only foldings (not performed by NFKD) ---
    ("casefold/sigma-vs-final-sigma", "\u{03C3}", "\u{03C2}"),
    ("casefold/ypogegrammeni-vs-iota", "\u{03B1}\u{0345}", "\u{03B1}\u{03B9}"),
    ("casefold/sharp-s-casefold", "Stra\u{00DF}e", "Strasse"),
    ("casefold/cherokee-small-vs-capital", "\u{AB70}", "\u{13A0}"),
    ("casefold/cyrillic-rounded-ve", "\u{1C80}", "\u{0432}"),
    ("casefold/soft-hyphen-kept", "a\u{00AD}b", "ab"),
    ("casefold/zero-width-space-kept", "a\u{200B}b", "ab"),
    ("casefold/zero-width-joiner-kept", "a\u{200D}b", "ab"),
    ("casefold/bom-kept", "\u{FEFF}ab", "ab"),
    ("casefold/cgj-kept", "a\u{034F}b", "ab"),
    ("casefold/variation-selector-kept", "a\u{FE0F}", "a"),
    // --- with vs without accent, or with a different accent ---
    ("accent/e-vs-e-acute", "e", "\u{00E9}"),
    ("accent/acute-vs-grave", "e\u{0301}", "e\u{0300}"),
    ("accent/A-ring-vs-A-diaeresis", "\u{00C5}", "\u{00C4}"),
    ("accent/ring-above-vs-ring-below", "\u{00E5}", "a\u{0325}"),
    ("accent/combining-ring-vs-spacing-ring", "A\u{030A}", "A\u{02DA}"),
    ("accent/s-comma-below-vs-s-cedilla", "\u{0219}", "\u{015F}"),
    ("accent/alpha-tonos-vs-alpha-varia", "\u{03AC}", "\u{1F70}"),
    ("accent/devanagari-ka-vs-qa", "\u{0915}", "\u{0958}"),
    ("accent/hiragana-ka-vs-ga", "\u{304B}", "\u{304C}"),
    ("accent/hiragana-ba-vs-pa", "\u{3070}", "\u{3071}"),
    ("accent/cyrillic-i-vs-short-i", "\u{0438}", "\u{0439}"),
    ("accent/cyrillic-ie-vs-io", "\u{0435}", "\u{0451}"),
    // --- same combining class: relative order is significant ---
    ("order/acute-diaeresis-vs-diaeresis-acute", "a\u{0301}\u{0308}", "a\u{0308}\u{0301}"),
    ("order/dot-below-macron-below", "a\u{0323}\u{0331}", "a\u{0331}\u{0323}"),
    ("order/cedilla-ogonek", "c\u{0327}\u{0328}", "c\u{0328}\u{0327}"),
    ("order/kana-voiced-semivoiced", "\u{304B}\u{3099}\u{309A}", "\u{304B}\u{309A}\u{3099}"),
    ("order/cgj-blocks-reordering", "a\u{0301}\u{034F}\u{0323}", "a\u{0323}\u{0301}"),
    ("order/u-diaeresis-macron-vs-u-macron-diaeresis", "\u{01D6}", "\u{1E7B}"),
    // --- punctuation / symbol look-alikes ---
    ("lookalike/micro-sign-vs-u", "\u{00B5}", "u"),
    ("lookalike/greek-mu-vs-u", "\u{03BC}", "u"),
    ("lookalike/hyphen-vs-hyphen-minus", "\u{2010}", "-"),
    ("lookalike/non-breaking-hyphen-vs-hyphen-minus", "\u{2011}", "-"),
    ("lookalike/minus-sign-vs-hyphen-minus", "\u{2212}", "-"),
    ("lookalike/en-dash-vs-hyphen-minus", "\u{2013}", "-"),
    ("lookalike/fraction-slash-vs-solidus", "\u{2044}", "/"),
    ("lookalike/one-half-vs-1-solidus-2", "\u{00BD}", "1/2"),
    ("lookalike/division-slash-vs-solidus", "\u{2215}", "/"),
    ("lookalike/right-single-quote-vs-apostrophe", "\u{2019}", "'"),
    ("lookalike/left-double-quote-vs-quotation", "\u{201C}", "\""),
    ("lookalike/prime-vs-apostrophe", "\u{2032}", "'"),
    ("lookalike/modifier-apostrophe-vs-apostrophe", "\u{02BC}", "'"),
    ("lookalike/n-apostrophe-vs-ascii", "\u{0149}", "'n"),
    ("lookalike/greek-numeral-sign-vs-prime", "\u{0374}", "\u{2032}"),
    ("lookalike/middle-dot-vs-full-stop", "\u{00B7}", "."),
    ("lookalike/ano-teleia-vs-full-stop", "\u{0387}", "."),
    ("lookalike/katakana-middle-dot-vs-middle-dot", "\u{30FB}", "\u{00B7}"),
    ("lookalike/ideographic-comma-vs-comma", "\u{3001}", ","),
    ("lookalike/ideographic-full-stop-vs-full-stop", "\u{3002}", "."),
    ("lookalike/degree-vs-masculine-ordinal", "\u{00B0}", "\u{00BA}"),
    ("lookalike/degree-vs-ring-above-spacing", "\u{00B0}", "\u{02DA}"),
    // --- whitespace that NFKD does NOT map to U+0020 ---
    ("whitespace/tab-vs-space", "\t", " "),
    ("whitespace/ogham-space-mark-vs-space", "\u{1680}", " "),
    ("whitespace/line-separator-vs-newline", "\u{2028}", "\n"),
    ("whitespace/zero-width-space-vs-space", "\u{200B}", " "),
    ("whitespace/nbsp-vs-nothing", "a\u{00A0}b", "ab"),
    ("whitespace/double-space-vs-single", "a\u{3000}\u{3000}b", "a b"),
    // --- Hangul: leading vs trailing consonant jamo are distinct ---
    ("jamo/choseong-vs-jongseong-kiyeok", "\u{1100}", "\u{11A8}"),
    ("jamo/compat-kiyeok-vs-jongseong", "\u{3131}", "\u{11A8}"),
    ("jamo/gag-vs-ga-plus-choseong", "\u{AC01}", "\u{AC00}\u{1100}"),
    ("jamo/ga-vs-gae", "\u{AC00}", "\u{AC1C}"),
];

/// Arithmetic Hangul syllable decomposition (Unicode Standard, section 3.12,
/// "Conjoining Jamo Behavior"): for `c` in U+AC00..=U+D7A3 returns the two or
/// three conjoining jamo (L, V, optional T) as a `String`; `None` otherwise.
pub fn hangul_decompose(c: char) -> Option<String> {
    const S_BASE: u32 = 0xAC00;
    const L_BASE: u32 = 0x1100;
    const V_BASE: u32 = 0x1161;
    const T_BASE: u32 = 0x11A7;
    const L_COUNT: u32 = 19;
    const V_COUNT: u32 = 21;
    const T_COUNT: u32 = 28;
    const N_COUNT: u32 = V_COUNT * T_COUNT; // 588
    const S_COUNT: u32 = L_COUNT * N_COUNT; // 11172

    let s = c as u32;
    if s < S_BASE || s >= S_BASE + S_COUNT {
        return None;
    }
    let s_index = s - S_BASE;
    let l = L_BASE + s_index / N_COUNT;
    let v = V_BASE + (s_index % N_COUNT) / T_COUNT;
    let t_index = s_index % T_COUNT;

    let mut out = String::with_capacity(9);
    out.push(char::from_u32(l)?);
    out.push(char::from_u32(v)?);
    if t_index != 0 {
        out.push(char::from_u32(T_BASE + t_index)?);
    }
    Some(out)
}

#[cfg(test)]
mod self_consistency {
    //! std-only internal checks (no external crate).
    use super::*;
    use std::collections::HashSet;

    #[test]
    fn sizes() {
        assert!(PAIRS.len() >= 150, "PAIRS has {}", PAIRS.len());
        assert!(NON_EQUIVALENT.len() >= 25, "NON_EQUIVALENT has {}", NON_EQUIVALENT.len());
    }

    #[test]
    fn labels_unique_and_sides_differ() {
        let mut seen = HashSet::new();
        for (label, a, b) in PAIRS.iter().chain(NON_EQUIVALENT.iter()) {
            assert!(seen.insert(*label), "duplicate label {label}");
            assert_ne!(a, b, "{label}: both sides identical");
            assert!(!a.is_empty() && !b.is_empty(), "{label}: empty side");
        }
    }

    #[test]
    fn hangul_pairs_agree_with_arithmetic() {
        let mut n = 0;
        for (label, a, b) in PAIRS {
            if !label.starts_with("hangul/") {
                continue;
            }
            // Every char of `a` that is a precomposed syllable is expanded
            // arithmetically; conjoining jamo already present are copied.
            let mut expect = String::new();
            for c in a.chars() {
                match hangul_decompose(c) {
                    Some(s) => expect.push_str(&s),
                    None => expect.push(c),
                }
            }
            assert_eq!(&expect, b, "{label}");
            n += 1;
        }
        assert!(n >= 5, "only {n} hangul entries");
    }

    #[test]
    fn hangul_bounds() {
        assert_eq!(hangul_decompose('\u{AC00}').as_deref(), Some("\u{1100}\u{1161}"));
        assert_eq!(
            hangul_decompose('\u{D7A3}').as_deref(),
            Some("\u{1112}\u{1175}\u{11C2}")
        );
        assert_eq!(hangul_decompose('\u{ABFF}'), None);
        assert_eq!(hangul_decompose('\u{D7A4}'), None);
        assert_eq!(hangul_decompose('A'), None);
        assert_eq!(hangul_decompose('\u{1100}'), None);
        let count = (0u32..=0x10FFFF)
            .filter_map(char::from_u32)
            .filter(|c| hangul_decompose(*c).is_some())
            .count();
        assert_eq!(count, 11172);
    }
}
