//! Exact value of a JSON number literal (RFC 8259 grammar) as an
//! arbitrary-precision decimal: sign, digit string, power-of-ten exponent.

use super::u256::Big;

#[derive(Clone, Debug, PartialEq, Eq)]
pub struct Exact {
    pub negative: bool,
    /// Some(n) iff the literal's mathematical value is an integer of magnitude n
    /// (magnitudes above 10^400 are reported as `huge`)
    pub integer: Option<Big>,
    pub huge: bool,
    pub is_zero: bool,
    /// literal uses '.', 'e' or 'E'
    pub float_syntax: bool,
}

/// Parses a JSON number literal. Returns None if `s` is not one.
pub fn parse(s: &str) -> Option<Exact> {
    let b = s.as_bytes();
    let mut i = 0;
    let negative = b.first() == Some(&b'-');
    if negative {
        i += 1;
    }
    let int_start = i;
    while i < b.len() && b[i].is_ascii_digit() {
        i += 1;
    }
    let int_part = &s[int_start..i];
    if int_part.is_empty() || (int_part.len() > 1 && int_part.starts_with('0')) {
        return None;
    }
    let mut frac = "";
    let mut float_syntax = false;
    if i < b.len() && b[i] == b'.' {
        float_syntax = true;
        i += 1;
        let fs = i;
        while i < b.len() && b[i].is_ascii_digit() {
            i += 1;
        }
        frac = &s[fs..i];
        if frac.is_empty() {
            return None;
        }
    }
    let mut exp: i64 = 0;
    if i < b.len() && (b[i] == b'e' || b[i] == b'E') {
        float_syntax = true;
        i += 1;
        let mut neg = false;
        if i < b.len() && (b[i] == b'+' || b[i] == b'-') {
            neg = b[i] == b'-';
            i += 1;
        }
        let es = i;
        while i < b.len() && b[i].is_ascii_digit() {
            i += 1;
        }
        let e = &s[es..i];
        if e.is_empty() {
            return None;
        }
        // clamp absurd exponents; anything beyond +-100000 is decided by sign alone
        let v: i64 = if e.trim_start_matches('0').len() > 6 { 1_000_000 } else { e.parse().ok()? };
        exp = if neg { -v } else { v };
    }
    if i != b.len() {
        return None;
    }
    // digits = int_part ++ frac, value = digits * 10^(exp - len(frac))
    let mut digits: String = format!("{int_part}{frac}");
    let mut e10 = exp - frac.len() as i64;
    let stripped = digits.trim_start_matches('0').to_string();
    if stripped.is_empty() {
        return Some(Exact { negative, integer: Some(Big::zero()), huge: false, is_zero: true, float_syntax });
    }
    digits = stripped;
    // move trailing zeros into the exponent
    while digits.ends_with('0') {
        digits.pop();
        e10 += 1;
    }
    if e10 < 0 {
        return Some(Exact { negative, integer: None, huge: false, is_zero: false, float_syntax });
    }
    if digits.len() as i64 + e10 > 400 {
        return Some(Exact { negative, integer: None, huge: true, is_zero: false, float_syntax });
    }
    let mut v = Big::from_dec(&digits)?;
    for _ in 0..e10 {
        v = v.mul_small(10);
    }
    Some(Exact { negative, integer: Some(v), huge: false, is_zero: false, float_syntax })
}

/// The literal denotes an integer in [0, 2^256): returns it.
pub fn as_u256(s: &str) -> Option<Big> {
    let e = parse(s)?;
    let v = e.integer?;
    if e.negative && !v.is_zero() {
        return None;
    }
    v.fits_256().then_some(v)
}

#[cfg(test)]
mod tests {
    use super::*;
    #[test]
    fn literals() {
        assert_eq!(as_u256("0"), Some(Big::zero()));
        assert_eq!(as_u256("1.0"), Some(Big::from_u128(1)));
        assert_eq!(as_u256("1e3"), Some(Big::from_u128(1000)));
        assert_eq!(as_u256("12.5e1"), Some(Big::from_u128(125)));
        assert_eq!(as_u256("1.0000000000000000001"), None);
        assert_eq!(as_u256("1e-400"), None);
        assert_eq!(as_u256("10e-1"), Some(Big::from_u128(1)));
        assert_eq!(as_u256("-1"), None);
        assert_eq!(as_u256("-0"), Some(Big::zero()));
        assert_eq!(as_u256("1e77").map(|b| b.fits_256()), Some(true));
        assert_eq!(as_u256("1e78"), None);
        assert!(parse("01").is_none() && parse("1.").is_none() && parse(".5").is_none() && parse("1e").is_none());
        assert_eq!(Big::from_dec("115792089237316195423570985008687907853269984665640564039457584007913129639936").unwrap(), Big::pow2(256));
        assert_eq!(Big::pow2(256).to_dec(), "115792089237316195423570985008687907853269984665640564039457584007913129639936");
        assert_eq!(Big::pow2(64).sub(&Big::from_u128(1)).unwrap().to_hex(), "ffffffffffffffff");
    }
}
