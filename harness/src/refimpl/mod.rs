//! Independent reference implementations used as oracles. Nothing in here
//! calls into hdwallet.

pub mod bip32;
pub mod bip39;
pub mod eip712;
pub mod jsonnum;
pub mod nfkd_pairs;
pub mod rfc6979;
pub mod rlp;
pub mod secp;
pub mod tx;
pub mod u256;

use sha3::{Digest as _, Keccak256};

/// Keccak-256 through the `sha3` crate (hdwallet uses ethdigest's built-in).
pub fn keccak(data: &[u8]) -> [u8; 32] {
    let mut h = Keccak256::new();
    h.update(data);
    h.finalize().into()
}

pub fn keccak_parts(parts: &[&[u8]]) -> [u8; 32] {
    let mut h = Keccak256::new();
    for p in parts {
        h.update(p);
    }
    h.finalize().into()
}

const HEXD: &[u8; 16] = b"0123456789abcdef";

/// Lower-case hex without prefix (own digit loop, not the `hex` crate).
pub fn hex_lower(data: &[u8]) -> String {
    let mut s = String::with_capacity(data.len() * 2);
    for b in data {
        s.push(HEXD[(b >> 4) as usize] as char);
        s.push(HEXD[(b & 15) as usize] as char);
    }
    s
}

pub fn hex0x(data: &[u8]) -> String {
    format!("0x{}", hex_lower(data))
}

/// Strict hex decode: even length, [0-9a-fA-F] only, no prefix.
pub fn unhex(s: &str) -> Option<Vec<u8>> {
    let b = s.as_bytes();
    if b.len() % 2 != 0 {
        return None;
    }
    fn nib(c: u8) -> Option<u8> {
        match c {
            b'0'..=b'9' => Some(c - b'0'),
            b'a'..=b'f' => Some(c - b'a' + 10),
            b'A'..=b'F' => Some(c - b'A' + 10),
            _ => None,
        }
    }
    let mut out = Vec::with_capacity(b.len() / 2);
    for p in b.chunks(2) {
        out.push((nib(p[0])? << 4) | nib(p[1])?);
    }
    Some(out)
}

/// EIP-55 rendering of a 20-byte address.
pub fn eip55(addr: &[u8; 20]) -> String {
    let lower = hex_lower(addr);
    let h = keccak(lower.as_bytes());
    let mut out = String::from("0x");
    for (i, c) in lower.chars().enumerate() {
        let nibble = if i % 2 == 0 { h[i / 2] >> 4 } else { h[i / 2] & 15 };
        if c.is_ascii_alphabetic() && nibble >= 8 {
            out.push(c.to_ascii_uppercase());
        } else {
            out.push(c);
        }
    }
    out
}

/// Address of a public key given as affine coordinates.
pub fn address_of(p: &secp::Point) -> [u8; 20] {
    let h = keccak_parts(&[&p.x, &p.y]);
    let mut a = [0u8; 20];
    a.copy_from_slice(&h[12..]);
    a
}

/// Decimal rendering by an own digit loop.
pub fn dec(mut n: u128) -> String {
    if n == 0 {
        return "0".into();
    }
    let mut d = vec![];
    while n > 0 {
        d.push(b'0' + (n % 10) as u8);
        n /= 10;
    }
    d.reverse();
    String::from_utf8(d).unwrap()
}

/// EIP-191 personal-message digest.
pub fn eip191(m: &[u8]) -> [u8; 32] {
    let len = dec(m.len() as u128);
    keccak_parts(&[b"\x19Ethereum Signed Message:\n", len.as_bytes(), m])
}

/// PBKDF2-HMAC-SHA512 written out (U_1..U_c XOR loop).
pub fn pbkdf2_hmac_sha512(password: &[u8], salt: &[u8], rounds: u32, out_len: usize) -> Vec<u8> {
    use hmac::{Hmac, Mac};
    use sha2::Sha512;
    let mut out = Vec::with_capacity(out_len + 64);
    let mut block: u32 = 1;
    while out.len() < out_len {
        let mut mac = Hmac::<Sha512>::new_from_slice(password).expect("hmac key");
        mac.update(salt);
        mac.update(&block.to_be_bytes());
        let mut u: [u8; 64] = mac.finalize().into_bytes().into();
        let mut t = u;
        for _ in 1..rounds {
            let mut mac = Hmac::<Sha512>::new_from_slice(password).expect("hmac key");
            mac.update(&u);
            u = mac.finalize().into_bytes().into();
            for i in 0..64 {
                t[i] ^= u[i];
            }
        }
        out.extend_from_slice(&t);
        block += 1;
    }
    out.truncate(out_len);
    out
}

pub fn hmac_sha512(key: &[u8], parts: &[&[u8]]) -> [u8; 64] {
    use hmac::{Hmac, Mac};
    use sha2::Sha512;
    let mut mac = Hmac::<Sha512>::new_from_slice(key).expect("hmac key");
    for p in parts {
        mac.update(p);
    }
    mac.finalize().into_bytes().into()
}

pub fn hmac_sha256(key: &[u8], parts: &[&[u8]]) -> [u8; 32] {
    use hmac::{Hmac, Mac};
    use sha2::Sha256;
    let mut mac = Hmac::<Sha256>::new_from_slice(key).expect("hmac key");
    for p in parts {
        mac.update(p);
    }
    mac.finalize().into_bytes().into()
}

pub fn sha256(data: &[u8]) -> [u8; 32] {
    use sha2::{Digest, Sha256};
    let mut h = Sha256::new();
    h.update(data);
    h.finalize().into()
}
