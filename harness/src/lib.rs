//! hdv — property-based verification harness for nlordell/hdwallet.

pub mod cli;
pub mod engine;
pub mod entropy;
pub mod fuzz;
pub mod fuzzrun;
pub mod gen;
pub mod isolate;
pub mod props;
pub mod refimpl;
pub mod selftest;
