//! Transaction record generator and JSON rendering.

use super::json::J;
use super::num::u256_boundary;
use super::U;
use crate::refimpl::tx::{kind_from_keys, Kind, TxModel};
use crate::refimpl::u256::Big;
use crate::refimpl::{eip55, hex0x};
use serde::{Deserialize, Serialize};

#[derive(Clone, Debug, Serialize, Deserialize)]
pub struct TxCase {
    pub doc: String,
    pub model: TxModel,
    /// how the recipient was written: "absent", "null", "address"
    pub to_form: String,
}

#[derive(Clone, Copy, Debug, PartialEq, Eq)]
pub enum Shape {
    LegacyNoChain,
    LegacyChain,
    Eip2930,
    Eip1559,
    Eip1559NoList,
}

pub const SHAPES: [Shape; 5] =
    [Shape::LegacyNoChain, Shape::LegacyChain, Shape::Eip2930, Shape::Eip1559, Shape::Eip1559NoList];

pub fn plain_number(x: &Big, u: &mut U) -> J {
    if x.bit_len() <= 64 && u.ratio(2, 3) {
        J::Num(x.to_dec())
    } else if u.bool() {
        J::Str(x.to_dec())
    } else {
        J::Str(format!("0x{}", x.to_hex()))
    }
}

pub fn calldata_len(u: &mut U, max_uniform: usize) -> usize {
    match u.below(14) {
        0 => 0,
        1 => 1,
        2 => 2,
        3 => 31,
        4 => 32,
        5 => 55,
        6 => 56,
        7 => 57,
        8 => 255,
        9 => 256,
        _ => u.below(max_uniform + 1),
    }
}

pub fn gen_access_list(u: &mut U) -> Vec<([u8; 20], Vec<[u8; 32]>)> {
    let n = u.below(5);
    let mut out: Vec<([u8; 20], Vec<[u8; 32]>)> = vec![];
    for _ in 0..n {
        let addr: [u8; 20] = if !out.is_empty() && u.ratio(1, 5) {
            out[u.below(out.len())].0
        } else {
            gen_address(u)
        };
        let ns = u.below(5);
        let mut slots: Vec<[u8; 32]> = vec![];
        for _ in 0..ns {
            let s: [u8; 32] = if !slots.is_empty() && u.ratio(1, 5) {
                slots[u.below(slots.len())]
            } else {
                let mut s = [0u8; 32];
                match u.below(4) {
                    0 => {}
                    1 => s[31] = u.byte(),
                    2 => {
                        let b = u.bytes(32);
                        s.copy_from_slice(&b);
                        s[0] = 0;
                    }
                    _ => s.copy_from_slice(&u.bytes(32)),
                }
                s
            };
            slots.push(s);
        }
        out.push((addr, slots));
    }
    out
}

pub fn gen_address(u: &mut U) -> [u8; 20] {
    let mut a = [0u8; 20];
    match u.below(6) {
        0 => {}
        1 => {
            a.copy_from_slice(&u.bytes(20));
            a[0] = 0;
            a[1] = 0;
        }
        2 => a = [0xff; 20],
        _ => a.copy_from_slice(&u.bytes(20)),
    }
    a
}

pub fn gen_model(u: &mut U, shape: Shape, max_data: usize) -> (TxModel, String) {
    let to_form = ["absent", "null", "address", "address"][u.below(4)].to_string();
    let to = if to_form == "address" { Some(gen_address(u)) } else { None };
    let dl = calldata_len(u, max_data);
    let mut data = u.bytes(dl);
    if dl == 1 {
        data[0] = [0x00, 0x7f, 0x80, 0xff, data[0]][u.below(5)];
    }
    if u.ratio(1, 8) {
        // calldata that begins with a selector every tool knows (ERC-20 / ERC-721 / WETH / permit / multicall),
        // followed by no, short, exact, odd-sized or over-long arguments: code that "understands" such calls
        // (summaries, decoders, allow-lists) meets them here, complete and truncated
        const SELECTORS: [[u8; 4]; 12] = [
            [0xa9, 0x05, 0x9c, 0xbb], [0x09, 0x5e, 0xa7, 0xb3], [0x23, 0xb8, 0x72, 0xdd], [0x70, 0xa0, 0x82, 0x31], [0xd0, 0xe3, 0x0d, 0xb0], [0x2e, 0x1a, 0x7d, 0x4d],
            [0xd5, 0x05, 0xac, 0xcf], [0x42, 0x84, 0x2e, 0x0e], [0xac, 0x96, 0x50, 0xd8], [0xa2, 0x2c, 0xb4, 0x65], [0x60, 0x80, 0x60, 0x40], [0x00, 0x00, 0x00, 0x00],
        ];
        let n = [0usize, 1, 31, 32, 33, 63, 64, 65, 67, 68, 96, 100][u.below(12)].min(max_data.saturating_sub(4).max(0));
        let mut d = SELECTORS[u.below(SELECTORS.len())].to_vec();
        if u.ratio(1, 6) {
            d.truncate(1 + u.below(3));
        } else {
            let mut args = u.bytes(n);
            if u.bool() {
                // ABI-looking words: left-padded address / small amount
                for (i, b) in args.iter_mut().enumerate() {
                    if i % 32 < 12 {
                        *b = 0;
                    }
                }
            }
            d.extend(args);
        }
        data = d;
    }
    let kind = match shape {
        Shape::LegacyNoChain | Shape::LegacyChain => Kind::Legacy,
        Shape::Eip2930 => Kind::Eip2930,
        _ => Kind::Eip1559,
    };
    let chain_id = if shape == Shape::LegacyNoChain { None } else { Some(gen_chain_id(u, kind == Kind::Legacy)) };
    let model = TxModel {
        kind,
        chain_id,
        nonce: u256_boundary(u),
        gas_price: if kind == Kind::Eip1559 { Big::zero() } else { u256_boundary(u) },
        max_priority_fee: if kind == Kind::Eip1559 { u256_boundary(u) } else { Big::zero() },
        max_fee: if kind == Kind::Eip1559 { u256_boundary(u) } else { Big::zero() },
        gas: u256_boundary(u),
        to,
        value: u256_boundary(u),
        data,
        access_list: if matches!(shape, Shape::Eip2930 | Shape::Eip1559) { gen_access_list(u) } else { vec![] },
    };
    (model, to_form)
}

/// chain ids; legacy ones stay at or below c_max (larger ones are C11's subject)
pub fn gen_chain_id(u: &mut U, legacy: bool) -> Big {
    let c = match u.below(8) {
        0 => Big::zero(),
        1 | 2 => Big::from_u128(1),
        3 => Big::from_u128([5u128, 137, 1337, 11155111, 1u128 << 32, (1u128 << 63), u64::MAX as u128][u.below(7)]),
        4 => Big::from_u128(u.u64() as u128),
        _ => u256_boundary(u),
    };
    if legacy && c > crate::refimpl::tx::c_max() {
        crate::refimpl::tx::c_max()
    } else {
        c
    }
}

pub fn render_access_list(al: &[([u8; 20], Vec<[u8; 32]>)], u: &mut U) -> J {
    J::Arr(
        al.iter()
            .map(|(a, slots)| {
                let addr = match u.below(4) {
                    0 | 1 => hex0x(a),
                    2 => eip55(a),
                    _ => format!("0x{}", hex0x(a)[2..].to_uppercase()),
                };
                J::Arr(vec![J::Str(addr), J::Arr(slots.iter().map(|s| J::Str(hex0x(s))).collect())])
            })
            .collect(),
    )
}

/// Renders with a number renderer `num(field, value)`.
pub fn render_with(
    model: &TxModel,
    shape: Shape,
    to_form: &str,
    u: &mut U,
    num: &mut dyn FnMut(&str, &Big, &mut U) -> J,
) -> J {
    let mut kv: Vec<(String, J)> = vec![];
    if let Some(c) = &model.chain_id {
        kv.push(("chainId".into(), num("chainId", c, u)));
    }
    kv.push(("nonce".into(), num("nonce", &model.nonce, u)));
    if model.kind == Kind::Eip1559 {
        kv.push(("maxPriorityFeePerGas".into(), num("maxPriorityFeePerGas", &model.max_priority_fee, u)));
        kv.push(("maxFeePerGas".into(), num("maxFeePerGas", &model.max_fee, u)));
    } else {
        kv.push(("gasPrice".into(), num("gasPrice", &model.gas_price, u)));
    }
    kv.push(("gas".into(), num("gas", &model.gas, u)));
    match to_form {
        "absent" => {}
        "null" => kv.push(("to".into(), J::Null)),
        _ => {
            let a = model.to.expect("address form has recipient");
            kv.push((
                "to".into(),
                J::Str(match u.below(4) {
                    0 | 1 => hex0x(&a),
                    2 => eip55(&a),
                    _ => format!("0x{}", hex0x(&a)[2..].to_uppercase()),
                }),
            ));
        }
    }
    kv.push(("value".into(), num("value", &model.value, u)));
    kv.push(("data".into(), J::Str(hex0x(&model.data))));
    if matches!(shape, Shape::Eip2930 | Shape::Eip1559) {
        kv.push(("accessList".into(), render_access_list(&model.access_list, u)));
    }
    u.shuffle(&mut kv);
    let keys: Vec<&str> = kv.iter().map(|(k, _)| k.as_str()).collect();
    assert_eq!(kind_from_keys(keys), model.kind, "generator/kind-rule disagreement");
    J::Obj(kv)
}

pub fn gen_case_shape(u: &mut U, shape: Shape, max_data: usize) -> TxCase {
    let (model, to_form) = gen_model(u, shape, max_data);
    let style = u.u64();
    let doc = render_with(&model, shape, &to_form, u, &mut |_, x, u| plain_number(x, u)).render_styled(style);
    TxCase { doc, model, to_form }
}

pub fn gen_case(u: &mut U, max_data: usize) -> TxCase {
    let shape = SHAPES[u.below(5)];
    gen_case_shape(u, shape, max_data)
}

pub fn shape_of(model: &TxModel, has_list_key: bool) -> Shape {
    match (model.kind, &model.chain_id) {
        (Kind::Legacy, None) => Shape::LegacyNoChain,
        (Kind::Legacy, Some(_)) => Shape::LegacyChain,
        (Kind::Eip2930, _) => Shape::Eip2930,
        (Kind::Eip1559, _) => {
            if has_list_key {
                Shape::Eip1559
            } else {
                Shape::Eip1559NoList
            }
        }
    }
}
