//! A tiny JSON document model whose number literals are free text, so that
//! generated documents can spell numbers in any way.

#[derive(Clone, Debug, PartialEq)]
pub enum J {
    Null,
    Bool(bool),
    /// a number literal, emitted verbatim
    Num(String),
    Str(String),
    Arr(Vec<J>),
    Obj(Vec<(String, J)>),
    /// raw text emitted verbatim (for malformed fragments)
    Raw(String),
}

pub fn escape(s: &str, out: &mut String) {
    out.push('"');
    for c in s.chars() {
        match c {
            '"' => out.push_str("\\\""),
            '\\' => out.push_str("\\\\"),
            '\n' => out.push_str("\\n"),
            '\r' => out.push_str("\\r"),
            '\t' => out.push_str("\\t"),
            c if (c as u32) < 0x20 => out.push_str(&format!("\\u{:04x}", c as u32)),
            c => out.push(c),
        }
    }
    out.push('"');
}

impl J {
    pub fn render_into(&self, out: &mut String) {
        match self {
            J::Null => out.push_str("null"),
            J::Bool(b) => out.push_str(if *b { "true" } else { "false" }),
            J::Num(n) | J::Raw(n) => out.push_str(n),
            J::Str(s) => escape(s, out),
            J::Arr(a) => {
                out.push('[');
                for (i, x) in a.iter().enumerate() {
                    if i > 0 {
                        out.push(',');
                    }
                    x.render_into(out);
                }
                out.push(']');
            }
            J::Obj(o) => {
                out.push('{');
                for (i, (k, v)) in o.iter().enumerate() {
                    if i > 0 {
                        out.push(',');
                    }
                    escape(k, out);
                    out.push(':');
                    v.render_into(out);
                }
                out.push('}');
            }
        }
    }
    pub fn render(&self) -> String {
        let mut s = String::new();
        self.render_into(&mut s);
        s
    }
    pub fn str(s: impl Into<String>) -> J {
        J::Str(s.into())
    }
    pub fn num(s: impl Into<String>) -> J {
        J::Num(s.into())
    }
    pub fn obj_get_mut(&mut self, key: &str) -> Option<&mut J> {
        match self {
            J::Obj(o) => o.iter_mut().find(|(k, _)| k == key).map(|(_, v)| v),
            _ => None,
        }
    }
}

/// Semantics-preserving re-spelling of the JSON text (RFC 8259): optional white space around every
/// structural token, and string characters written as escapes (\uXXXX for any character incl. ASCII
/// letters, surrogate pairs for astral characters, \/ for '/', the short escapes). Number literals and
/// raw fragments are emitted verbatim. Driven by a seed; style 0 is the compact rendering.
pub struct Styler {
    state: u64,
    /// per-mille probability of escaping a string character
    pub escape_pm: u64,
    /// per-mille probability of white space at a token boundary
    pub ws_pm: u64,
}

impl Styler {
    pub fn new(seed: u64) -> Styler {
        let mut s = Styler { state: seed | 1, escape_pm: 0, ws_pm: 0 };
        let r = s.next();
        s.escape_pm = [0, 0, 30, 200, 1000][(r % 5) as usize];
        s.ws_pm = [0, 100, 600][((r >> 8) % 3) as usize];
        s
    }
    fn next(&mut self) -> u64 {
        self.state = self.state.wrapping_add(0x9e3779b97f4a7c15);
        let mut z = self.state;
        z = (z ^ (z >> 30)).wrapping_mul(0xbf58476d1ce4e5b9);
        z = (z ^ (z >> 27)).wrapping_mul(0x94d049bb133111eb);
        z ^ (z >> 31)
    }
    fn ws(&mut self, out: &mut String) {
        if self.next() % 1000 < self.ws_pm {
            out.push_str([" ", "\n", "\t", "\r\n", "  ", "\n    "][(self.next() % 6) as usize]);
        }
    }
    fn string(&mut self, s: &str, out: &mut String) {
        out.push('"');
        for c in s.chars() {
            let must = matches!(c, '"' | '\\') || (c as u32) < 0x20;
            if must || self.next() % 1000 < self.escape_pm {
                match c {
                    '"' if self.next() % 2 == 0 => out.push_str("\\\""),
                    '\\' if self.next() % 2 == 0 => out.push_str("\\\\"),
                    '\n' if self.next() % 2 == 0 => out.push_str("\\n"),
                    '\r' if self.next() % 2 == 0 => out.push_str("\\r"),
                    '\t' if self.next() % 2 == 0 => out.push_str("\\t"),
                    '/' if self.next() % 2 == 0 => out.push_str("\\/"),
                    c => {
                        let mut buf = [0u16; 2];
                        for unit in c.encode_utf16(&mut buf) {
                            if self.next() % 2 == 0 {
                                out.push_str(&format!("\\u{:04x}", unit));
                            } else {
                                out.push_str(&format!("\\u{:04X}", unit));
                            }
                        }
                    }
                }
            } else {
                out.push(c);
            }
        }
        out.push('"');
    }
    pub fn render(&mut self, j: &J, out: &mut String) {
        match j {
            J::Null => out.push_str("null"),
            J::Bool(b) => out.push_str(if *b { "true" } else { "false" }),
            J::Num(n) | J::Raw(n) => out.push_str(n),
            J::Str(s) => self.string(s, out),
            J::Arr(a) => {
                out.push('[');
                self.ws(out);
                for (i, x) in a.iter().enumerate() {
                    if i > 0 {
                        self.ws(out);
                        out.push(',');
                        self.ws(out);
                    }
                    self.render(x, out);
                }
                self.ws(out);
                out.push(']');
            }
            J::Obj(o) => {
                out.push('{');
                self.ws(out);
                for (i, (k, v)) in o.iter().enumerate() {
                    if i > 0 {
                        self.ws(out);
                        out.push(',');
                        self.ws(out);
                    }
                    self.string(k, out);
                    self.ws(out);
                    out.push(':');
                    self.ws(out);
                    self.render(v, out);
                }
                self.ws(out);
                out.push('}');
            }
        }
    }
}

impl J {
    /// Renders with a seeded style (see `Styler`); seed % 3 == 0 gives the compact form.
    pub fn render_styled(&self, seed: u64) -> String {
        if seed % 3 == 0 {
            return self.render();
        }
        let mut st = Styler::new(seed);
        let mut out = String::new();
        st.ws(&mut out);
        st.render(self, &mut out);
        st.ws(&mut out);
        out
    }
}

#[cfg(test)]
mod tests {
    use super::*;
    #[test]
    fn styled_is_equivalent() {
        let j = J::Obj(vec![
            ("ty/pe\"\\".into(), J::Str("uint256 \u{e9}\u{1f600}\n\u{1}".into())),
            ("n".into(), J::Num("1e3".into())),
            ("a".into(), J::Arr(vec![J::Null, J::Bool(true), J::Obj(vec![])])),
        ]);
        let plain: serde_json::Value = serde_json::from_str(&j.render()).unwrap();
        for seed in 0..500u64 {
            let t = j.render_styled(seed);
            let v: serde_json::Value = serde_json::from_str(&t).unwrap_or_else(|e| panic!("{e}: {t}"));
            assert_eq!(v, plain, "{t}");
        }
    }
}
