//! A tiny JSON document model whose number literals are free text, so that
//! generated documents can spell numbers in any way.

#[derive(Clone, Debug, PartialEq)]
pub enum J {
    Null,
    Bool(bool),
    /// a number literal, emitted verbatim
    Num(String),
    Str(String),
    Arr(Vec<J>),
    Obj(Vec<(String, J)>),
    /// raw text emitted verbatim (for malformed fragments)
    Raw(String),
}

pub fn escape(s: &str, out: &mut String) {
    out.push('"');
    for c in s.chars() {
        match c {
            '"' => out.push_str("\\\""),
            '\\' => out.push_str("\\\\"),
            '\n' => out.push_str("\\n"),
            '\r' => out.push_str("\\r"),
            '\t' => out.push_str("\\t"),
            c if (c as u32) < 0x20 => out.push_str(&format!("\\u{:04x}", c as u32)),
            c => out.push(c),
        }
    }
    out.push('"');
}

impl J {
    pub fn render_into(&self, out: &mut String) {
        match self {
            J::Null => out.push_str("null"),
            J::Bool(b) => out.push_str(if *b { "true" } else { "false" }),
            J::Num(n) | J::Raw(n) => out.push_str(n),
            J::Str(s) => escape(s, out),
            J::Arr(a) => {
                out.push('[');
                for (i, x) in a.iter().enumerate() {
                    if i > 0 {
                        out.push(',');
                    }
                    x.render_into(out);
                }
                out.push(']');
            }
            J::Obj(o) => {
                out.push('{');
                for (i, (k, v)) in o.iter().enumerate() {
                    if i > 0 {
                        out.push(',');
                    }
                    escape(k, out);
                    out.push(':');
                    v.render_into(out);
                }
                out.push('}');
            }
        }
    }
    pub fn render(&self) -> String {
        let mut s = String::new();
        self.render_into(&mut s);
        s
    }
    pub fn str(s: impl Into<String>) -> J {
        J::Str(s.into())
    }
    pub fn num(s: impl Into<String>) -> J {
        J::Num(s.into())
    }
    pub fn obj_get_mut(&mut self, key: &str) -> Option<&mut J> {
        match self {
            J::Obj(o) => o.iter_mut().find(|(k, _)| k == key).map(|(_, v)| v),
            _ => None,
        }
    }
}
