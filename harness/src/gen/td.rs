//! Typed-data generator: a type graph and a conforming value generated
//! together from a byte tape, rendered to a JSON document.

use super::json::J;
use super::num::{spell, Spelling};
use super::U;
use crate::refimpl::eip712::{standard_domain_fields, StructDef, Ty, TypeGraph, Val};
use crate::refimpl::u256::Big;
use crate::refimpl::{eip55, hex0x};
use serde::{Deserialize, Serialize};

pub const STRUCT_NAMES: &[&str] = &[
    "A", "AA", "Ab", "B", "Zed", "a", "Person2", "Bytes", "Uint", "_x", "Mail", "Z", "b", "Aa", "Order", "aa", "Int8x",
    "Node", "M", "m", "A$", "A$b", "Zed$1", "$x", "Mail$Box", "a$",
    // struct names that begin like an atomic type keyword without being one
    "interval", "integer", "bytesLike", "addressBook", "boolean", "stringly", "uintMax", "bool_", "bytes_x", "int_", "uint256x", "bytes32s",
];
pub const MEMBER_NAMES: &[&str] = &[
    "a", "b", "from", "to", "value", "bytes", "name", "A", "B", "data", "x1", "_y", "uint256", "Zed", "id", "next",
    "items", "kids",
    // member names are arbitrary strings: not NFC, compatibility characters, an invisible joiner (struct names stay
    // ASCII because EIP-712 sorts them and does not say by which collation)
    "e\u{301}", "\u{212b}", "\u{1100}\u{1161}", "caf\u{e9}", "\u{ff4e}ame", "na\u{200d}me", "\u{3a9}", "\u{2126}",
];
const STRINGS: &[&str] = &[
    "",
    "a",
    "Hello, Bob!",
    "hdwallet",
    "line\nbreak\ttab \"quoted\" back\\slash",
    "\u{00e9}\u{00fc}\u{00f1} \u{4f60}\u{597d} \u{1f600}",
    "0x1234",
    "\u{0}",
    "1",
];

#[derive(Clone, Debug, Serialize, Deserialize)]
pub struct TdModel {
    pub graph: TypeGraph, // includes "EIP712Domain"
    pub primary: String,
    pub message: Val,
    pub domain: Val,
}

#[derive(Clone, Debug, Serialize, Deserialize)]
pub struct TdCase {
    pub doc: String,
    pub model: TdModel,
}

pub fn atomic(u: &mut U) -> Ty {
    match u.below(10) {
        0 => Ty::Bool,
        1 => Ty::Address,
        2 => Ty::String,
        3 => Ty::Bytes,
        4 | 5 => Ty::BytesN(u.range(1, 32) as u8),
        6 | 7 => Ty::Uint(8 * u.range(1, 32) as u16),
        _ => Ty::Int(8 * u.range(1, 32) as u16),
    }
}

pub fn all_atoms() -> Vec<Ty> {
    let mut v = vec![Ty::Bool, Ty::Address, Ty::String, Ty::Bytes];
    for n in 1..=32 {
        v.push(Ty::BytesN(n));
    }
    for n in 1..=32 {
        v.push(Ty::Uint(8 * n));
    }
    for n in 1..=32 {
        v.push(Ty::Int(8 * n));
    }
    v
}

/// minimal number of value nodes of a type when every dynamic array is empty
fn min_size(t: &Ty, struct_min: &[usize], names: &[String]) -> usize {
    match t {
        Ty::Struct(s) => names.iter().position(|n| n == s).map(|i| struct_min[i]).unwrap_or(1),
        Ty::Array(_, None) => 1,
        Ty::Array(e, Some(n)) => 1 + *n as usize * min_size(e, struct_min, names),
        _ => 1,
    }
}

/// Generates the struct types (without the domain). Direct references (not
/// through a dynamic or zero-length array) only point to higher indices, so
/// every type has finite values; references through dynamic arrays may point
/// anywhere, including to the struct itself.
pub fn gen_graph(u: &mut U) -> TypeGraph {
    let n = u.range(1, 6);
    let mut pool: Vec<&str> = STRUCT_NAMES.to_vec();
    let mut names: Vec<String> = vec![];
    for _ in 0..n {
        let i = u.below(pool.len());
        names.push(pool.remove(i).to_string());
    }
    let mut struct_min = vec![1usize; n];
    let mut defs: Vec<Option<StructDef>> = vec![None; n];
    // one graph in eight has a wide struct: member counts around the powers of two (a fixed-size scratch buffer
    // or a small-vector optimisation changes behaviour exactly there)
    let wide: Option<(usize, usize)> = if u.ratio(1, 8) {
        let count = match u.below(4) {
            0 => [15usize, 16, 17][u.below(3)],
            1 => [31usize, 32, 33][u.below(3)],
            2 => [7usize, 8, 9, 63, 64, 65][u.below(6)],
            _ => u.range(7, 40),
        };
        Some((u.below(n), count))
    } else {
        None
    };
    for i in (0..n).rev() {
        let is_wide = matches!(wide, Some((w, _)) if w == i);
        let nm = match wide {
            Some((w, count)) if w == i => count,
            _ => u.below(7),
        };
        let mut mpool: Vec<&str> = MEMBER_NAMES.to_vec();
        let mut members = vec![];
        let mut size = 1usize;
        for k in 0..nm {
            let mname = if mpool.is_empty() {
                format!("m{k}")
            } else {
                let mi = u.below(mpool.len());
                mpool.remove(mi).to_string()
            };
            let mut ty = if is_wide && !u.ratio(1, 8) { atomic(u) } else { gen_member_ty(u, i, n, &names) };
            let ms = min_size(&ty, &struct_min, &names);
            if size + ms > if is_wide { 80 } else { 40 } {
                ty = atomic(u);
                size += 1;
            } else {
                size += ms;
            }
            members.push((mname, ty));
        }
        struct_min[i] = size;
        defs[i] = Some(StructDef { name: names[i].clone(), members });
    }
    let mut structs: Vec<StructDef> = defs.into_iter().map(Option::unwrap).collect();
    // deliberately produce the shape "a dependency is referenced twice and another dependency is
    // listed before the second reference" on the first struct (the usual primary type)
    if n >= 3 && u.ratio(1, 4) {
        let x = names[u.range(1, n - 1)].clone();
        let mut y = names[u.range(1, n - 1)].clone();
        if y == x {
            y = names[1 + (names.iter().position(|s| *s == x).unwrap() % (n - 1))].clone();
        }
        if x != y {
            let wrap = |t: Ty, u: &mut U| if u.ratio(1, 3) { Ty::Array(Box::new(t), None) } else { t };
            let mut forced = vec![
                ("p1".to_string(), wrap(Ty::Struct(x.clone()), u)),
                ("p2".to_string(), wrap(Ty::Struct(y.clone()), u)),
                ("p3".to_string(), wrap(Ty::Struct(if u.bool() { y } else { x }), u)),
            ];
            if u.bool() {
                forced.swap(0, 1);
            }
            let keep: Vec<(String, Ty)> = structs[0].members.iter().filter(|(_, t)| t.struct_ref().is_none()).take(3).cloned().collect();
            let at = u.below(keep.len() + 1);
            let mut members = keep;
            for (k, f) in forced.into_iter().enumerate() {
                members.insert((at + k).min(members.len()), f);
            }
            structs[0].members = members;
        }
    }
    TypeGraph { structs }
}

fn gen_member_ty(u: &mut U, i: usize, n: usize, names: &[String]) -> Ty {
    if u.ratio(1, 40) {
        // an array of many dimensions (up to the 64 the tool is expected to take), sizes 1 or dynamic
        let dims = [4usize, 8, 16, 31, 32, 33, 48, 63, 64][u.below(9)];
        let base = atomic(u);
        let dynamic_from = u.below(dims + 1);
        return (0..dims).fold(base, |t, k| Ty::Array(Box::new(t), if k >= dynamic_from || u.ratio(1, 10) { None } else { Some(1) }));
    }
    match u.below(20) {
        0..=8 => atomic(u),
        9..=13 => {
            // direct struct reference: higher index only
            if i + 1 < n {
                Ty::Struct(names[u.range(i + 1, n - 1)].clone())
            } else {
                atomic(u)
            }
        }
        _ => {
            // array, 1..=3 dimensions
            let dims = 1 + u.below(3);
            let mut sizes: Vec<Option<u32>> = vec![];
            for _ in 0..dims {
                sizes.push(if u.bool() { None } else { Some(u.below(4) as u32) });
            }
            let through_dynamic = sizes.iter().any(|s| s.is_none() || *s == Some(0));
            let base = match u.below(3) {
                0 => atomic(u),
                _ => {
                    if through_dynamic {
                        Ty::Struct(names[u.below(n)].clone())
                    } else if i + 1 < n {
                        Ty::Struct(names[u.range(i + 1, n - 1)].clone())
                    } else {
                        atomic(u)
                    }
                }
            };
            sizes.into_iter().fold(base, |t, s| Ty::Array(Box::new(t), s))
        }
    }
}

pub struct ValGen<'g> {
    pub graph: &'g TypeGraph,
    pub nodes: usize,
    pub node_limit: usize,
}

impl ValGen<'_> {
    pub fn val(&mut self, u: &mut U, t: &Ty, budget: u32) -> Val {
        self.nodes += 1;
        match t {
            Ty::Bool => Val::Bool(u.bool()),
            Ty::Address => {
                let mut a = [0u8; 20];
                match u.below(6) {
                    0 => {}
                    1 => a = [0xff; 20],
                    2 => a[19] = 1,
                    _ => a.copy_from_slice(&u.bytes(20)),
                }
                Val::Address(a)
            }
            Ty::String => {
                if u.bool() {
                    Val::Str(u.pick(STRINGS).to_string())
                } else {
                    // random text: ASCII incl. quotes/backslashes/control characters, hex-looking, numeric-looking, non-ASCII
                    // lengths next to the word size and to the Keccak-256 rate (136 bytes)
                    let n = [0usize, 1, 2, 5, 31, 32, 33, 64, 100, 135, 136, 137, 271, 272, 273, 300, 1100][u.below(17)];
                    let style = u.below(5);
                    let s: String = (0..n)
                        .map(|i| match style {
                            0 => (0x20 + u.below(0x5f) as u8) as char,
                            1 => b"0123456789abcdefABCDEFx"[u.below(23)] as char,
                            2 => char::from_u32(u.below(0x3000) as u32).unwrap_or('?'),
                            3 => {
                                if i == 0 {
                                    '0'
                                } else if i == 1 {
                                    'x'
                                } else {
                                    b"0123456789abcdef"[u.below(16)] as char
                                }
                            }
                            _ => ['\\', '"', '\n', '\u{0}', '\u{1f}', '\u{7f}', '\u{e9}', '\u{1f600}', ' ', '/', '\u{feff}', '\u{200b}', '\u{2028}', '\u{fffd}', '\r', '\u{a0}', '\u{1a}'][u.below(17)],
                        })
                        .collect();
                    Val::Str(s)
                }
            }
            Ty::Bytes => {
                let n = [0usize, 1, 2, 31, 32, 33, 64, 65, 100, 135, 136, 137, 255, 256, 257, 272, 1000, 4097][u.below(18)];
                Val::Bytes(u.bytes(n))
            }
            Ty::BytesN(n) => {
                let mut b = u.bytes(*n as usize);
                match u.below(5) {
                    0 => b.iter_mut().for_each(|x| *x = 0),
                    1 => *b.last_mut().unwrap() = 0,
                    2 => b[0] = 0,
                    _ => {}
                }
                Val::Bytes(b)
            }
            Ty::Uint(n) => Val::Uint(gen_uint(u, *n as u32)),
            Ty::Int(n) => {
                let (neg, mag) = gen_int(u, *n as u32);
                Val::Int { neg, mag }
            }
            Ty::Struct(name) => {
                let def = self.graph.get(name).expect("generated reference is defined").clone();
                Val::Struct(
                    def.members
                        .iter()
                        .map(|(n, t)| (n.clone(), self.val(u, t, budget.saturating_sub(1))))
                        .collect(),
                )
            }
            Ty::Array(e, size) => {
                let len = match size {
                    Some(n) => *n as usize,
                    None => {
                        if budget == 0 || self.nodes > self.node_limit {
                            0
                        } else if u.ratio(1, 30) && e.struct_ref().is_none() {
                            // a long array of atomic elements now and then
                            [15usize, 16, 17, 31, 32, 33, 64, 65, 100, 255, 256, 257][u.below(12)]
                        } else {
                            u.below(4)
                        }
                    }
                };
                Val::Array((0..len).map(|_| self.val(u, e, budget.saturating_sub(1))).collect())
            }
        }
    }
}

pub fn gen_uint(u: &mut U, bits: u32) -> Big {
    match u.below(8) {
        0 => Big::zero(),
        1 => Big::from_u128(1),
        2 => Big::pow2(bits).sub(&Big::from_u128(1)).unwrap(),
        3 => Big::pow2(bits - 1),
        4 => Big::pow2(bits - 1).sub(&Big::from_u128(1)).unwrap(),
        5 => Big::from_u128(u.below(1000) as u128 % (1u128 << bits.min(100))),
        _ => {
            let mut b = u.bytes((bits / 8) as usize);
            let lead = u.below(b.len());
            b[..lead].iter_mut().for_each(|x| *x = 0);
            Big::from_be_bytes(&b)
        }
    }
}

/// (negative, magnitude) in [-2^(bits-1), 2^(bits-1))
pub fn gen_int(u: &mut U, bits: u32) -> (bool, Big) {
    let half = Big::pow2(bits - 1);
    match u.below(9) {
        0 => (false, Big::zero()),
        1 => (false, Big::from_u128(1)),
        2 => (true, Big::from_u128(1)),
        3 => (false, half.sub(&Big::from_u128(1)).unwrap()),
        4 => (true, half),
        5 => (true, half.sub(&Big::from_u128(1)).unwrap()),
        6 => (u.bool(), Big::from_u128(1 + u.below(126) as u128)),
        _ => {
            let mut b = u.bytes((bits / 8) as usize);
            b[0] &= 0x7f;
            let lead = u.below(b.len());
            b[..lead].iter_mut().for_each(|x| *x = 0);
            let mag = Big::from_be_bytes(&b);
            let neg = u.bool() && !mag.is_zero();
            (neg, mag)
        }
    }
}

/// Accepted spellings of an unsigned integer.
pub fn spell_uint(x: &Big, u: &mut U) -> J {
    let order = [
        Spelling::JsonInt,
        Spelling::DecString,
        Spelling::HexLower,
        Spelling::FloatDot0,
        Spelling::HexUpper,
        Spelling::FloatSci,
    ];
    let start = u.below(order.len());
    let salt = u.u32() as u64;
    for k in 0..order.len() {
        if let Some(s) = spell(x, order[(start + k) % order.len()], salt) {
            return J::Raw(s);
        }
    }
    J::Raw(format!("\"{}\"", x.to_dec()))
}

/// Accepted spellings of a signed integer.
pub fn spell_int(neg: bool, mag: &Big, u: &mut U) -> J {
    if !neg || mag.is_zero() {
        return spell_uint(mag, u);
    }
    match u.below(4) {
        0 if mag.bit_len() <= 63 => J::Raw(format!("-{}", mag.to_dec())),
        1 if mag.bit_len() <= 53 => J::Raw(format!("-{}.0", mag.to_dec())),
        // (a negative hex string "-0x.." is accepted today but not something the properties promise;
        // it is exercised by C09's lenient controls only)
        _ => J::Raw(format!("\"-{}\"", mag.to_dec())),
    }
}

pub fn render_address(a: &[u8; 20], u: &mut U) -> J {
    // lower case, EIP-55, or all upper case (EIP-55: all-lower and all-upper spellings carry no checksum)
    match u.below(4) {
        0 | 1 => J::Str(hex0x(a)),
        2 => J::Str(eip55(a)),
        _ => J::Str(format!("0x{}", hex0x(a)[2..].to_uppercase())),
    }
}

/// Renders a value of type `t` as JSON; object keys in shuffled order.
pub fn render_val(t: &Ty, v: &Val, graph: &TypeGraph, u: &mut U) -> J {
    match (t, v) {
        (_, Val::Bool(b)) => J::Bool(*b),
        (_, Val::Address(a)) => render_address(a, u),
        (_, Val::Str(s)) => J::Str(s.clone()),
        (_, Val::Bytes(b)) => J::Str(hex0x(b)),
        (_, Val::Uint(x)) => spell_uint(x, u),
        (_, Val::Int { neg, mag }) => spell_int(*neg, mag, u),
        (Ty::Struct(name), Val::Struct(fields)) => {
            let def = graph.get(name).expect("defined");
            let mut kv: Vec<(String, J)> = fields
                .iter()
                .map(|(n, fv)| {
                    let mt = &def.members.iter().find(|(mn, _)| mn == n).expect("member").1;
                    (n.clone(), render_val(mt, fv, graph, u))
                })
                .collect();
            u.shuffle(&mut kv);
            J::Obj(kv)
        }
        (Ty::Array(e, _), Val::Array(items)) => J::Arr(items.iter().map(|i| render_val(e, i, graph, u)).collect()),
        _ => J::Null,
    }
}

pub fn render_types(graph: &TypeGraph, u: &mut U) -> J {
    let mut entries: Vec<(String, J)> = graph
        .structs
        .iter()
        .map(|s| {
            (
                s.name.clone(),
                J::Arr(
                    s.members
                        .iter()
                        .map(|(n, t)| {
                            let mut kv = vec![("name".to_string(), J::Str(n.clone())), ("type".to_string(), J::Str(t.name()))];
                            if u.ratio(1, 4) {
                                kv.swap(0, 1);
                            }
                            J::Obj(kv)
                        })
                        .collect(),
                ),
            )
        })
        .collect();
    u.shuffle(&mut entries);
    J::Obj(entries)
}

/// One of the 31 well-formed domains (mask != 0 over the five fields).
pub fn gen_domain(u: &mut U) -> (StructDef, Val) {
    let mask = 1 + u.below(31);
    domain_for_mask(mask as u8, u)
}

pub fn domain_for_mask(mask: u8, u: &mut U) -> (StructDef, Val) {
    let std = standard_domain_fields();
    let mut members = vec![];
    let mut vals = vec![];
    let g = TypeGraph::default();
    for (i, (n, t)) in std.iter().enumerate() {
        if mask & (1 << i) != 0 {
            members.push((n.to_string(), t.clone()));
            let mut vg = ValGen { graph: &g, nodes: 0, node_limit: 10 };
            vals.push((n.to_string(), vg.val(u, t, 1)));
        }
    }
    (StructDef { name: "EIP712Domain".into(), members }, Val::Struct(vals))
}

pub fn render_doc(model: &TdModel, u: &mut U) -> J {
    let types = render_types(&model.graph, u);
    let domain = render_val(&Ty::Struct("EIP712Domain".into()), &model.domain, &model.graph, u);
    let message = render_val(&Ty::Struct(model.primary.clone()), &model.message, &model.graph, u);
    let mut top = vec![
        ("types".to_string(), types),
        ("primaryType".to_string(), J::Str(model.primary.clone())),
        ("domain".to_string(), domain),
        ("message".to_string(), message),
    ];
    u.shuffle(&mut top);
    J::Obj(top)
}

/// Full generation of a well-typed document.
pub fn gen_model(u: &mut U, value_budget: u32, node_limit: usize) -> TdModel {
    let mut graph = gen_graph(u);
    let (ddef, dval) = gen_domain(u);
    // primary: mostly the first struct (it can reach the most), sometimes any, rarely the domain
    let primary = match u.below(10) {
        0..=5 => graph.structs[0].name.clone(),
        6..=8 => graph.structs[u.below(graph.structs.len())].name.clone(),
        _ => "EIP712Domain".to_string(),
    };
    graph.structs.push(ddef);
    let message = if primary == "EIP712Domain" {
        dval.clone()
    } else {
        let mut vg = ValGen { graph: &graph, nodes: 0, node_limit };
        vg.val(u, &Ty::Struct(primary.clone()), value_budget)
    };
    TdModel { graph, primary, message, domain: dval }
}

pub fn gen_case(u: &mut U) -> TdCase {
    let model = gen_model(u, 3, 150);
    let style = u.u64();
    let doc = render_doc(&model, u).render_styled(style);
    TdCase { doc, model }
}

/// Expected digests (domain separator, message hash, signing digest).
pub fn expected(model: &TdModel) -> Option<([u8; 32], [u8; 32], [u8; 32])> {
    let ds = model.graph.hash_struct("EIP712Domain", &model.domain)?;
    let mh = model.graph.hash_struct(&model.primary, &model.message)?;
    Some((ds, mh, crate::refimpl::eip712::signing_digest(&ds, &mh)))
}
