//! Generators. Complex cases are decoded from a byte tape with
//! `arbitrary::Unstructured`, so that the same decoder serves proptest (which
//! shrinks the tape) and libFuzzer (which mutates it).

pub mod json;
pub mod num;
pub mod td;
pub mod txgen;

use arbitrary::Unstructured;
use proptest::prelude::*;

/// A byte tape strategy: mostly substantial tapes, some short ones; shrinks
/// towards the short branch.
pub fn tape(max: usize) -> impl Strategy<Value = Vec<u8>> {
    prop_oneof![
        1 => proptest::collection::vec(any::<u8>(), 0..64usize.min(max)),
        9 => proptest::collection::vec(any::<u8>(), 64usize.min(max)..=max),
    ]
}

/// Helper wrapper over Unstructured that never fails (defaults on exhaustion).
pub struct U<'a>(pub Unstructured<'a>);

impl<'a> U<'a> {
    pub fn new(data: &'a [u8]) -> Self {
        U(Unstructured::new(data))
    }
    pub fn below(&mut self, n: usize) -> usize {
        if n <= 1 {
            return 0;
        }
        self.0.int_in_range(0..=n - 1).unwrap_or(0)
    }
    pub fn range(&mut self, lo: usize, hi_incl: usize) -> usize {
        lo + self.below(hi_incl - lo + 1)
    }
    pub fn bool(&mut self) -> bool {
        self.below(2) == 1
    }
    /// true with probability num/den
    pub fn ratio(&mut self, num: usize, den: usize) -> bool {
        self.below(den) < num
    }
    pub fn byte(&mut self) -> u8 {
        self.below(256) as u8
    }
    pub fn bytes(&mut self, n: usize) -> Vec<u8> {
        (0..n).map(|_| self.byte()).collect()
    }
    pub fn pick<T: Clone>(&mut self, items: &[T]) -> T {
        items[self.below(items.len())].clone()
    }
    pub fn u32(&mut self) -> u32 {
        u32::from_be_bytes(self.bytes(4).try_into().unwrap())
    }
    pub fn u64(&mut self) -> u64 {
        u64::from_be_bytes(self.bytes(8).try_into().unwrap())
    }
    pub fn is_empty(&self) -> bool {
        self.0.is_empty()
    }
    /// in-place Fisher-Yates
    pub fn shuffle<T>(&mut self, v: &mut [T]) {
        for i in (1..v.len()).rev() {
            let j = self.below(i + 1);
            v.swap(i, j);
        }
    }
}

/// Byte contents that look like some other encoding or carry a marker a "helpful" reader might strip or
/// decode: byte-order marks, hex/JSON/base64/percent/escape look-alikes, white-space framing, option-like
/// and path-like text, NULs, the EIP-191 prefix itself, odd UTF-8. Raw-bytes commands must take them as is.
pub const TRICKY_BYTES: &[&[u8]] = &[
    b"\xef\xbb\xbfhello",
    b"\xef\xbb\xbf",
    b"\xef\xbb\xbf{\"a\":1}",
    b"\xff\xfeh\x00i\x00",
    b"\xfe\xff\x00h\x00i",
    b"0xdeadbeef",
    b"0xdeadbeef\n",
    b"0xDEADBEEF",
    b"0x90F8bf6A479f320ead074411a4B0e7944Ea8c9C1",
    b"0x4f3edf983ac636a65a842ce7c78d9aa706d3b113bce9c46f30d7d21715b23b1d",
    b"0x",
    b"0x0",
    b"0x00",
    b"0X12",
    b"deadbeef",
    b"DEADBEEF\n",
    b" 0xdeadbeef ",
    b"0x de ad be ef",
    b"{\"a\":1}",
    b"[]",
    b"\"quoted\"",
    b"null",
    b"123",
    b"-1",
    b"1e3",
    b"aGVsbG8gd29ybGQ=",
    b"%41%42%43",
    b"\\x41\\x42",
    b"\\n",
    b"\\u0041",
    b"&amp;&#65;",
    b"  leading and trailing  ",
    b"\tTab\t",
    b"line1\r\nline2\r\n",
    b"line1\nline2\n",
    b"\n",
    b"\r\n",
    b"  \n",
    b"\n\n\n",
    b"-",
    b"--help",
    b"-n",
    b"/dev/null",
    b"@file",
    b"a\x00b",
    b"\x00",
    b"trailing nul\x00",
    b"\x00\x00\x00\x00",
    b"\x19Ethereum Signed Message:\n5hello",
    b"\x19Ethereum Signed Message:\n",
    b"12abc",
    b"5hello",
    b"\xc3\xa9\xe4\xbd\xa0\xf0\x9f\x98\x80",
    b"\xc0\xaf",
    b"\xed\xa0\x80",
    b"\xf4\x90\x80\x80",
    b"\x80",
    b"\xff",
    b"\x1b[31mred\x1b[0m",
    b"\x7f\x08\x07",
    // what an input-format detector would look for: compressed data, envelopes, encodings, interpreter lines
    b"\x1f\x8b\x08\x00\x00\x00\x00\x00\x00\x03\xcbH\xcd\xc9\xc9\x07\x00\x86\xa6\x106\x05\x00\x00\x00",
    b"PK\x03\x04",
    b"aGVsbG8=",
    b"aGVsbG8",
    b"SGVsbG8gV29ybGQh\n",
    b"data:text/plain;base64,aGVsbG8=",
    b"{\"jsonrpc\":\"2.0\",\"method\":\"personal_sign\",\"params\":[\"0x68656c6c6f\",\"0x90f8bf6a479f320ead074411a4b0e7944ea8c9c1\"],\"id\":1}",
    b"{\"message\":\"hello\"}",
    b"#!/bin/sh\necho hi\n",
    b"---\ntitle: x\n---\nbody\n",
    b"f86c098504a817c800825208943535353535353535353535353535353535353535880de0b6b3a76400008025a0",
    b"0xf86c098504a817c800825208943535353535353535353535353535353535353535880de0b6b3a76400008025a0",
    b"\x19\x00abc",
    b"\x19\x01abc",
    b"\x19\x45thereum",
    b"hello\x1a",
    b"68656c6c6f",
    b"68 65 6c 6c 6f",
    b"=?utf-8?b?aGVsbG8=?=",
    b"hello\r",
    b"\rhello",
];
