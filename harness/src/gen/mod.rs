//! Generators. Complex cases are decoded from a byte tape with
//! `arbitrary::Unstructured`, so that the same decoder serves proptest (which
//! shrinks the tape) and libFuzzer (which mutates it).

pub mod json;
pub mod num;
pub mod td;
pub mod txgen;

use arbitrary::Unstructured;
use proptest::prelude::*;

/// A byte tape strategy: mostly substantial tapes, some short ones; shrinks
/// towards the short branch.
pub fn tape(max: usize) -> impl Strategy<Value = Vec<u8>> {
    prop_oneof![
        1 => proptest::collection::vec(any::<u8>(), 0..64usize.min(max)),
        9 => proptest::collection::vec(any::<u8>(), 64usize.min(max)..=max),
    ]
}

/// Helper wrapper over Unstructured that never fails (defaults on exhaustion).
pub struct U<'a>(pub Unstructured<'a>);

impl<'a> U<'a> {
    pub fn new(data: &'a [u8]) -> Self {
        U(Unstructured::new(data))
    }
    pub fn below(&mut self, n: usize) -> usize {
        if n <= 1 {
            return 0;
        }
        self.0.int_in_range(0..=n - 1).unwrap_or(0)
    }
    pub fn range(&mut self, lo: usize, hi_incl: usize) -> usize {
        lo + self.below(hi_incl - lo + 1)
    }
    pub fn bool(&mut self) -> bool {
        self.below(2) == 1
    }
    /// true with probability num/den
    pub fn ratio(&mut self, num: usize, den: usize) -> bool {
        self.below(den) < num
    }
    pub fn byte(&mut self) -> u8 {
        self.below(256) as u8
    }
    pub fn bytes(&mut self, n: usize) -> Vec<u8> {
        (0..n).map(|_| self.byte()).collect()
    }
    pub fn pick<T: Clone>(&mut self, items: &[T]) -> T {
        items[self.below(items.len())].clone()
    }
    pub fn u32(&mut self) -> u32 {
        u32::from_be_bytes(self.bytes(4).try_into().unwrap())
    }
    pub fn u64(&mut self) -> u64 {
        u64::from_be_bytes(self.bytes(8).try_into().unwrap())
    }
    pub fn is_empty(&self) -> bool {
        self.0.is_empty()
    }
    /// in-place Fisher-Yates
    pub fn shuffle<T>(&mut self, v: &mut [T]) {
        for i in (1..v.len()).rev() {
            let j = self.below(i + 1);
            v.swap(i, j);
        }
    }
}
