//! Boundary-biased 256-bit values and number spellings.

use super::U;
use crate::refimpl::u256::Big;

pub const N_HEX: &str = "fffffffffffffffffffffffffffffffebaaedce6af48a03bbfd25e8cd0364141";

fn sub1(b: &Big) -> Big {
    b.sub(&Big::from_u128(1)).unwrap_or_else(Big::zero)
}

/// A value in [0, 2^256) drawn from the boundary strategy of DESIGN.md §4.
pub fn u256_boundary(u: &mut U) -> Big {
    match u.below(12) {
        0 => Big::from_u128([0u128, 1, 0x7f, 0x80, 0xff, 0x100][u.below(6)]),
        1 | 2 => {
            let k = [8u32, 16, 24, 31, 32, 53, 63, 64, 128, 255][u.below(10)];
            match u.below(3) {
                0 => sub1(&Big::pow2(k)),
                1 => Big::pow2(k),
                _ => Big::pow2(k).add_small(1),
            }
        }
        3 => {
            let n = Big::from_hex(N_HEX).unwrap();
            match u.below(4) {
                0 => n.sub(&Big::from_u128(2)).unwrap(),
                1 => sub1(&n),
                2 => n,
                _ => n.add_small(1),
            }
        }
        4 => sub1(&Big::pow2(256)),
        5 => Big::from_u128(u.u64() as u128 % 100_000),
        _ => {
            // uniformly random of a byte width 1..=32, top byte non-zero
            let w = u.range(1, 32);
            let mut b = u.bytes(w);
            if b[0] == 0 {
                b[0] = 1;
            }
            Big::from_be_bytes(&b)
        }
    }
}

/// Spellings the property calls well-formed.
#[derive(Clone, Copy, Debug, PartialEq, Eq, Hash, serde::Serialize, serde::Deserialize)]
pub enum Spelling {
    JsonInt,
    FloatDot0,
    FloatE0,
    FloatSci,
    FloatShift,
    DecString,
    DecStringLeadingZeros,
    HexLower,
    HexUpper,
    HexMixed,
    HexLeadingZeros,
}

pub const ALL_SPELLINGS: [Spelling; 11] = [
    Spelling::JsonInt,
    Spelling::FloatDot0,
    Spelling::FloatE0,
    Spelling::FloatSci,
    Spelling::FloatShift,
    Spelling::DecString,
    Spelling::DecStringLeadingZeros,
    Spelling::HexLower,
    Spelling::HexUpper,
    Spelling::HexMixed,
    Spelling::HexLeadingZeros,
];

/// Renders x in the given spelling as a JSON fragment, or None if the
/// spelling cannot carry x exactly (JSON integers above 2^64-1, floats above
/// 2^53-1).
pub fn spell(x: &Big, sp: Spelling, salt: u64) -> Option<String> {
    let dec = x.to_dec();
    let small53 = x.bit_len() <= 53;
    Some(match sp {
        Spelling::JsonInt => {
            if x.bit_len() > 64 {
                return None;
            }
            dec
        }
        Spelling::FloatDot0 => {
            if !small53 {
                return None;
            }
            format!("{dec}.0")
        }
        Spelling::FloatE0 => {
            if !small53 {
                return None;
            }
            format!("{dec}e0")
        }
        Spelling::FloatSci => {
            if !small53 {
                return None;
            }
            // d.ddd e+k with all digits kept: exact
            let (first, rest) = dec.split_at(1);
            if rest.is_empty() {
                format!("{first}.0e+0")
            } else {
                format!("{first}.{rest}e+{}", rest.len())
            }
        }
        Spelling::FloatShift => {
            if !small53 {
                return None;
            }
            if x.is_zero() {
                "0e-1".to_string()
            } else {
                format!("{dec}0e-1")
            }
        }
        Spelling::DecString => format!("\"{dec}\""),
        Spelling::DecStringLeadingZeros => format!("\"{}{dec}\"", "0".repeat(1 + (salt % 3) as usize)),
        Spelling::HexLower => format!("\"0x{}\"", x.to_hex()),
        Spelling::HexUpper => format!("\"0x{}\"", x.to_hex().to_uppercase()),
        Spelling::HexMixed => {
            let h: String = x
                .to_hex()
                .chars()
                .enumerate()
                .map(|(i, c)| if (salt >> (i % 60)) & 1 == 1 { c.to_ascii_uppercase() } else { c })
                .collect();
            format!("\"0x{h}\"")
        }
        Spelling::HexLeadingZeros => format!("\"0x{}{}\"", "0".repeat(1 + (salt % 4) as usize), x.to_hex()),
    })
}
