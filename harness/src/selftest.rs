//! Self-test of the reference stack: it is checked against pinned vectors and
//! (for curve arithmetic) against k256 before any verdict is believed. A
//! failure here is exit 2 (inconclusive), never a violation.

use crate::engine::Prng;
use crate::refimpl::*;

fn h(s: &str) -> Vec<u8> {
    unhex(&s.replace([' ', '\n'], "")).expect("hex literal")
}

fn check(ok: bool, what: &str, errs: &mut Vec<String>) {
    if !ok {
        errs.push(what.to_string());
    }
}

pub fn run(deep: bool) -> Vec<String> {
    let mut errs = vec![];
    let e = &mut errs;

    // keccak / eip55 / eip191
    check(
        hex_lower(&keccak(b"")) == "c5d2460186f7233c927e7db2dcc703c0e500b653ca82273b7bfad8045d85a470",
        "keccak(empty)",
        e,
    );
    let addr: [u8; 20] = h("90f8bf6a479f320ead074411a4b0e7944ea8c9c1").try_into().unwrap();
    check(eip55(&addr) == "0x90F8bf6A479f320ead074411a4B0e7944Ea8c9C1", "eip55(ganache address)", e);
    check(eip191(b"hello world!") == keccak(b"\x19Ethereum Signed Message:\n12hello world!"), "eip191", e);

    // bip39 + pbkdf2 against the Trezor vectors the repository pins
    check(
        bip39::encode_phrase(&[0u8; 16])
            == "abandon abandon abandon abandon abandon abandon abandon abandon abandon abandon abandon about",
        "bip39 all-zero 128",
        e,
    );
    let ent = h("f585c11aec520db57dd353c69554b21a89b20fb0650966fa0a9d6f74fd989d8f");
    let phrase = "void come effort suffer camp survey warrior heavy shoot primary clutch crush open amazing screen patrol group space point ten exist slush involve unfold";
    check(bip39::encode_phrase(&ent) == phrase, "bip39 encode 256", e);
    check(bip39::decode_phrase(phrase) == Ok(ent.clone()), "bip39 decode 256", e);
    check(
        bip39::seed_from_normalised(phrase, "TREZOR").to_vec()
            == h("01f5bced59dec48e362f2c45b5de68b9fd6c92c6634f44d6d40aab69056506f0e35524a518034ddc1192e1dacd32c1ed3eaa3c3b131c88ed8e7e54c49a5d0998"),
        "pbkdf2 seed (TREZOR vector)",
        e,
    );

    // secp vs k256
    {
        use k256::elliptic_curve::sec1::ToEncodedPoint;
        let mut p = Prng::new(7);
        let n = if deep { 5000 } else { 200 };
        let mut scalars: Vec<[u8; 32]> = vec![];
        let one = {
            let mut o = [0u8; 32];
            o[31] = 1;
            o
        };
        scalars.push(one);
        scalars.push(secp::scalar_neg(&one)); // n-1
        scalars.push(secp::HALF_N);
        for _ in 0..n {
            let mut k = [0u8; 32];
            p.fill(&mut k);
            if secp::is_valid_secret(&k) {
                scalars.push(k);
            }
        }
        for k in &scalars {
            let ours = secp::mul_g(k).map(|pt| secp::uncompressed(&pt).to_vec());
            let theirs = k256::SecretKey::from_slice(k).ok().map(|s| s.public_key().to_encoded_point(false).as_bytes().to_vec());
            if ours != theirs {
                e.push(format!("secp::mul_g disagrees with k256 for {}", hex_lower(k)));
                break;
            }
        }
    }

    // bip32 + address: Ganache deterministic mnemonic -> m/44'/60'/0'/0/0
    {
        let m = "myth like bonus scare over problem client lizard pioneer submit female collect";
        let seed = bip39::seed_from_normalised(m, "");
        match bip32::derive(&seed, &bip32::default_path(0)) {
            Ok(k) => {
                check(
                    hex_lower(&k) == "4f3edf983ac636a65a842ce7c78d9aa706d3b113bce9c46f30d7d21715b23b1d",
                    "bip32 ganache key",
                    e,
                );
                let a = address_of(&secp::mul_g(&k).unwrap());
                check(eip55(&a) == "0x90F8bf6A479f320ead074411a4B0e7944Ea8c9C1", "ganache address from key", e);
            }
            Err(_) => e.push("bip32 derive failed".into()),
        }
    }

    // rfc6979: RFC 6979 A.2.5 (P-256, SHA-256, "sample") nonce; generation only needs q and x
    {
        let q = h("FFFFFFFF00000000FFFFFFFFFFFFFFFFBCE6FAADA7179E84F3B9CAC2FC632551");
        let x: [u8; 32] = h("C9AFA9D845BA75166B5C215767B1D6934E50C3DB36E89B127B8A622B120F6721").try_into().unwrap();
        let h1 = sha256(b"sample");
        // bits2octets mod q (h1 < q here? reduce generally)
        let qb = u256::Big::from_be_bytes(&q);
        let hb = u256::Big::from_be_bytes(&h1);
        let red = hb.sub(&qb).unwrap_or(hb);
        let oct = red.to_be32().unwrap();
        let valid = |k: &[u8; 32]| {
            let kb = u256::Big::from_be_bytes(k);
            !kb.is_zero() && kb < qb
        };
        let k = rfc6979::nonces(&x, &oct, valid, 1)[0];
        check(
            hex_lower(&k).to_uppercase() == "A6E3C57DD01ABE90086538398355DD4C3B17AA873382B0F24D6129493D8AAD60",
            "rfc6979 A.2.5 nonce for 'sample'",
            e,
        );
        // the repository's pinned signature
        let key: [u8; 32] = h("4f3edf983ac636a65a842ce7c78d9aa706d3b113bce9c46f30d7d21715b23b1d").try_into().unwrap();
        let d = keccak(b"\x19Ethereum Signed Message:\n12Hello World!");
        let s = rfc6979::sign(&key, &d);
        check(
            hex_lower(&s.r) == "408790f153cbfa2722fc708a57d97a43b24429724cf060df7c915d468c43bd84"
                && hex_lower(&s.s) == "61c96aac95ce37d7a31087b6634f4a3ea439a9f704b5c818584fa2a32fa83859"
                && s.y_parity,
            "rfc6979 pinned ganache signature",
            e,
        );
    }

    // rlp + tx against the encodings the repository pins
    {
        use tx::{Kind, TxModel};
        use u256::Big;
        let deadbeef: [u8; 20] = h("deadbeefdeadbeefdeadbeefdeadbeefdeadbeef").try_into().unwrap();
        let t = TxModel {
            kind: Kind::Legacy,
            chain_id: Some(Big::from_u128(1)),
            nonce: Big::from_u128(66),
            gas_price: Big::from_u128(42_000_000_000),
            max_priority_fee: Big::zero(),
            max_fee: Big::zero(),
            gas: Big::from_u128(30_000),
            to: Some(deadbeef),
            value: Big::from_u128(13_370_000_000_000_000_000),
            data: vec![],
            access_list: vec![],
        };
        check(
            t.unsigned_payload() == h("ec428509c765240082753094deadbeefdeadbeefdeadbeefdeadbeefdeadbeef88b98bc829a6f9000080018080"),
            "legacy unsigned payload (pinned)",
            e,
        );
        let zero = TxModel {
            kind: Kind::Eip1559,
            chain_id: Some(Big::from_u128(1)),
            nonce: Big::zero(),
            gas_price: Big::zero(),
            max_priority_fee: Big::zero(),
            max_fee: Big::zero(),
            gas: Big::from_u128(21000),
            to: Some([0u8; 20]),
            value: Big::zero(),
            data: vec![],
            access_list: vec![],
        };
        let r: [u8; 32] = h("290dbdecbc884b4cb827015fe0cd7ac90df1a5634d52a2845c21afacca14b803").try_into().unwrap();
        let s: [u8; 32] = h("3e848dd1a342e5528beff99c42876cf091a68e2090dbbced5a5f7f392d3abcda").try_into().unwrap();
        check(
            zero.signed_payload(&r, &s, true)
                == Some(h("02f8620180808082520894000000000000000000000000000000000000000080 80c001a0290dbdecbc884b4cb827015fe0cd7ac90df1a5634d52a2845c21afac ca14b803a03e848dd1a342e5528beff99c42876cf091a68e2090dbbced5a5f7f 392d3abcda")),
            "eip1559 signed payload (pinned)",
            e,
        );
        // and the pinned signature is what the reference signer produces over the reference digest
        let key: [u8; 32] = h("4f3edf983ac636a65a842ce7c78d9aa706d3b113bce9c46f30d7d21715b23b1d").try_into().unwrap();
        let sig = rfc6979::sign(&key, &zero.digest());
        check(sig.r == r && sig.s == s && sig.y_parity, "eip1559 pinned signature via reference signer", e);
        check(rlp::decode_strict(&zero.signed_payload(&r, &s, true).unwrap()[1..]).is_ok(), "strict decoder on pinned tx", e);
    }

    // eip712 against the two pinned digests
    {
        use eip712::*;
        use u256::Big;
        let person = StructDef { name: "Person".into(), members: vec![("name".into(), Ty::String), ("wallet".into(), Ty::Address)] };
        let mail = StructDef {
            name: "Mail".into(),
            members: vec![
                ("from".into(), Ty::Struct("Person".into())),
                ("to".into(), Ty::Struct("Person".into())),
                ("contents".into(), Ty::String),
            ],
        };
        let domain = StructDef {
            name: "EIP712Domain".into(),
            members: vec![
                ("name".into(), Ty::String),
                ("version".into(), Ty::String),
                ("chainId".into(), Ty::Uint(256)),
                ("verifyingContract".into(), Ty::Address),
            ],
        };
        let g = TypeGraph { structs: vec![domain, person, mail] };
        let a = |s: &str| -> [u8; 20] { h(s).try_into().unwrap() };
        let dom = Val::Struct(vec![
            ("name".into(), Val::Str("Ether Mail".into())),
            ("version".into(), Val::Str("1".into())),
            ("chainId".into(), Val::Uint(Big::from_u128(1))),
            ("verifyingContract".into(), Val::Address(a("CcCCccccCCCCcCCCCCCcCcCccCcCCCcCcccccccC"))),
        ]);
        let p = |n: &str, w: &str| Val::Struct(vec![("name".into(), Val::Str(n.into())), ("wallet".into(), Val::Address(a(w)))]);
        let msg = Val::Struct(vec![
            ("from".into(), p("Cow", "CD2a3d9F938E13CD947Ec05AbC7FE734Df8DD826")),
            ("to".into(), p("Bob", "bBbBBBBbbBBBbbbBbbBbbbbBBbBbbbbBbBbbBBbB")),
            ("contents".into(), Val::Str("Hello, Bob!".into())),
        ]);
        check(
            g.encode_type("Mail").as_deref() == Some("Mail(Person from,Person to,string contents)Person(string name,address wallet)"),
            "eip712 encodeType(Mail)",
            e,
        );
        let ds = g.hash_struct("EIP712Domain", &dom);
        let mh = g.hash_struct("Mail", &msg);
        match (ds, mh) {
            (Some(ds), Some(mh)) => check(
                hex_lower(&signing_digest(&ds, &mh)) == "be609aee343fb3c4b28e1df9e632fca64fcfaede20f02e86244efddf30957bd2",
                "eip712 Mail digest (pinned)",
                e,
            ),
            _ => e.push("eip712 Mail hash failed".into()),
        }
    }
    errs
}
