//! Termination of in-process calls into the code under test: an in-flight registry, a watchdog thread
//! and re-execution of a suspect call in a fresh process under CPU / address-space limits. CPU time does
//! not depend on machine load, so exceeding the limit is evidence of unbounded computation, not of a
//! slow machine.

use serde_json::{json, Value};
use std::collections::HashSet;
use std::path::PathBuf;
use std::sync::atomic::{AtomicU64, Ordering};
use std::sync::{Mutex, OnceLock};
use std::time::{Duration, Instant};

/// CPU budget for ONE library call on an input of a few KiB, in a fresh process (normal cost: microseconds
/// to a few milliseconds).
pub const LIB_CPU_LIMIT_S: u64 = 20;
pub const LIB_MEM_LIMIT: u64 = 8 << 30;
/// wall time after which an in-flight call is re-executed in isolation
pub const SUSPECT_AFTER_S: u64 = 5;

#[derive(Clone, Debug)]
pub struct Info {
    pub id: u64,
    /// entry point name understood by `hdv lib-call` (props::c17::call_entry)
    pub entry: String,
    pub input_hex: String,
    pub origin: String,
    pub since: Instant,
    /// kernel thread id of the calling thread (to attribute a process abort to the call it happened in)
    pub tid: i64,
}

/// thread id of a thread that raised SIGABRT (allocation failure, stack overflow, abort()); 0 = none
static ABORT_TID: std::sync::atomic::AtomicI64 = std::sync::atomic::AtomicI64::new(0);

fn gettid() -> i64 {
    unsafe { libc::syscall(libc::SYS_gettid) as i64 }
}

/// SIGABRT handler: parks the aborting thread and leaves the diagnosis to the watchdog thread, which has
/// a stack of its own (the aborting thread may be on the small alternate signal stack after a stack overflow).
extern "C" fn on_abort(_sig: libc::c_int) {
    let _ = ABORT_TID.compare_exchange(0, gettid(), Ordering::SeqCst, Ordering::SeqCst);
    loop {
        unsafe { libc::sleep(3600) };
    }
}

fn install_abort_handler() {
    unsafe {
        let mut sa: libc::sigaction = std::mem::zeroed();
        sa.sa_sigaction = on_abort as extern "C" fn(libc::c_int) as usize;
        sa.sa_flags = libc::SA_ONSTACK;
        libc::sigemptyset(&mut sa.sa_mask);
        libc::sigaction(libc::SIGABRT, &sa, std::ptr::null_mut());
    }
}

static INFLIGHT: Mutex<Vec<Info>> = Mutex::new(Vec::new());
static NEXT_ID: AtomicU64 = AtomicU64::new(1);
static EVALS: AtomicU64 = AtomicU64::new(0);
static DISTINCT: Mutex<Option<HashSet<u64>>> = Mutex::new(None);
/// (property id, tier name, seed, root)
static RUN: OnceLock<(String, String, u64, PathBuf)> = OnceLock::new();
type Handler = fn(&Info, &Iso) -> !;
static HANDLER: OnceLock<Handler> = OnceLock::new();

#[derive(Debug, Clone, PartialEq)]
pub enum Iso {
    Finished(String),
    Panicked(String),
    CpuLimit,
    MemLimit(String),
    /// killed by SIGABRT / SIGSEGV / SIGBUS / SIGILL / SIGFPE
    Aborted(String),
    Other(String),
}

pub fn describe_nontermination(iso: &Iso) -> Option<String> {
    match iso {
        Iso::CpuLimit => Some(format!("did not finish within {LIB_CPU_LIMIT_S} CPU-seconds in a fresh process (unbounded computation)")),
        Iso::MemLimit(m) => Some(format!("exhausted {} GiB of address space in a fresh process ({m})", LIB_MEM_LIMIT >> 30)),
        Iso::Aborted(m) => Some(format!("aborted the process in a fresh run ({m})")),
        _ => None,
    }
}

/// Runs one entry point on one input in a fresh `hdv lib-call` process under RLIMIT_CPU / RLIMIT_AS.
pub fn isolated_call(entry: &str, input: &[u8]) -> Iso {
    use std::io::Write;
    use std::os::unix::process::{CommandExt, ExitStatusExt};
    use std::process::{Command, Stdio};
    let Ok(exe) = std::env::current_exe() else { return Iso::Other("no current_exe".into()) };
    let mut cmd = Command::new(exe);
    cmd.arg("lib-call").arg(entry).stdin(Stdio::piped()).stdout(Stdio::piped()).stderr(Stdio::piped()).env("RUST_BACKTRACE", "0");
    unsafe {
        cmd.pre_exec(|| {
            let cpu = libc::rlimit { rlim_cur: LIB_CPU_LIMIT_S, rlim_max: LIB_CPU_LIMIT_S + 2 };
            libc::setrlimit(libc::RLIMIT_CPU, &cpu);
            let mem = libc::rlimit { rlim_cur: LIB_MEM_LIMIT, rlim_max: LIB_MEM_LIMIT };
            libc::setrlimit(libc::RLIMIT_AS, &mem);
            Ok(())
        });
    }
    let mut child = match cmd.spawn() {
        Ok(c) => c,
        Err(e) => return Iso::Other(format!("spawn: {e}")),
    };
    if let Some(mut sin) = child.stdin.take() {
        let _ = sin.write_all(input);
    }
    let out = match child.wait_with_output() {
        Ok(o) => o,
        Err(e) => return Iso::Other(format!("wait: {e}")),
    };
    let stdout = String::from_utf8_lossy(&out.stdout).into_owned();
    let stderr = String::from_utf8_lossy(&out.stderr).into_owned();
    match (out.status.code(), out.status.signal()) {
        (Some(0), _) => Iso::Finished(stdout),
        (Some(3), _) => Iso::Panicked(stdout.trim_start_matches("PANIC ").trim().to_string()),
        (_, Some(sig)) if sig == libc::SIGXCPU || sig == libc::SIGKILL => Iso::CpuLimit,
        (_, Some(sig)) if sig == libc::SIGABRT && stderr.contains("memory allocation") => Iso::MemLimit(crate::engine::truncate(&stderr, 200)),
        (_, Some(sig)) if [libc::SIGABRT, libc::SIGSEGV, libc::SIGBUS, libc::SIGILL, libc::SIGFPE].contains(&sig) => Iso::Aborted(format!("signal {sig}: {}", crate::engine::truncate(stderr.trim(), 200))),
        (c, s) => Iso::Other(format!("exit {c:?} signal {s:?} stderr {}", crate::engine::truncate(&stderr, 200))),
    }
}

/// Called once per run by the binary.
pub fn init(property: &str, tier: &str, seed: u64, root: PathBuf) {
    let _ = RUN.set((property.to_string(), tier.to_string(), seed, root));
    *DISTINCT.lock().unwrap() = Some(Default::default());
    static STARTED: std::sync::Once = std::sync::Once::new();
    STARTED.call_once(|| {
        install_abort_handler();
        std::thread::spawn(|| {
            let mut cleared: HashSet<u64> = Default::default();
            loop {
                std::thread::sleep(Duration::from_millis(250));
                let tid = ABORT_TID.load(Ordering::SeqCst);
                if tid != 0 {
                    on_process_abort(tid);
                }
                let suspect = {
                    let g = INFLIGHT.lock().unwrap();
                    g.iter().find(|f| f.since.elapsed() > Duration::from_secs(SUSPECT_AFTER_S) && !cleared.contains(&f.id)).cloned()
                };
                let Some(info) = suspect else { continue };
                let input = crate::refimpl::unhex(&info.input_hex).unwrap_or_default();
                let iso = isolated_call(&info.entry, &input);
                if describe_nontermination(&iso).is_none() {
                    // the isolated run finished (or failed otherwise): the machine is merely slow
                    cleared.insert(info.id);
                    continue;
                }
                match HANDLER.get() {
                    Some(h) => h(&info, &iso),
                    None => default_handler(&info, &iso),
                }
            }
        });
    });
}

/// A thread raised SIGABRT. If it did so inside a guarded call and the abort reproduces in a fresh process
/// the property's handler decides (C17: violation); anything else is a harness problem or not reproducible
/// and ends the run as INCONCLUSIVE.
fn on_process_abort(tid: i64) -> ! {
    let prop = RUN.get().map(|r| r.0.clone()).unwrap_or_default();
    let info = INFLIGHT.lock().map(|g| g.iter().find(|f| f.tid == tid).cloned()).unwrap_or(None);
    let Some(info) = info else {
        println!("INCONCLUSIVE property={prop} the harness process aborted outside any call into the code under test");
        emergency_exit(&prop, "abort", &json!({"tid": tid}), None)
    };
    let input = crate::refimpl::unhex(&info.input_hex).unwrap_or_default();
    let iso = isolated_call(&info.entry, &input);
    if describe_nontermination(&iso).is_none() {
        let case = json!({"entry": info.entry, "input_hex": info.input_hex, "origin": info.origin});
        println!(
            "INCONCLUSIVE property={prop} the process aborted inside {} on {} bytes, but the same call ends normally in a fresh process ({iso:?})",
            info.entry,
            info.input_hex.len() / 2
        );
        emergency_exit(&prop, "abort", &case, None)
    }
    match HANDLER.get() {
        Some(h) => h(&info, &iso),
        None => default_handler(&info, &iso),
    }
}

pub fn set_handler(h: Handler) {
    let _ = HANDLER.set(h);
}

/// Registers the call as in flight while `f` runs. `entry` must be a name `hdv lib-call` understands and
/// `input` the bytes that entry point receives, so that the call can be re-executed in isolation.
pub fn inflight<T>(entry: &str, input: &[u8], origin: &str, f: impl FnOnce() -> T) -> T {
    let id = NEXT_ID.fetch_add(1, Ordering::Relaxed);
    let input_hex = crate::refimpl::hex_lower(input);
    let key = crate::engine::stable_hash(&(entry, input_hex.as_str()));
    INFLIGHT.lock().unwrap().push(Info { id, entry: entry.to_string(), input_hex, origin: origin.to_string(), since: Instant::now(), tid: gettid() });
    let r = f();
    INFLIGHT.lock().unwrap().retain(|x| x.id != id);
    EVALS.fetch_add(1, Ordering::Relaxed);
    if let Some(d) = DISTINCT.lock().unwrap().as_mut() {
        d.insert(key);
    }
    r
}

/// Properties other than C17: a call that does not terminate cannot be judged by their oracle; the run
/// ends as INCONCLUSIVE (exit 2) and points at C17, whose subject termination is.
fn default_handler(info: &Info, iso: &Iso) -> ! {
    let case = json!({"entry": info.entry, "input_hex": info.input_hex, "origin": info.origin});
    let prop = RUN.get().map(|r| r.0.clone()).unwrap_or_default();
    println!(
        "INCONCLUSIVE property={prop} a call into the code under test ({} on {} bytes) does not end normally: {}; termination and aborts are decided by C17 (./check C17 quick)",
        info.entry,
        info.input_hex.len() / 2,
        describe_nontermination(iso).unwrap_or_default()
    );
    emergency_exit(&prop, "termination", &case, None)
}

/// Ends the process from the watchdog thread with a valid evidence file: exit 1 with a VIOLATION line and
/// replay file when `failure` is given, exit 2 otherwise.
pub fn emergency_exit(prop: &str, sub: &str, case: &Value, failure: Option<&crate::engine::Failure>) -> ! {
    let (_, tier, seed, root) = RUN.get().cloned().unwrap_or((prop.to_string(), "quick".into(), 0, PathBuf::from("/verif")));
    let mut replays: Vec<String> = vec![];
    if let Some(f) = failure {
        let dir = root.join("replays");
        let _ = std::fs::create_dir_all(&dir);
        let h = crate::engine::stable_hash(&serde_json::to_string(case).unwrap());
        let path = dir.join(format!("{prop}-{sub}-{h:016x}.json"));
        let body = json!({"property": prop, "subcheck": sub, "seed": seed, "tier": tier, "case": case, "expected": f.expected, "observed": f.observed, "note": f.note});
        let _ = std::fs::write(&path, serde_json::to_string_pretty(&body).unwrap());
        println!("VIOLATION property={prop} replay={}", path.display());
        println!("  subcheck={sub} note={}\n  expected={}\n  observed={}", crate::engine::truncate(&f.note, 400), f.expected, f.observed);
        replays.push(path.display().to_string());
    }
    let evals = EVALS.load(Ordering::Relaxed).max(1);
    let distinct = DISTINCT.lock().unwrap().as_ref().map(|s| s.len()).unwrap_or(0);
    let ev = json!({
        "property_id": prop, "tier": tier, "seed": seed, "level": "exploration",
        "coverage": {
            "evaluations": evals, "distinct_nontrivial": distinct,
            "rule": "run ended by the termination watchdog: a call into the code under test did not terminate or aborted the process (confirmed in a fresh process under a CPU/memory limit); the counts are the guarded calls completed until then (distinct by entry point and input)",
            "samples": [{"class": "non-terminating", "case": case}],
            "violation_replays": replays,
            "inconclusive": if failure.is_none() { vec!["non-terminating or aborting call; see C17".to_string()] } else { vec![] },
        },
        "assumptions": [], "wall_s": 0.0, "violations": if failure.is_some() { 1 } else { 0 }
    });
    let edir = std::env::var_os("HDV_EVIDENCE_DIR").map(PathBuf::from).unwrap_or_else(|| root.join("evidence"));
    let _ = std::fs::create_dir_all(&edir);
    let _ = std::fs::write(edir.join(format!("{prop}.json")), serde_json::to_string_pretty(&ev).unwrap() + "\n");
    crate::cli::cleanup(&root);
    // _exit, not process::exit: the run-time's exit clean-up takes a lock that a thread parked inside the
    // stack-overflow handler still holds (observed as a deadlock)
    {
        use std::io::Write;
        let _ = std::io::stdout().flush();
        let _ = std::io::stderr().flush();
    }
    unsafe { libc::_exit(if failure.is_some() { 1 } else { 2 }) }
}
