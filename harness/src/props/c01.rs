//! C01 — mnemonic phrases and entropy are in exact BIP-39 correspondence.

use crate::engine::{catch, fail, replay_as, Classifier, Ctx, Prng, Verdict};
use crate::refimpl::bip39::{self, Invalid};
use hdwallet::mnemonic::Mnemonic;
use proptest::prelude::*;
use serde::{Deserialize, Serialize};
use serde_json::{json, Value};

const ASCII_WS: [&str; 8] = [" ", "  ", "\t", "\n", "\r\n", "\x0b", "\x0c", " \t \n"];

const UNIT_TEST_PHRASES: [&str; 5] = [
    "abandon abandon abandon abandon abandon abandon abandon abandon abandon abandon abandon about",
    "myth like bonus scare over problem client lizard pioneer submit female collect",
    "abandon abandon abandon abandon abandon abandon abandon abandon abandon abandon abandon abandon abandon abandon abandon abandon abandon abandon abandon abandon abandon abandon abandon art",
    "void come effort suffer camp survey warrior heavy shoot primary clutch crush open amazing screen patrol group space point ten exist slush involve unfold",
    "myth like bonus scare over problem client lizard pioneer submit female collect",
];

fn is_ascii_ws(c: char) -> bool {
    matches!(c, ' ' | '\t' | '\n' | '\r' | '\x0b' | '\x0c')
}

/// Judges one phrase text against the reference. This is the oracle of every
/// sub-check; the sub-checks differ only in how phrases are produced.
pub fn judge_phrase(phrase: &str, cls: &mut Classifier) -> Verdict {
    judge_phrase_via(phrase, cls, false)?;
    // the FromStr implementation (the entry point of --mnemonic / MNEMONIC) is held to the same oracle
    judge_phrase_via(phrase, cls, true)
}

fn judge_phrase_via(phrase: &str, cls: &mut Classifier, from_str: bool) -> Verdict {
    let entry = if from_str { "str::parse::<Mnemonic>" } else { "Mnemonic::from_phrase" };
    // inputs the property does not decide: non-ASCII white space
    let has_unicode_ws = phrase.chars().any(|c| c.is_whitespace() && !is_ascii_ws(c));
    let tokens = bip39::split_ascii_ws(phrase);
    // A word that differs from a list word only by letter case (or by a character that case-folds onto an
    // ASCII letter, like U+212A KELVIN SIGN) is not a word of the list: the list is lower case, the printed form
    // must be "the same words" and printing must invert parsing, so accepting `Legal` as `legal` breaks two
    // clauses. Such words are judged like any other unknown word.
    let got = crate::isolate::inflight("mnemonic", phrase.as_bytes(), "generated", || {
        catch(|| {
            let parsed = if from_str { phrase.parse::<Mnemonic>().map_err(|e| e.to_string()) } else { Mnemonic::from_phrase(phrase).map_err(|e| e.to_string()) };
            parsed.map(|m| (m.to_phrase(), m.to_string(), m.mnemonic_length() as usize))
        })
    });
    let got = match got {
        Ok(g) => g,
        Err(p) => {
            return fail(
                "accept or an error",
                p,
                format!("{entry} panicked on a phrase of {} tokens: {:?}", tokens.len(), crate::engine::truncate(phrase, 300)),
            )
        }
    };
    if has_unicode_ws {
        if !from_str {
            cls.unspecified("non-ascii-whitespace");
        }
        return Ok(());
    }
    let want = bip39::decode_phrase(phrase);
    match (&want, &got) {
        (Ok(entropy), Ok((printed, displayed, len))) => {
            let canonical = bip39::encode_phrase(entropy);
            let words: Vec<&str> = tokens.clone();
            if *printed != words.join(" ") || *printed != canonical {
                return fail(canonical, printed.clone(), "printed form of an accepted phrase (words joined by single spaces = reference encoding of entropy||checksum)");
            }
            if displayed != printed {
                return fail(printed.clone(), displayed.clone(), "Display differs from to_phrase");
            }
            if *len != words.len() {
                return fail(words.len().to_string(), len.to_string(), "mnemonic_length of an accepted phrase");
            }
            // printing and parsing are mutually inverse
            match catch(|| Mnemonic::from_phrase(printed).map(|m| m.to_phrase())) {
                Ok(Ok(again)) if again == *printed => {}
                other => return fail(printed.clone(), format!("{other:?}"), "re-parsing the printed phrase"),
            }
            if !from_str {
                cls.label(&format!("accepted-{}", words.len()));
            }
        }
        (Err(_), Err(_)) if from_str => {}
        (Err(why), Err(_)) => {
            cls.label(match why {
                Invalid::WordCount(_) => "rejected-word-count",
                Invalid::UnknownWord(_) => "rejected-unknown-word",
                Invalid::Checksum => "rejected-checksum",
            });
        }
        (Ok(_), Err(e)) => {
            return fail("accepted", format!("Err({e})"), format!("valid BIP-39 phrase refused by {entry}: {:?}", crate::engine::truncate(phrase, 300)));
        }
        (Err(why), Ok((printed, _, _))) => {
            return fail(
                format!("Err ({why:?})"),
                format!("accepted, prints {printed:?}"),
                format!("invalid phrase accepted by {entry} ({} tokens): {:?}", tokens.len(), crate::engine::truncate(phrase, 300)),
            );
        }
    }
    let distinct_words = {
        let mut t = tokens.clone();
        t.sort();
        t.dedup();
        t.len()
    };
    if !from_str && distinct_words >= 2 && !UNIT_TEST_PHRASES.contains(&tokens.join(" ").as_str()) {
        cls.nontrivial(phrase);
    }
    Ok(())
}

#[derive(Clone, Debug, Serialize, Deserialize)]
pub struct PhraseCase {
    pub phrase: String,
}

fn judge_case(c: &PhraseCase, cls: &mut Classifier) -> Verdict {
    let r = judge_phrase(&c.phrase, cls);
    if r.is_ok() {
        let n = bip39::split_ascii_ws(&c.phrase).len();
        cls.sample(&format!("tokens-{n}"), || json!(c.phrase));
    }
    r
}

// ---------------------------------------------------------------- (a) valid phrases with layouts

fn entropy_strategy() -> impl Strategy<Value = Vec<u8>> {
    (0usize..5, 0u8..8, any::<[u8; 32]>(), any::<u16>()).prop_map(|(li, class, rnd, bit)| {
        let n = [16, 20, 24, 28, 32][li];
        let mut e = rnd[..n].to_vec();
        match class {
            0 => e.iter_mut().for_each(|b| *b = 0),
            1 => e.iter_mut().for_each(|b| *b = 0xff),
            2 => {
                e.iter_mut().for_each(|b| *b = 0);
                let i = bit as usize % (n * 8);
                e[i / 8] |= 0x80 >> (i % 8);
            }
            3 => {
                e.iter_mut().for_each(|b| *b = 0xff);
                let i = bit as usize % (n * 8);
                e[i / 8] &= !(0x80 >> (i % 8));
            }
            4 => {
                let p = [rnd[0], rnd[1]];
                e.iter_mut().enumerate().for_each(|(i, b)| *b = p[i % 2]);
            }
            _ => {}
        }
        e
    })
}

fn layout(words: &[&str], seps: &[u8], lead: u8, trail: u8) -> String {
    let mut s = String::new();
    if lead % 3 == 1 {
        s.push_str(ASCII_WS[(lead / 3) as usize % ASCII_WS.len()]);
    }
    for (i, w) in words.iter().enumerate() {
        if i > 0 {
            let k = seps.get(i % seps.len().max(1)).copied().unwrap_or(0);
            // mostly single spaces, otherwise one of the other separators
            s.push_str(if k < 128 { " " } else { ASCII_WS[k as usize % ASCII_WS.len()] });
        }
        s.push_str(w);
    }
    if trail % 3 == 1 {
        s.push_str(ASCII_WS[(trail / 3) as usize % ASCII_WS.len()]);
    }
    s
}

fn valid_strategy() -> impl Strategy<Value = PhraseCase> {
    (entropy_strategy(), proptest::collection::vec(any::<u8>(), 1..24), any::<u8>(), any::<u8>()).prop_map(
        |(e, seps, lead, trail)| PhraseCase { phrase: layout(&bip39::encode_words(&e), &seps, lead, trail) },
    )
}

// ---------------------------------------------------------------- (b) word x position sweep

#[derive(Clone, Debug, Serialize, Deserialize)]
pub struct WordPos {
    pub len: usize,
    pub pos: usize,
    pub seed: u64,
}

/// entropy of `len` words whose `pos`-th 11-bit group equals `w`
fn entropy_with_word(len: usize, pos: usize, w: u16, p: &mut Prng) -> Vec<u8> {
    let nbytes = len * 4 / 3;
    let cs = len / 3;
    let mut e = p.bytes(nbytes);
    let set_bits = |e: &mut Vec<u8>, start: usize, count: usize, value: u16| {
        for k in 0..count {
            let bit = (value >> (count - 1 - k)) & 1;
            let i = start + k;
            if bit == 1 {
                e[i / 8] |= 0x80 >> (i % 8);
            } else {
                e[i / 8] &= !(0x80 >> (i % 8));
            }
        }
    };
    if pos + 1 < len {
        set_bits(&mut e, pos * 11, 11, w);
        e
    } else {
        // last word: top 11-cs bits are entropy, low cs bits are checksum; search filler
        let ent_bits = 11 - cs;
        set_bits(&mut e, pos * 11, ent_bits, w >> cs);
        let want = (w & ((1 << cs) - 1)) as u8;
        let mut ctr: u32 = 0;
        loop {
            e[0..4].copy_from_slice(&ctr.to_be_bytes());
            let h = crate::refimpl::sha256(&e);
            if h[0] >> (8 - cs) == want {
                return e;
            }
            ctr += 1;
        }
    }
}

fn judge_wordpos(c: &WordPos, cls: &mut Classifier) -> Verdict {
    let mut p = Prng::new(c.seed);
    for w in 0..2048u16 {
        let e = entropy_with_word(c.len, c.pos, w, &mut p);
        let idx = bip39::encode_indices(&e);
        assert_eq!(idx[c.pos], w, "harness: constructed entropy carries the word");
        let phrase = bip39::encode_phrase(&e);
        if w > 0 {
            cls.eval();
        }
        judge_phrase(&phrase, cls).map_err(|mut f| {
            f.note = format!("word #{w} ({}) at position {} of {}: {}", bip39::word(w), c.pos, c.len, f.note);
            f
        })?;
        if w == 777 {
            cls.sample("word-position", || json!({"len": c.len, "pos": c.pos, "word": bip39::word(w), "phrase": phrase}));
        }
    }
    cls.label("word-position-cell");
    Ok(())
}

// ---------------------------------------------------------------- (c)/(d) last-word sweeps over every word count

#[derive(Clone, Debug, Serialize, Deserialize)]
pub struct LastWord {
    /// indices of all words but the last
    pub prefix: Vec<u16>,
    /// separator index used between all words
    pub sep: usize,
}

fn judge_lastword(c: &LastWord, cls: &mut Classifier) -> Verdict {
    let k = c.prefix.len() + 1;
    let sep = ASCII_WS[c.sep % ASCII_WS.len()];
    let head: Vec<&str> = c.prefix.iter().map(|i| bip39::word(*i % 2048)).collect();
    let head = head.join(sep);
    let mut accepted_by_ref = 0u32;
    for w in 0..2048u16 {
        let phrase = if head.is_empty() { bip39::word(w).to_string() } else { format!("{head}{sep}{}", bip39::word(w)) };
        if w > 0 {
            cls.eval();
        }
        if bip39::decode_phrase(&phrase).is_ok() {
            accepted_by_ref += 1;
        }
        judge_phrase(&phrase, cls).map_err(|mut f| {
            f.note = format!("{k}-word phrase, last word #{w} ({}): {}", bip39::word(w), f.note);
            f
        })?;
    }
    let want = if bip39::LENGTHS.contains(&k) { 1u32 << (11 - k / 3) } else { 0 };
    assert_eq!(accepted_by_ref, want, "harness: reference accepts 2^(11-CS) final words");
    cls.label(&format!("lastword-sweep-{k}"));
    cls.sample(&format!("lastword-sweep-{}", if want > 0 { "valid-count" } else { "wrong-count" }), || {
        json!({"words": k, "prefix": head, "valid_last_words": want})
    });
    Ok(())
}

// ---------------------------------------------------------------- (e) unknown word

const FOREIGN: [&str; 12] = [
    "abaco", "abdomen", "zurdo", "abaisser", "zoologie", "abbaglio", "zuppa", "abacate", "zumbido", "abdikace", "zvon",
    "\u{3042}\u{3044}\u{3053}\u{304f}\u{3057}\u{3093}",
];

fn not_a_word(u: &mut crate::gen::U) -> String {
    for _ in 0..20 {
        let base = bip39::word(u.below(2048) as u16).to_string();
        let mut chars: Vec<char> = base.chars().collect();
        let cand = match u.below(17) {
            16 => {
                // a list word with NUL or other invisible padding attached (a fixed-width key would swallow it)
                let pad = ["\0", "\0\0", "\0\0\0\0", "\u{7f}", "\u{1}", "\u{200c}"][u.below(6)];
                match u.below(3) {
                    0 => format!("{base}{pad}"),
                    1 => format!("{pad}{base}"),
                    _ => {
                        // pad a short word to exactly eight bytes
                        let mut w = base.clone();
                        while w.len() < 8 {
                            w.push('\0');
                        }
                        if w == base { format!("{base}\0") } else { w }
                    }
                }
            }
            14 | 15 => {
                // letter-case variants of a list word and characters that case-fold onto ASCII letters
                match u.below(5) {
                    0 => base.to_uppercase(),
                    1 => {
                        let mut c = base.chars();
                        let first = c.next().map(|f| f.to_ascii_uppercase()).unwrap_or('A');
                        format!("{first}{}", c.as_str())
                    }
                    2 => {
                        let i = u.below(chars.len());
                        chars[i] = chars[i].to_ascii_uppercase();
                        chars.iter().collect()
                    }
                    3 => base.chars().enumerate().map(|(i, ch)| if i % 2 == 1 { ch.to_ascii_uppercase() } else { ch }).collect(),
                    _ => {
                        // a word containing k with U+212A KELVIN SIGN in its place (lower-cases to k)
                        let mut w = base.clone();
                        for _ in 0..40 {
                            if w.contains('k') {
                                break;
                            }
                            w = bip39::word(u.below(2048) as u16).to_string();
                        }
                        if w.contains('k') { w.replacen('k', "\u{212a}", 1) } else { w.to_uppercase() }
                    }
                }
            }
            0 => {
                let i = u.below(chars.len());
                chars.remove(i);
                chars.into_iter().collect()
            }
            1 => {
                let i = u.below(chars.len());
                chars[i] = (b'a' + u.below(26) as u8) as char;
                chars.into_iter().collect()
            }
            2 if chars.len() >= 2 => {
                let i = u.below(chars.len() - 1);
                chars.swap(i, i + 1);
                chars.into_iter().collect()
            }
            3 => chars.iter().take(4).collect::<String>(),
            4 => FOREIGN[u.below(FOREIGN.len())].to_string(),
            5 => format!("{base}{}", ["s", "x", "1", "-", ".", ","][u.below(6)]),
            6 => ["0", "12", "2047", "-", "_", "0x1f", "\u{e9}", "abandon,", "\"abandon\""][u.below(9)].to_string(),
            7 => format!("{base}{base}"),
            8 | 9 => {
                // a list word with one character replaced by a compatibility / confusable form, or with an
                // invisible character inserted: still not a word of the list
                let i = u.below(chars.len());
                let c = chars[i];
                let mut s: String = chars[..i].iter().collect();
                match u.below(8) {
                    0 => s.push(char::from_u32(0xff41 + (c as u32 - 'a' as u32)).unwrap_or(c)), // full-width
                    1 => {
                        s.push(c);
                        s.push(['\u{301}', '\u{308}', '\u{323}'][u.below(3)]); // combining mark
                    }
                    2 => s.push(char::from_u32(0x1d41a + (c as u32 - 'a' as u32)).unwrap_or(c)), // mathematical bold
                    3 => s.push(match c {
                        'a' => '\u{430}',
                        'e' => '\u{435}',
                        'o' => '\u{43e}',
                        'p' => '\u{440}',
                        'c' => '\u{441}',
                        'x' => '\u{445}',
                        'i' => '\u{456}',
                        _ => '\u{3b1}',
                    }), // Cyrillic / Greek look-alike
                    4 => {
                        s.push(c);
                        s.push(['\u{200b}', '\u{200d}', '\u{ad}', '\u{feff}', '\u{2060}'][u.below(5)]); // invisible
                    }
                    5 => s.push(char::from_u32(0x24d0 + (c as u32 - 'a' as u32)).unwrap_or(c)), // circled
                    6 => s.push(match c {
                        's' => '\u{17f}',
                        'k' => '\u{212a}',
                        _ => char::from_u32(0x1d552 + (c as u32 - 'a' as u32)).unwrap_or(c),
                    }), // long s, Kelvin sign, double-struck
                    _ => {
                        // ligature for "fi"/"fl"/"ff" if the word has one, else superscript-like modifier letter
                        let rest: String = chars[i..].iter().collect();
                        if rest.starts_with("fi") {
                            s.push('\u{fb01}');
                            s.push_str(&rest[2..]);
                            return s;
                        }
                        s.push(char::from_u32(0x1d43 + (c as u32 - 'a' as u32) % 10).unwrap_or(c));
                    }
                }
                s.extend(chars[i + 1..].iter());
                s
            }
            11 | 12 => {
                // a list word carrying quotation marks, brackets or punctuation (pasted from prose, JSON, a shell)
                const MARKS: [&str; 22] = ["\"", "'", "`", "(", ")", "[", "]", "<", ">", "{", "}", ",", ".", ";", ":", "\u{201c}", "\u{201d}", "\u{2018}", "\u{2019}", "\u{ab}", "\u{bb}", "\\"];
                let m = MARKS[u.below(MARKS.len())];
                match u.below(4) {
                    0 => format!("{m}{base}"),
                    1 => format!("{base}{m}"),
                    2 => format!("{m}{base}{m}"),
                    _ => format!("{m}{m}{base}"),
                }
            }
            _ => format!("{}{}", (b'a' + u.below(26) as u8) as char, base),
        };
        if !cand.is_empty() && !cand.chars().any(char::is_whitespace) && bip39::lookup(&cand).is_none() {
            return cand;
        }
    }
    "zzzz".to_string()
}

fn unknown_strategy() -> impl Strategy<Value = PhraseCase> {
    (entropy_strategy(), crate::gen::tape(64)).prop_map(|(e, tape)| {
        let mut u = crate::gen::U::new(&tape);
        let mut words: Vec<String> = bip39::encode_words(&e).into_iter().map(String::from).collect();
        if u.ratio(1, 10) {
            // the whole phrase inside quotation marks or brackets (balanced or not), as pasted from elsewhere
            const OPEN: [&str; 10] = ["\"", "'", "`", "(", "[", "<", "{", "\u{201c}", "\u{2018}", "\u{ab}"];
            const CLOSE: [&str; 10] = ["\"", "'", "`", ")", "]", ">", "}", "\u{201d}", "\u{2019}", "\u{bb}"];
            let k = u.below(OPEN.len());
            let last = words.len() - 1;
            match u.below(4) {
                0 => words[0] = format!("{}{}", OPEN[k], words[0]),
                1 => words[last] = format!("{}{}", words[last], CLOSE[k]),
                2 => {
                    words[0] = format!("{}{}", OPEN[k], words[0]);
                    words[last] = format!("{}{}", words[last], CLOSE[k]);
                }
                _ => {
                    words[0] = format!("{}{}{}", OPEN[k], OPEN[u.below(OPEN.len())], words[0]);
                    words[last] = format!("{}{}", words[last], CLOSE[k]);
                }
            }
            return PhraseCase { phrase: words.join(" ") };
        }
        let n = 1 + u.below(2);
        for _ in 0..n {
            // first and last word preferred: that is where a trimming step would look
            let i = match u.below(4) {
                0 => 0,
                1 => words.len() - 1,
                _ => u.below(words.len()),
            };
            words[i] = not_a_word(&mut u);
        }
        PhraseCase { phrase: words.join(" ") }
    })
}

// ---------------------------------------------------------------- (f) a valid phrase with words added or removed

/// A VALID phrase of one of the five lengths with 1..=16 list words appended, prepended or both, with
/// its tail cut off, or two valid phrases glued together: the word count (or the checksum) is wrong
/// although a valid mnemonic is embedded. Catches implementations that read only a prefix/suffix.
fn embedded_strategy() -> impl Strategy<Value = PhraseCase> {
    (entropy_strategy(), entropy_strategy(), crate::gen::tape(64)).prop_map(|(e, e2, tape)| {
        let mut u = crate::gen::U::new(&tape);
        let mut words: Vec<&str> = bip39::encode_words(&e);
        let extra = |u: &mut crate::gen::U| -> Vec<&'static str> {
            let n = 1 + u.below(16);
            (0..n).map(|_| bip39::word(u.below(2048) as u16)).collect()
        };
        match u.below(8) {
            0 => words.extend(extra(&mut u)),
            1 => {
                let mut w = extra(&mut u);
                w.extend(words);
                words = w;
            }
            2 => {
                let mut w = extra(&mut u);
                w.extend(words);
                w.extend(extra(&mut u));
                words = w;
            }
            3 => {
                let cut = 1 + u.below(words.len().min(13));
                words.truncate(words.len() - cut);
            }
            4 => words.extend(bip39::encode_words(&e2)),
            5 | 6 => {
                // list markers and other tokens that are no words, ADDED to a valid phrase (a pasted numbered list,
                // a position label, bullet points): more tokens than words - refused
                const MARKS: [&str; 20] = ["1", "1.", "12", "13", "24", "2048", "#1", "1)", "1:", ".", "...", ":", ")", "-", "*", "(1)", "[1]", "01", "\u{2022}", "0x1"];
                let mut owned: Vec<String> = words.iter().map(|w| w.to_string()).collect();
                if u.ratio(1, 3) {
                    // the whole phrase as a numbered list
                    let style = u.below(4);
                    owned = owned
                        .iter()
                        .enumerate()
                        .flat_map(|(i, w)| {
                            let label = match style {
                                0 => format!("{}.", i + 1),
                                1 => format!("{})", i + 1),
                                2 => format!("{}", i + 1),
                                _ => format!("#{}:", i + 1),
                            };
                            [label, w.clone()]
                        })
                        .collect();
                } else {
                    for _ in 0..1 + u.below(3) {
                        let at = match u.below(3) {
                            0 => 0,
                            1 => owned.len(),
                            _ => u.below(owned.len() + 1),
                        };
                        owned.insert(at, MARKS[u.below(MARKS.len())].to_string());
                    }
                }
                return PhraseCase { phrase: owned.join(" ") };
            }
            _ => {
                // repeat the phrase's own last or first word
                if u.bool() {
                    words.push(words[words.len() - 1]);
                } else {
                    words.insert(0, words[0]);
                }
            }
        }
        PhraseCase { phrase: words.join(" ") }
    })
}

// ---------------------------------------------------------------- run

// ---------------------------------------------------------------- (g) through the executable

#[derive(Clone, Debug, Serialize, Deserialize)]
pub struct CliPhrase {
    pub phrase: String,
    /// MNEMONIC variable instead of --mnemonic=
    pub via_env: bool,
    /// address | public-key | export
    pub cmd: String,
}

fn wrong_checksum_strategy() -> impl Strategy<Value = PhraseCase> {
    (entropy_strategy(), 0u16..2048, 0usize..24).prop_map(|(e, w, pos)| {
        let mut words: Vec<&str> = bip39::encode_words(&e);
        let i = if pos % 3 == 0 { words.len() - 1 } else { pos % words.len() };
        words[i] = bip39::word(w);
        PhraseCase { phrase: words.join(" ") }
    })
}

fn cli_strategy() -> impl Strategy<Value = CliPhrase> {
    (prop_oneof![valid_strategy(), unknown_strategy(), embedded_strategy(), wrong_checksum_strategy()], any::<bool>(), 0usize..3).prop_map(|(c, via_env, k)| CliPhrase {
        phrase: c.phrase.replace('\0', ""),
        via_env,
        cmd: ["address", "public-key", "export"][k].to_string(),
    })
}

/// A subcommand taking the mnemonic accepts it exactly when the phrase is valid (then it acts on the wallet of
/// that entropy) and otherwise ends with an ordinary error and prints nothing.
fn judge_cli(c: &CliPhrase, cls: &mut Classifier) -> Verdict {
    use crate::cli::Invocation;
    let phrase = &c.phrase;
    let tokens = bip39::split_ascii_ws(phrase);
    let has_unicode_ws = phrase.chars().any(|ch| ch.is_whitespace() && !is_ascii_ws(ch));
    let mut inv = Invocation::new(&[c.cmd.as_str()]);
    inv = if c.via_env { inv.env("MNEMONIC", phrase.clone()) } else { inv.arg(format!("--mnemonic={phrase}")) };
    let Some(out) = crate::cli::run_global(&inv) else { return fail("cli", "not configured", "CLI not available") };
    if out.timed_out {
        cls.label("cli-timed-out");
        return Ok(());
    }
    let shown = format!("`hdwallet {}` with the phrase {:?} by {}", c.cmd, crate::engine::truncate(phrase, 300), if c.via_env { "MNEMONIC" } else { "--mnemonic=" });
    if out.panicked() {
        return fail("a result or an ordinary error", out.describe(), shown);
    }
    if has_unicode_ws {
        cls.unspecified("cli-unspecified-phrase");
        return Ok(());
    }
    match bip39::decode_phrase(phrase) {
        Ok(entropy) => {
            let seed = bip39::seed_from_normalised(&bip39::encode_phrase(&entropy), "");
            let key = crate::refimpl::bip32::derive(&seed, &crate::refimpl::bip32::default_path(0)).expect("reference key");
            let public = crate::refimpl::secp::mul_g(&key).expect("valid key");
            let want = match c.cmd.as_str() {
                "address" => format!("0x{}\n", crate::refimpl::hex_lower(&crate::refimpl::address_of(&public))),
                "public-key" => format!("0x{}\n", crate::refimpl::hex_lower(&crate::refimpl::secp::uncompressed(&public))),
                _ => format!("0x{}\n", crate::refimpl::hex_lower(&key)),
            };
            if !out.ok() || !out.stdout_str().eq_ignore_ascii_case(&want) {
                return fail(want, out.describe(), format!("{shown}: a valid phrase must be accepted and select the wallet of its entropy"));
            }
            cls.label("cli-accepted");
        }
        Err(why) => {
            if !out.ordinary_error() || !out.stdout.is_empty() {
                return fail(format!("ordinary error and empty stdout ({why:?})"), out.describe(), format!("{shown}: an invalid phrase must be refused"));
            }
            cls.label("cli-rejected");
        }
    }
    cls.nontrivial(&(phrase.as_str(), c.via_env, c.cmd.as_str()));
    Ok(())
}

pub fn run(ctx: &mut Ctx) {
    ctx.rule = "phrases rendered from (a) entropy of the five sizes x {uniform, all-0, all-1, single bit set/clear, periodic} with ASCII white-space layouts, (b) every word in every position of every length (184320 valid phrases, exhaustive), (c)/(d) for every word count 1..=40 a random prefix followed by each of the 2048 final words (so the checksum cannot mask a wrong length table), plus empty/blank phrases, (e) valid phrases with 1-2 non-words, (f) valid phrases with 1..16 list words appended/prepended/both, with their tail cut off, repeated end words, or two valid phrases glued. (g) a sample of (a), (e), (f) and wrong-checksum phrases through the executable (`address` / `public-key` / `export` with --mnemonic= or MNEMONIC): accepted phrases must select the wallet of their entropy, all others end with an ordinary error and empty stdout. Every phrase is judged through Mnemonic::from_phrase and through str::parse::<Mnemonic>(). Oracle: bit-string BIP-39 reference with its own word list: accept <=> valid; accepted phrases print canonically, report their word count and re-parse. Non-trivial: >= 2 distinct words and not a unit-test vector; distinct by phrase text.".into();
    ctx.assumptions = vec![
        "sha2::Sha256 is correct".into(),
        "harness/data/bip39-english.txt is the canonical BIP-39 English list (sha256 pinned in code)".into(),
    ];
    ctx.replay_known_and_regressions(&replay);
    let t = ctx.tier;

    ctx.run_prop("valid", t.pick(40_000, 500_000), valid_strategy, judge_case);

    // phrases made of the longest / shortest words (text length extremes: 24 words up to ~215 bytes)
    let mut extremes = vec![];
    for len in bip39::LENGTHS {
        for long in [true, false] {
            for k in 0..t.pick(10, 100) {
                let mut p = Prng::new(ctx.sub_seed("extremes", (len * 1000 + k) as u64 * 2 + u64::from(long)));
                let e = bip39::entropy_with_word_lengths(len, long, |n| p.below(n as u64) as usize);
                extremes.push(PhraseCase { phrase: bip39::encode_phrase(&e) });
            }
        }
    }
    ctx.run_cases("valid", &extremes, judge_case);
    // valid phrases made only of list words that are also hexadecimal digit strings (add, beef, dad, decade, face,
    // fade, fee, feed, ...): text an input-format detector would take for hex
    let hexwords: Vec<&'static str> = (0..2048u16).map(bip39::word).filter(|w| w.bytes().all(|b| (b'a'..=b'f').contains(&b))).collect();
    let mut looks_hex = vec![];
    if hexwords.len() >= 2 {
        let mut p = Prng::new(ctx.sub_seed("hexwords", 0));
        let mut tries = 0;
        while looks_hex.len() < t.pick(40, 400) && tries < 200_000 {
            tries += 1;
            let len = bip39::LENGTHS[p.below(5) as usize];
            let mut w: Vec<&str> = (0..len - 1).map(|_| hexwords[p.below(hexwords.len() as u64) as usize]).collect();
            for last in &hexwords {
                w.push(last);
                let phrase = w.join(" ");
                if bip39::decode_phrase(&phrase).is_ok() {
                    looks_hex.push(PhraseCase { phrase });
                    w.pop();
                    break;
                }
                w.pop();
            }
        }
    }
    ctx.run_cases("valid", &looks_hex, judge_case);
    if looks_hex.len() < 20 {
        ctx.inconclusive(format!("only {} hex-looking valid phrases could be constructed", looks_hex.len()));
    }

    // (b)
    let mut cells = vec![];
    for len in bip39::LENGTHS {
        for pos in 0..len {
            cells.push(WordPos { len, pos, seed: ctx.sub_seed("wordpos", (len * 100 + pos) as u64) });
        }
    }
    ctx.run_cases("wordpos", &cells, judge_wordpos);
    ctx.exhaustive_parts.push("every word x every position x every length (184320 valid phrases)".into());

    // (c)/(d)
    let prefixes = t.pick(2, 16);
    let mut sweeps = vec![];
    for k in 1..=40usize {
        for j in 0..prefixes {
            let mut p = Prng::new(ctx.sub_seed("lastword", (k * 1000 + j) as u64));
            let prefix: Vec<u16> = (0..k - 1).map(|_| p.below(2048) as u16).collect();
            sweeps.push(LastWord { prefix, sep: if j == 0 { 0 } else { p.below(8) as usize } });
        }
    }
    // all-same-word prefixes (the shape of the unit-test vectors) for every count
    for k in 1..=40usize {
        sweeps.push(LastWord { prefix: vec![0; k - 1], sep: 0 });
        sweeps.push(LastWord { prefix: vec![2047; k - 1], sep: 0 });
    }
    ctx.run_cases("lastword", &sweeps, judge_lastword);
    ctx.exhaustive_parts.push("all 2048 final words for every word count 1..=40 (per sampled prefix)".into());
    let blanks: Vec<PhraseCase> =
        ["", " ", "\n", "\t \r\n", "  \x0b\x0c "].iter().map(|s| PhraseCase { phrase: s.to_string() }).collect();
    ctx.run_cases("blank", &blanks, judge_case);

    ctx.run_prop("unknown", t.pick(20_000, 200_000), unknown_strategy, judge_case);
    ctx.run_prop("embedded", t.pick(20_000, 200_000), embedded_strategy, judge_case);

    if crate::cli::global_cli().is_some() {
        ctx.shrink_iters = 150;
        ctx.run_prop("cli", t.pick(400, 8000), cli_strategy, judge_cli);
        if ctx.cls.count("cli-timed-out") > 0 {
            ctx.inconclusive("CLI watchdog expired");
        }
        ctx.floor_abs("cli-accepted", t.pick(60, 1200));
        ctx.floor_abs("cli-rejected", t.pick(120, 2400));
    } else {
        ctx.inconclusive("CLI executable not available for the --mnemonic / MNEMONIC sample");
    }
    crate::fuzz::run_for(ctx);
    for l in bip39::LENGTHS {
        ctx.floor_abs(&format!("accepted-{l}"), 2048);
    }
    ctx.floor_abs("rejected-word-count", 35 * 2048);
    ctx.floor_abs("rejected-checksum", 5 * 1024);
    ctx.floor_abs("rejected-unknown-word", t.pick(15_000, 150_000));
}

pub fn replay(sub: &str, case: &Value) -> Option<Verdict> {
    match sub {
        "valid" | "unknown" | "blank" | "phrase" | "embedded" => Some(replay_as::<PhraseCase>(case, judge_case)),
        "wordpos" => Some(replay_as::<WordPos>(case, judge_wordpos)),
        "cli" => Some(replay_as::<CliPhrase>(case, judge_cli)),
        "lastword" => Some(replay_as::<LastWord>(case, judge_lastword)),
        _ => None,
    }
}
