//! C12 — new mnemonics carry exactly the OS entropy; entropy failure is an error.
//!
//! Fault injection at the `getentropy` boundary, two ways: in-process (the
//! `hdv` binary exports the symbol, `entropy::with_script` scripts and logs
//! every call) and for the executable (LD_PRELOAD shim, counter-mode PRF of
//! (GE_SEED, call index), per-call log file, failure from call GE_FAIL_FROM).

use crate::cli::{self, CliOut, Invocation};
use crate::engine::{catch, fail, replay_as, truncate, Classifier, Ctx, Prng, Verdict};
use crate::entropy::{with_script, Outcome};
use crate::gen::U;
use crate::refimpl::{self, bip32, bip39, hex_lower, secp, unhex};
use hdwallet::mnemonic::{Language, Mnemonic};
use proptest::prelude::*;
use serde::{Deserialize, Serialize};
use serde_json::{json, Value};
use std::path::PathBuf;
use std::sync::atomic::{AtomicU32, Ordering};
use std::sync::OnceLock;
use std::time::Duration;

// ---------------------------------------------------------------- run-time paths

struct Paths {
    cli: PathBuf,
    shim: PathBuf,
    root: PathBuf,
}

static PATHS: OnceLock<Option<Paths>> = OnceLock::new();

fn set_paths(ctx: &Ctx) {
    PATHS.get_or_init(|| {
        let cli = ctx.cli.clone().or_else(|| std::env::var_os("HDV_CLI").map(PathBuf::from))?;
        let shim = ctx.shim.clone().or_else(|| std::env::var_os("HDV_SHIM").map(PathBuf::from))?;
        if !cli.is_file() || !shim.is_file() {
            return None;
        }
        Some(Paths { cli, shim, root: ctx.root.clone() })
    });
}

fn paths() -> Result<&'static Paths, crate::engine::Failure> {
    match PATHS.get().and_then(|p| p.as_ref()) {
        Some(p) => Ok(p),
        None => Err(crate::engine::Failure {
            expected: "paths of the hdwallet executable and the getentropy shim".into(),
            observed: "not available (--cli/--shim or HDV_CLI/HDV_SHIM)".into(),
            note: "harness: CLI sub-check judged without executable".into(),
            known: None,
        }),
    }
}

/// `new -n L` under the seeded shim with a pseudo-terminal as standard output: exactly what it prints into a pipe
/// (one line, the phrase) - a user generating a wallet sees it on a terminal.
#[derive(Clone, Debug, Serialize, Deserialize)]
pub struct TtyNewCase {
    pub length: u64,
    pub ge_seed: u64,
}

fn judge_tty_new(c: &TtyNewCase, cls: &mut Classifier) -> Verdict {
    let p = paths()?;
    let env = vec![("LD_PRELOAD".to_string(), p.shim.display().to_string()), ("GE_SEED".to_string(), c.ge_seed.to_string())];
    let l = c.length.to_string();
    let args = ["new", "-n", l.as_str()];
    let os: Vec<std::ffi::OsString> = args.iter().map(std::ffi::OsString::from).collect();
    let pipe = cli::run_raw(&p.cli, &os, &env, &[], NEW_TIMEOUT);
    if pipe.timed_out {
        return Ok(());
    }
    let Some(tty) = cli::run_tty_env(&p.cli, &args, &env, &[], false, true) else {
        cls.label("tty-not-available-or-timeout");
        return Ok(());
    };
    if (tty.code, &tty.stdout) != (pipe.code, &pipe.stdout) {
        return fail(format!("as into a pipe: {}", pipe.describe()), tty.describe(), format!("`hdwallet new -n {}` (GE_SEED={}) with standard output a terminal", c.length, c.ge_seed));
    }
    cls.label("terminal");
    cls.nontrivial(&("tty", c.length, c.ge_seed));
    Ok(())
}

const NEW_TIMEOUT: Duration = Duration::from_secs(20);
/// A one-digit search needs ~16 candidates of ~7 ms; the reference gives up after SEARCH_LIMIT.
const VANITY_TIMEOUT: Duration = Duration::from_secs(30);

/// Watchdog expiries so far. A change that turns "error" into "search for
/// ever" would otherwise cost one full timeout per case; after a few
/// expiries the remaining executable cases are skipped (and the run is
/// INCONCLUSIVE anyway).
static TIMEOUTS: AtomicU32 = AtomicU32::new(0);
const MAX_TIMEOUTS: u32 = 4;

fn timed_out(cls: &mut Classifier) {
    TIMEOUTS.fetch_add(1, Ordering::Relaxed);
    cls.label(L_TIMEOUT);
}

fn skip_after_timeouts(cls: &mut Classifier) -> bool {
    if TIMEOUTS.load(Ordering::Relaxed) >= MAX_TIMEOUTS {
        cls.label(L_SKIPPED);
        return true;
    }
    false
}

/// Labels that mean "the premise of the check did not hold"; turned into
/// INCONCLUSIVE by run(), never into a violation.
const L_TIMEOUT: &str = "premise/timed-out";
const L_SKIPPED: &str = "premise/skipped-after-repeated-timeouts";
const L_NO_CALL: &str = "premise/no-getentropy-call-observed";
const L_STREAM: &str = "premise/shim-stream-mismatch";

// ---------------------------------------------------------------- reference helpers

/// Bytes the shim delivers for call `i` when asked for `n` bytes.
fn prf_block(seed: u64, i: u64, n: usize) -> Vec<u8> {
    Prng::new(seed ^ (i + 1).wrapping_mul(0xD1B5_4A32_D192_ED03)).bytes(n)
}

/// Address of account 0 (m/44'/60'/0'/0/0, empty passphrase) of a canonical
/// phrase, by the reference stack only.
fn ref_address(phrase: &str) -> Option<[u8; 20]> {
    let seed = bip39::seed_from_normalised(phrase, "");
    let k = bip32::derive(&seed, &bip32::default_path(0)).ok()?;
    let p = secp::mul_g(&k)?;
    Some(refimpl::address_of(&p))
}

/// Entropy bytes of a supported word count (`bip39::entropy_len` evaluates
/// its product eagerly, so huge values are filtered here first).
fn ent_len(length: u64) -> Option<usize> {
    if length > 24 {
        return None;
    }
    bip39::entropy_len(length as usize)
}

fn hex_digit_value(d: &str) -> Option<u8> {
    let b = d.as_bytes();
    if b.len() != 1 {
        return None;
    }
    match b[0] {
        b'0'..=b'9' => Some(b[0] - b'0'),
        b'a'..=b'f' => Some(b[0] - b'a' + 10),
        _ => None,
    }
}

// ================================================================ in-process

#[derive(Clone, Debug, Serialize, Deserialize, PartialEq)]
pub enum Feed {
    /// every request is answered with this pattern, cycled to the requested size
    Fill { pattern_hex: String },
    /// every request fails with this errno
    Fail { errno: i32 },
}

/// One call of `Mnemonic::random(English, length)` under a scripted source.
#[derive(Clone, Debug, Serialize, Deserialize)]
pub struct Generation {
    pub length: u64,
    /// how the pattern was chosen (model; the judge uses only `feed`)
    pub kind: String,
    pub feed: Feed,
}

/// Consecutive generations in one process (so that state carried from one
/// generation into the next shows).
#[derive(Clone, Debug, Serialize, Deserialize)]
pub struct InprocCase {
    pub generations: Vec<Generation>,
}

const ERRNOS: [i32; 6] = [libc::EIO, libc::EINTR, libc::ENOSYS, libc::EFAULT, libc::EPERM, libc::EAGAIN];

const BIG_LENGTHS: [u64; 31] = [
    // values that collapse onto a supported length when narrowed to 8, 16 or 32 bits
    256 + 12,
    256 + 15,
    256 + 18,
    256 + 21,
    256 + 24,
    512 + 12,
    65536 + 12,
    65536 + 24,
    (1 << 32) + 12,
    (1 << 32) + 24,
    (1 << 63) + 12,
    (1 << 63) + 24,
    41,
    42,
    45,
    48,
    64,
    96,
    128,
    255,
    256,
    257,
    1 << 16,
    1 << 31,
    1 << 32,
    u64::MAX / 352,
    u64::MAX / 352 + 1,
    u64::MAX / 11,
    u64::MAX / 11 + 1,
    u64::MAX - 1,
    u64::MAX,
];

const KINDS: [&str; 9] = [
    "uniform",
    "zero",
    "ones",
    "counter",
    "single-bit-set",
    "single-bit-clear",
    "period-2",
    "short-cycle",
    "one-bit-from-previous",
];

fn gen_pattern(u: &mut U, kind: &str, length: u64, prev: Option<&Vec<u8>>) -> Vec<u8> {
    let n = ent_len(length).unwrap_or(16);
    match kind {
        "zero" => vec![0; 32],
        "ones" => vec![0xff; 32],
        "counter" => {
            let s = u.byte();
            (0..32u8).map(|i| s.wrapping_add(i)).collect()
        }
        "single-bit-set" => {
            let mut p = vec![0u8; 32];
            let i = u.below(n * 8);
            p[i / 8] |= 0x80 >> (i % 8);
            p
        }
        "single-bit-clear" => {
            let mut p = vec![0xffu8; 32];
            let i = u.below(n * 8);
            p[i / 8] &= !(0x80 >> (i % 8));
            p
        }
        "period-2" => {
            let (a, b) = (u.byte(), u.byte());
            (0..32).map(|i| if i % 2 == 0 { a } else { b }).collect()
        }
        "short-cycle" => {
            let k = 1 + u.below(31);
            u.bytes(k)
        }
        "one-bit-from-previous" => {
            let mut p = match prev {
                Some(p) if !p.is_empty() => {
                    // expand the previous pattern to 32 bytes so that the flipped bit is well defined
                    (0..32).map(|i| p[i % p.len()]).collect::<Vec<u8>>()
                }
                _ => u.bytes(32),
            };
            let i = u.below(n * 8);
            p[i / 8] ^= 0x80 >> (i % 8);
            p
        }
        _ => u.bytes(32),
    }
}

fn gen_generation(u: &mut U, length: u64, forced: Option<&str>, prev: Option<&Vec<u8>>) -> Generation {
    let kind: String = match forced {
        Some(k) => k.to_string(),
        None => {
            if u.ratio(1, 5) {
                format!("fail-{}", u.pick(&ERRNOS))
            } else if u.ratio(1, 2) {
                "uniform".to_string()
            } else {
                u.pick(&KINDS).to_string()
            }
        }
    };
    if let Some(e) = kind.strip_prefix("fail-") {
        return Generation { length, kind: kind.clone(), feed: Feed::Fail { errno: e.parse().unwrap_or(libc::EIO) } };
    }
    let p = gen_pattern(u, &kind, length, prev);
    Generation { length, kind, feed: Feed::Fill { pattern_hex: hex_lower(&p) } }
}

fn gen_length(u: &mut U) -> u64 {
    match u.below(20) {
        0..=9 => u.pick(&bip39::LENGTHS) as u64,
        10..=16 => u.below(41) as u64,
        _ => u.pick(&BIG_LENGTHS),
    }
}

fn inproc_strategy() -> impl Strategy<Value = InprocCase> {
    crate::gen::tape(256).prop_map(|t| {
        let mut u = U::new(&t);
        let n = 1 + u.below(4);
        let mut generations: Vec<Generation> = vec![];
        let mut prev: Option<Vec<u8>> = None;
        for _ in 0..n {
            // every second follow-up generation keeps the length so that "one bit from previous" bites
            let length = match generations.last() {
                Some(g) if u.bool() => g.length,
                _ => gen_length(&mut u),
            };
            let g = gen_generation(&mut u, length, None, prev.as_ref());
            if let Feed::Fill { pattern_hex } = &g.feed {
                prev = unhex(pattern_hex);
            }
            generations.push(g);
        }
        InprocCase { generations }
    })
}

type RandomOut = Result<(String, String, usize), String>;

fn call_random(length: usize, outcomes: Vec<Outcome>, default: Outcome) -> (Result<RandomOut, String>, Vec<crate::entropy::Call>) {
    with_script(outcomes, default, || {
        catch(|| {
            // (the conversion keeps the harness compiling if the parameter type is narrowed; a length the
            // parameter type cannot express can only be refused)
            #[allow(irrefutable_let_patterns)]
            let Ok(n) = length.try_into() else { return Err("length not expressible in the parameter type".to_string()) };
            Mnemonic::random(Language::English, n)
                .map(|m| (m.to_phrase(), m.to_string(), m.mnemonic_length() as usize))
                .map_err(|e| format!("{e:#}"))
        })
    })
}

fn describe_calls(log: &[crate::entropy::Call]) -> String {
    let v: Vec<String> = log
        .iter()
        .map(|c| match (&c.delivered, c.errno) {
            (Some(d), _) => format!("request({}) -> {}", c.requested, hex_lower(d)),
            (None, e) => format!("request({}) -> errno {}", c.requested, e.unwrap_or(0)),
        })
        .collect();
    format!("[{}]", v.join(", "))
}

fn judge_generation(gi: usize, g: &Generation, cls: &mut Classifier) -> Verdict {
    let length = usize::try_from(g.length).unwrap_or(usize::MAX);
    let (outcomes, default, pattern) = match &g.feed {
        Feed::Fill { pattern_hex } => {
            let Some(p) = unhex(pattern_hex) else {
                return fail("hex pattern", pattern_hex.clone(), "bad replay case");
            };
            // a second request (not expected) gets the complement, so it cannot pass for the first
            let other: Vec<u8> = if p.is_empty() { vec![0xff] } else { p.iter().map(|b| !b).collect() };
            (vec![Outcome::Fill(p.clone())], Outcome::Fill(other), Some(p))
        }
        // the failure persists for 64 requests, then the source works: a retry loop terminates and shows as Ok
        Feed::Fail { errno } => (vec![Outcome::Fail(*errno); 64], Outcome::Fill(vec![0xa5, 0x5a, 0xc3]), None),
    };
    let what = format!("generation #{gi}: Mnemonic::random(English, {}) with source {:?}", g.length, g.feed);
    let (res, log) = call_random(length, outcomes.clone(), default.clone());
    let res = match res {
        Ok(r) => r,
        Err(p) => return fail("Ok(phrase) or Err", p, format!("{what}: panicked; calls {}", describe_calls(&log))),
    };
    let supported = ent_len(g.length);
    match (supported, pattern) {
        (None, _) => {
            if let Ok((phrase, _, _)) = &res {
                return fail(
                    "Err (unsupported length)",
                    format!("Ok({phrase:?})"),
                    format!("{what}: a length other than 12/15/18/21/24 was not refused; calls {}", describe_calls(&log)),
                );
            }
            cls.label("inproc/unsupported-length-refused");
            cls.label(if g.length <= 40 { "inproc/unsupported-length-0..40" } else { "inproc/unsupported-length-big" });
            cls.nontrivial(&("inproc-unsupported", g.length, &g.feed_key()));
            cls.sample("inproc-unsupported-length", || json!({"case": g, "result": res.as_ref().err()}));
        }
        (Some(_), None) => {
            if let Ok((phrase, _, _)) = &res {
                return fail(
                    "Err (the entropy source reported failure)",
                    format!("Ok({phrase:?})"),
                    format!("{what}: a phrase was produced although getentropy failed; calls {}", describe_calls(&log)),
                );
            }
            if log.is_empty() {
                // refused without asking the source: the failure premise was never exercised
                cls.label(L_NO_CALL);
                return Ok(());
            }
            cls.label("inproc/failure-is-error");
            cls.label(&format!("inproc/failure-L{length}"));
            cls.nontrivial(&("inproc-fail", g.length, &g.feed_key()));
            cls.sample("inproc-failure", || json!({"case": g, "result": res.as_ref().err(), "calls": describe_calls(&log)}));
        }
        (Some(n), Some(_)) => {
            let (phrase, displayed, mlen) = match &res {
                Ok(v) => v.clone(),
                Err(e) => {
                    return fail(
                        format!("Ok(phrase of {length} words)"),
                        format!("Err({e})"),
                        format!("{what}: generation of a supported length failed although the source delivered; calls {}", describe_calls(&log)),
                    )
                }
            };
            if log.is_empty() {
                // No request seen. Either the entropy is not fresh (violation) or it comes from a
                // source this check cannot see (premise broken): a second generation tells.
                let (again, _) = call_random(length, outcomes, default);
                return match again {
                    Ok(Ok((p2, _, _))) if p2 == phrase => fail(
                        "entropy from the OS source, fresh for every generation",
                        format!("no getentropy request; the same phrase twice: {phrase:?}"),
                        format!("{what}: the phrase does not come from the entropy source"),
                    ),
                    _ => {
                        cls.label(L_NO_CALL);
                        Ok(())
                    }
                };
            }
            // getentropy(3) documents EINTR ("interrupted by a signal"): retrying such a request until the
            // source delivers is not "ignoring a failure" - accepted if the phrase is exactly the bytes of the
            // request that finally succeeded (counted as unspecified); any other errno must surface as an error
            let only_eintr = log.iter().filter(|c| c.delivered.is_none()).all(|c| c.errno == Some(libc::EINTR));
            let last_ok = log.last().and_then(|c| c.delivered.clone());
            if only_eintr && log.iter().any(|c| c.delivered.is_none()) {
                if let Some(d) = last_ok.filter(|d| d.len() == n && log.iter().filter(|c| c.delivered.is_some()).count() == 1) {
                    if phrase == bip39::encode_phrase(&d) && log.iter().all(|c| c.requested == n) {
                        cls.unspecified("retried-after-EINTR-and-used-the-delivered-bytes");
                        return Ok(());
                    }
                }
            }
            if let Some(bad) = log.iter().find(|c| c.delivered.is_none()) {
                return fail(
                    "Err (a request failed)",
                    format!("Ok({phrase:?})"),
                    format!("{what}: request({}) failed with errno {:?} and was ignored; calls {}", bad.requested, bad.errno, describe_calls(&log)),
                );
            }
            let delivered: Vec<u8> = log.iter().flat_map(|c| c.delivered.clone().unwrap_or_default()).collect();
            if delivered.len() != n {
                return fail(
                    format!("exactly {n} bytes requested from the source for {length} words"),
                    describe_calls(&log),
                    format!("{what}: the bytes taken from the source are not exactly the phrase's entropy (phrase {phrase:?})"),
                );
            }
            let want = bip39::encode_phrase(&delivered);
            if phrase != want {
                return fail(
                    want,
                    phrase,
                    format!("{what}: phrase is not the BIP-39 encoding of the delivered bytes {}", hex_lower(&delivered)),
                );
            }
            if displayed != phrase {
                return fail(phrase, displayed, format!("{what}: Display differs from to_phrase"));
            }
            if mlen != length {
                return fail(length.to_string(), mlen.to_string(), format!("{what}: mnemonic_length()"));
            }
            match catch(|| Mnemonic::from_phrase(&phrase).map(|_| ()).map_err(|e| format!("{e:#}"))) {
                Ok(Ok(())) => {}
                Ok(Err(e)) => return fail("parses back", format!("Err({e})"), format!("{what}: generated phrase {phrase:?} is refused by Mnemonic::from_phrase")),
                Err(p) => return fail("parses back", p, format!("{what}: Mnemonic::from_phrase panicked on the generated phrase {phrase:?}")),
            }
            cls.label(&format!("inproc/ok-L{length}"));
            cls.label(&format!("inproc/kind-{}", g.kind));
            if log.len() == 1 {
                cls.label("inproc/single-request");
            }
            let trivial = length == 12 && delivered.iter().all(|b| *b == 0);
            if !trivial {
                cls.nontrivial(&("inproc-ok", g.length, &delivered));
            }
            cls.sample(&format!("inproc-ok-{}", if g.kind == "uniform" { "uniform" } else { "patterned" }), || {
                json!({"case": g, "delivered": hex_lower(&delivered), "phrase": phrase})
            });
        }
    }
    Ok(())
}

impl Generation {
    fn feed_key(&self) -> String {
        match &self.feed {
            Feed::Fill { pattern_hex } => format!("fill:{pattern_hex}"),
            Feed::Fail { errno } => format!("fail:{errno}"),
        }
    }
}

/// Every case starts with one unjudged generation per distinct length of
/// the case, fed with this fixed pattern. Correct code is unaffected; code
/// that carries entropy from one generation into a later one is then caught
/// by the case itself, in a fresh process too (replay), and not only thanks
/// to whatever cases the same process happened to run before.
const PRIMING_PATTERN: [u8; 3] = [0x5a, 0xa5, 0x3c];

fn judge_inproc(c: &InprocCase, cls: &mut Classifier) -> Verdict {
    let mut primed: Vec<u64> = vec![];
    for g in &c.generations {
        if !primed.contains(&g.length) {
            primed.push(g.length);
            let length = usize::try_from(g.length).unwrap_or(usize::MAX);
            let _ = call_random(length, vec![], Outcome::Fill(PRIMING_PATTERN.to_vec()));
        }
    }
    for (gi, g) in c.generations.iter().enumerate() {
        if gi > 0 {
            cls.eval();
        }
        judge_generation(gi, g, cls)?;
    }
    if c.generations.len() > 1 {
        cls.label("inproc/multi-generation-case");
    }
    Ok(())
}

/// Enumerated part: every length x a fixed list of script kinds plus random ones.
fn inproc_sweep(ctx: &Ctx, scripts: usize) -> Vec<InprocCase> {
    const FIXED: [&str; 10] = ["zero", "ones", "counter", "fail-5", "fail-4", "fail-38", "single-bit-set", "single-bit-clear", "period-2", "short-cycle"];
    let mut out = vec![];
    let lengths: Vec<u64> = (0..=40u64).chain(BIG_LENGTHS.iter().copied()).collect();
    for l in lengths {
        for s in 0..scripts {
            let tape = Prng::new(ctx.sub_seed("lengths", l.wrapping_mul(1_000_003).wrapping_add(s as u64))).bytes(160);
            let mut u = U::new(&tape);
            let first = gen_generation(&mut u, l, Some(FIXED.get(s).copied().unwrap_or("uniform")), None);
            let mut generations = vec![first];
            if s >= FIXED.len() && s % 3 == 0 {
                // same length again, source differs from the previous delivery in one bit
                let prev = match &generations[0].feed {
                    Feed::Fill { pattern_hex } => unhex(pattern_hex),
                    _ => None,
                };
                generations.push(gen_generation(&mut u, l, Some("one-bit-from-previous"), prev.as_ref()));
            }
            out.push(InprocCase { generations });
        }
    }
    out
}

// ================================================================ CLI plumbing

#[derive(Clone, Debug)]
struct LogCall {
    index: u64,
    requested: usize,
    delivered: Option<Vec<u8>>,
    errno: Option<i32>,
}

fn parse_log(text: &str) -> Vec<LogCall> {
    let mut calls = vec![];
    // a line is written with one write(2); an unterminated tail (process killed) is dropped
    let complete = match text.rfind('\n') {
        Some(i) => &text[..i],
        None => "",
    };
    for line in complete.lines() {
        let mut it = line.split(' ');
        let (Some(i), Some(len)) = (it.next().and_then(|s| s.parse().ok()), it.next().and_then(|s| s.parse().ok())) else { continue };
        let rest: Vec<&str> = it.filter(|s| !s.is_empty()).collect();
        let call = match rest.as_slice() {
            ["ERR", e] => LogCall { index: i, requested: len, delivered: None, errno: Some(e.parse().unwrap_or(0)) },
            [h] => LogCall { index: i, requested: len, delivered: unhex(h), errno: None },
            _ => LogCall { index: i, requested: len, delivered: Some(vec![]), errno: None },
        };
        calls.push(call);
    }
    calls.sort_by_key(|c| c.index);
    calls
}

fn describe_log(calls: &[LogCall]) -> String {
    let v: Vec<String> = calls
        .iter()
        .take(40)
        .map(|c| match (&c.delivered, c.errno) {
            (Some(d), _) => format!("#{} request({}) -> {}", c.index, c.requested, hex_lower(d)),
            (None, e) => format!("#{} request({}) -> errno {}", c.index, c.requested, e.unwrap_or(0)),
        })
        .collect();
    format!("[{}]{}", v.join(", "), if calls.len() > 40 { format!(" … {} calls", calls.len()) } else { String::new() })
}

/// Shim environment of one run. `LD_PRELOAD` and `GE_LOG` are run-time paths
/// and therefore not part of the stored case.
#[derive(Clone, Debug, Default, Serialize, Deserialize, PartialEq, Eq, Hash)]
pub struct Shim {
    /// false: no LD_PRELOAD at all (the real libc function, nothing logged)
    pub preload: bool,
    /// GE_SEED; None = the shim passes the request to the real source and logs what it returned
    pub ge_seed: Option<u64>,
    /// GE_FAIL_FROM
    pub fail_from: Option<u64>,
    /// GE_FAIL_AT (only this request fails)
    #[serde(default)]
    pub fail_at: Option<u64>,
    /// ambient variables of the user's shell (locale, terminal): the outcome may not depend on them
    #[serde(default)]
    pub ambient: Vec<(String, String)>,
}

struct Run {
    out: CliOut,
    calls: Vec<LogCall>,
    shown: String,
}

fn run_hdwallet(args: &[String], shim: &Shim, timeout: Duration) -> Result<Run, crate::engine::Failure> {
    let p = paths()?;
    let mut inv = Invocation { args: args.to_vec(), env: vec![], stdin_hex: String::new() };
    let mut log_path = None;
    if shim.preload {
        let lp = cli::temp_file(&p.root, b"");
        inv = inv.env("LD_PRELOAD", p.shim.display().to_string()).env("GE_LOG", lp.display().to_string());
        if let Some(s) = shim.ge_seed {
            inv = inv.env("GE_SEED", s.to_string());
        }
        if let Some(k) = shim.fail_from {
            inv = inv.env("GE_FAIL_FROM", k.to_string());
        }
        if let Some(k) = shim.fail_at {
            inv = inv.env("GE_FAIL_AT", k.to_string());
        }
        log_path = Some(lp);
    }
    for (k, v) in &shim.ambient {
        inv = inv.env(k, v.clone());
    }
    let out = cli::run(&p.cli, &inv, timeout);
    let calls = match &log_path {
        Some(lp) => {
            let text = std::fs::read_to_string(lp).unwrap_or_default();
            let _ = std::fs::remove_file(lp);
            parse_log(&text)
        }
        None => vec![],
    };
    let shown = format!(
        "hdwallet {}  [env: {}]",
        args.iter().map(|a| format!("{a:?}")).collect::<Vec<_>>().join(" "),
        if shim.preload {
            format!(
                "LD_PRELOAD=<shim> GE_LOG=<file>{}{}{}",
                shim.ge_seed.map(|s| format!(" GE_SEED={s}")).unwrap_or_default(),
                shim.fail_from.map(|k| format!(" GE_FAIL_FROM={k}")).unwrap_or_default(),
                shim.ambient.iter().map(|(k, v)| format!(" {k}={:?}", crate::engine::truncate(v, 40))).collect::<String>()
            )
        } else {
            "no shim".to_string()
        }
    );
    Ok(Run { out, calls, shown })
}

/// stdout must be exactly one line `<phrase>\n`.
fn printed_phrase(out: &CliOut) -> Option<String> {
    let s = String::from_utf8(out.stdout.clone()).ok()?;
    let line = s.strip_suffix('\n')?;
    if line.is_empty() || line.contains('\n') {
        return None;
    }
    Some(line.to_string())
}

/// "The tool can parse the phrase back": `hdwallet address --mnemonic <phrase>` succeeds.
fn parse_back(phrase: &str, cls: &mut Classifier, origin: &str) -> Verdict {
    let args: Vec<String> = ["address", "--mnemonic", phrase].iter().map(|s| s.to_string()).collect();
    let r = run_hdwallet(&args, &Shim::default(), NEW_TIMEOUT)?;
    if r.out.timed_out {
        timed_out(cls);
        return Ok(());
    }
    if !r.out.ok() {
        return fail(
            "exit 0 (the tool parses its own phrase)",
            r.out.describe(),
            format!("phrase printed by `{origin}` is refused by `{}`", r.shown),
        );
    }
    cls.label("cli/parsed-back");
    Ok(())
}

fn require_error(r: &Run, why: &str) -> Verdict {
    if r.out.panicked() {
        return fail("ordinary error exit, nothing on stdout", r.out.describe(), format!("{}: {why}: the process panicked / died; calls {}", r.shown, describe_log(&r.calls)));
    }
    if !r.out.ordinary_error() || !r.out.stdout.is_empty() {
        return fail("ordinary error exit, nothing on stdout", r.out.describe(), format!("{}: {why}; calls {}", r.shown, describe_log(&r.calls)));
    }
    Ok(())
}

/// With GE_SEED the shim's deliveries are a known function; a mismatch means
/// the harness (not hdwallet) is broken.
fn stream_consistent(calls: &[LogCall], seed: u64) -> bool {
    calls.iter().all(|c| match &c.delivered {
        Some(d) => c.requested > 256 || *d == prf_block(seed, c.index, c.requested),
        None => true,
    })
}

// ================================================================ CLI: `new [-n L]`

#[derive(Clone, Debug, Serialize, Deserialize)]
pub struct NewCase {
    /// requested length; None = no length argument
    pub length: Option<u64>,
    /// how the length is spelled on the command line (model)
    pub spelling: String,
    /// the property decides the outcome (false: odd number spellings, only "no panic" is judged)
    pub specified: bool,
    pub args: Vec<String>,
    pub shim: Shim,
}

fn new_case(length: Option<u64>, spelling: &str, shim: Shim) -> NewCase {
    let mut args = vec!["new".to_string()];
    let l = length.map(refimpl_dec).unwrap_or_default();
    match spelling {
        "-n L" => args.extend(["-n".to_string(), l]),
        "-nL" => args.push(format!("-n{l}")),
        "--length L" => args.extend(["--length".to_string(), l]),
        "--length=L" => args.push(format!("--length={l}")),
        "-n=L" => args.push(format!("-n={l}")),
        _ => {}
    }
    NewCase { length, spelling: spelling.to_string(), specified: true, args, shim }
}

fn refimpl_dec(n: u64) -> String {
    refimpl::dec(n as u128)
}

fn odd_case(text: &str, shim: Shim) -> NewCase {
    NewCase {
        length: None,
        spelling: format!("odd:{text}"),
        specified: false,
        args: vec!["new".to_string(), "-n".to_string(), text.to_string()],
        shim,
    }
}

fn judge_new(c: &NewCase, cls: &mut Classifier) -> Verdict {
    if skip_after_timeouts(cls) {
        return Ok(());
    }
    let r = run_hdwallet(&c.args, &c.shim, NEW_TIMEOUT)?;
    if r.out.timed_out {
        timed_out(cls);
        return Ok(());
    }
    if let Some(seed) = c.shim.ge_seed {
        if !stream_consistent(&r.calls, seed) {
            cls.label(L_STREAM);
            return Ok(());
        }
    }
    if !c.specified {
        if r.out.panicked() {
            return fail("a phrase or an ordinary error", r.out.describe(), format!("{}: panicked / died", r.shown));
        }
        cls.unspecified("length-argument-spelling");
        cls.label("cli-new/odd-spelling-no-panic");
        return Ok(());
    }
    // default length: the property does not say which; any supported one is taken
    let supported: Option<Option<usize>> = match c.length {
        None => Some(None),
        Some(l) => ent_len(l).map(Some),
    };
    let fails_at_0 = c.shim.fail_from == Some(0);
    match supported {
        None => {
            require_error(&r, "an unsupported length must be refused")?;
            cls.label("cli-new/unsupported-length-refused");
            cls.label(if fails_at_0 { "cli-new/unsupported+failing-source" } else { "cli-new/unsupported+working-source" });
            cls.nontrivial(&("cli-new-unsupported", c.length, &c.spelling, &c.shim));
            cls.sample("cli-new-unsupported", || json!({"case": c, "exit": r.out.code, "stderr": truncate(&r.out.stderr_str(), 120)}));
        }
        Some(_) if fails_at_0 => {
            require_error(&r, "the entropy source failed; generation must fail and print no phrase")?;
            if r.calls.is_empty() {
                cls.label(L_NO_CALL);
                return Ok(());
            }
            cls.label("cli-new/failure-at-call-0-is-error");
            cls.nontrivial(&("cli-new-fail", c.length, &c.spelling, &c.shim));
            cls.sample("cli-new-failure", || json!({"case": c, "exit": r.out.code, "stderr": truncate(&r.out.stderr_str(), 160), "calls": describe_log(&r.calls)}));
        }
        Some(n_opt) => {
            if !r.out.ok() {
                return fail(
                    "exit 0 and one phrase on stdout",
                    r.out.describe(),
                    format!("{}: generation of a supported length failed although the source delivered; calls {}", r.shown, describe_log(&r.calls)),
                );
            }
            let Some(phrase) = printed_phrase(&r.out) else {
                return fail("exactly one line `<phrase>\\n` on stdout", r.out.describe(), format!("{}: output shape", r.shown));
            };
            if r.calls.is_empty() {
                let again = run_hdwallet(&c.args, &c.shim, NEW_TIMEOUT)?;
                if again.out.ok() && printed_phrase(&again.out).as_deref() == Some(&phrase) {
                    return fail(
                        "entropy from the OS source, fresh for every invocation",
                        format!("no getentropy request; the same phrase from two invocations: {phrase:?}"),
                        format!("{}: the phrase does not come from the entropy source", r.shown),
                    );
                }
                cls.label(L_NO_CALL);
                return Ok(());
            }
            if let Some(bad) = r.calls.iter().find(|k| k.delivered.is_none()) {
                return fail(
                    "error exit (a request failed)",
                    r.out.describe(),
                    format!("{}: request #{} failed and was ignored; calls {}", r.shown, bad.index, describe_log(&r.calls)),
                );
            }
            let delivered: Vec<u8> = r.calls.iter().flat_map(|k| k.delivered.clone().unwrap_or_default()).collect();
            let n_ok = match n_opt {
                Some(n) => delivered.len() == n,
                None => matches!(delivered.len(), 16 | 20 | 24 | 28 | 32),
            };
            if !n_ok {
                return fail(
                    match n_opt {
                        Some(n) => format!("exactly {n} bytes requested from the source"),
                        None => "exactly the entropy bytes of one supported length requested".to_string(),
                    },
                    describe_log(&r.calls),
                    format!("{}: the bytes taken from the source are not exactly the phrase's entropy (printed {phrase:?})", r.shown),
                );
            }
            let want = bip39::encode_phrase(&delivered);
            if phrase != want {
                return fail(want, phrase, format!("{}: printed phrase is not the BIP-39 encoding of the delivered bytes {}", r.shown, hex_lower(&delivered)));
            }
            parse_back(&phrase, cls, &r.shown)?;
            let words = phrase.split(' ').count();
            match c.length {
                Some(_) => cls.label(&format!("cli-new/ok-L{words}")),
                None => {
                    cls.unspecified("default-length-value");
                    cls.label("cli-new/ok-default-length");
                }
            }
            if c.shim.fail_from.is_some() {
                cls.label("cli-new/failure-after-last-request-is-harmless");
            }
            if c.shim.ge_seed.is_none() {
                cls.label("cli-new/real-entropy-logged");
            }
            cls.label(&format!("cli-new/spelling {}", c.spelling));
            cls.nontrivial(&("cli-new-ok", c.length, &delivered));
            if c.shim.ge_seed.is_some() {
                cls.sample("cli-new-ok", || json!({"case": c, "delivered": hex_lower(&delivered), "stdout": r.out.stdout_str()}));
            }
        }
    }
    Ok(())
}

fn new_cases(ctx: &Ctx, seeds_per_length: u64, big_seeds: u64) -> Vec<NewCase> {
    let mut v = vec![];
    let mut ctr = 0u64;
    let mut seed = |tag: &str| {
        ctr += 1;
        ctx.sub_seed(tag, ctr)
    };
    let seeded = |s: u64| Shim { preload: true, ge_seed: Some(s), fail_from: None, fail_at: None, ambient: vec![] };
    // every length 0..=40 x shim seeds, `-n L`
    for l in 0..=40u64 {
        for _ in 0..seeds_per_length {
            v.push(new_case(Some(l), "-n L", seeded(seed("new"))));
        }
        // failure at the first (only) request
        v.push(new_case(Some(l), "-n L", Shim { preload: true, ge_seed: Some(seed("new")), fail_from: Some(0), fail_at: None, ambient: vec![] }));
    }
    for l in bip39::LENGTHS {
        let l = l as u64;
        for _ in 0..big_seeds {
            // failure at request 0 with other seeds, failure only after the last request, other spellings
            v.push(new_case(Some(l), "-n L", Shim { preload: true, ge_seed: Some(seed("new")), fail_from: Some(0), fail_at: None, ambient: vec![] }));
            v.push(new_case(Some(l), "-n L", Shim { preload: true, ge_seed: Some(seed("new")), fail_from: Some(1), fail_at: None, ambient: vec![] }));
            for sp in ["-nL", "--length L", "--length=L", "-n=L"] {
                v.push(new_case(Some(l), sp, seeded(seed("new"))));
            }
            // the real source, observed through the shim
            v.push(new_case(Some(l), "-n L", Shim { preload: true, ge_seed: None, fail_from: None, fail_at: None, ambient: vec![] }));
        }
    }
    for l in BIG_LENGTHS {
        for _ in 0..big_seeds {
            v.push(new_case(Some(l), "-n L", seeded(seed("new"))));
        }
    }
    for _ in 0..big_seeds.max(2) {
        v.push(new_case(None, "default", seeded(seed("new"))));
        v.push(new_case(None, "default", Shim { preload: true, ge_seed: Some(seed("new")), fail_from: Some(0), fail_at: None, ambient: vec![] }));
    }
    for t in [
        "+12", "012", "0012", " 12", "12 ", "0x0c", "0xc", "1_2", "12.0", "1e1", "-1", "-0", "", "twelve", "\u{661}\u{662}", "\u{ff11}\u{ff12}",
        "18446744073709551616", "99999999999999999999999999", "12,15", "12\n",
    ] {
        v.push(odd_case(t, seeded(seed("new"))));
    }
    // every third case runs under generated ambient variables (locale, terminal, ...)
    for (i, c) in v.iter_mut().enumerate() {
        if i % 3 == 1 {
            let tape = crate::engine::Prng::new(ctx.sub_seed("ambient", i as u64)).bytes(64);
            c.shim.ambient = cli::ambient_env(&mut U::new(&tape));
        }
    }
    v
}

// ================================================================ CLI: vanity search

#[derive(Clone, Debug, Serialize, Deserialize)]
pub struct VanityCase {
    pub length: u64,
    /// one lower-case hex digit
    pub digit: String,
    pub threads: u64,
    pub ge_seed: u64,
    /// GE_FAIL_FROM = k: requests 0..k-1 deliver, request k and later fail
    pub fail_from: Option<u64>,
    pub args: Vec<String>,
}

fn vanity_case(length: u64, digit: u8, threads: u64, ge_seed: u64, fail_from: Option<u64>) -> VanityCase {
    let d = (b"0123456789abcdef"[(digit & 15) as usize] as char).to_string();
    let args = vec![
        "new".to_string(),
        "-n".to_string(),
        refimpl_dec(length),
        "--vanity-prefix".to_string(),
        format!("0x{d}"),
        "-j".to_string(),
        refimpl_dec(threads),
    ];
    VanityCase { length, digit: d, threads, ge_seed, fail_from, args }
}

/// Upper bound of the reference's search in unfailed deterministic runs
/// ((15/16)^600 < 2^-55).
const SEARCH_LIMIT: u64 = 600;

fn judge_vanity(c: &VanityCase, cls: &mut Classifier) -> Verdict {
    let (Some(n), Some(nibble)) = (ent_len(c.length), hex_digit_value(&c.digit)) else {
        return fail("supported length and one hex digit", format!("{c:?}"), "bad replay case");
    };
    if skip_after_timeouts(cls) {
        return Ok(());
    }
    let shim = Shim { preload: true, ge_seed: Some(c.ge_seed), fail_from: c.fail_from, fail_at: None, ambient: vec![] };
    let r = run_hdwallet(&c.args, &shim, VANITY_TIMEOUT)?;
    if r.out.timed_out {
        timed_out(cls);
        return Ok(());
    }
    if !stream_consistent(&r.calls, c.ge_seed) {
        cls.label(L_STREAM);
        return Ok(());
    }
    if r.out.panicked() {
        return fail("a phrase or an ordinary error", r.out.describe(), format!("{}: panicked / died; calls {}", r.shown, describe_log(&r.calls)));
    }
    let tag = match (c.threads, c.fail_from) {
        (0 | 1, Some(_)) => "vanity-fail",
        (0 | 1, None) => "vanity-seq",
        (_, Some(_)) => "vanity-mt-fail",
        (_, None) => "vanity-mt",
    };
    if c.threads <= 1 {
        // one searcher: candidate i is exactly request i, so the outcome is a function of the stream
        let limit = c.fail_from.unwrap_or(SEARCH_LIMIT);
        let mut winner: Option<(u64, String)> = None;
        for i in 0..limit {
            let phrase = bip39::encode_phrase(&prf_block(c.ge_seed, i, n));
            if let Some(a) = ref_address(&phrase) {
                if a[0] >> 4 == nibble {
                    winner = Some((i, phrase));
                    break;
                }
            }
        }
        match (winner, c.fail_from) {
            (Some((i, phrase)), _) => {
                let want = format!("{phrase}\n");
                if !r.out.ok() || r.out.stdout_str() != want {
                    return fail(
                        format!("exit 0, stdout {want:?} (request #{i} is the first whose account-0 address starts with 0x{})", c.digit),
                        r.out.describe(),
                        format!("{}: the printed phrase must be the encoding of the first matching delivered block; calls {}", r.shown, describe_log(&r.calls)),
                    );
                }
                // the winning request must have asked for exactly the phrase's entropy
                if let Some(bad) = r.calls.iter().find(|k| k.index == i && k.requested != n) {
                    return fail(
                        format!("request #{i} asks for exactly {n} bytes"),
                        format!("request({})", bad.requested),
                        format!("{}: the bytes taken from the source are not exactly the phrase's entropy; calls {}", r.shown, describe_log(&r.calls)),
                    );
                }
                parse_back(&phrase, cls, &r.shown)?;
                cls.label(&format!("{tag}/printed-first-matching-block"));
                cls.label(&format!("{tag}/{}", if i == 0 { "winner-is-request-0" } else { "winner-is-a-later-request" }));
                cls.sample(&format!("{tag}-printed"), || json!({"case": c, "winning_request": i, "stdout": r.out.stdout_str()}));
            }
            (None, Some(k)) => {
                require_error(&r, &format!("none of the {k} delivered blocks matches and request #{k} fails: the search must end with an error and print nothing"))?;
                cls.label(&format!("{tag}/error-no-match-before-failure"));
                cls.label(&format!("{tag}/{}", if k == 0 { "failure-at-request-0" } else { "failure-at-a-later-request" }));
                cls.sample(&format!("{tag}-error"), || json!({"case": c, "exit": r.out.code, "stderr": truncate(&r.out.stderr_str(), 160), "requests_seen": r.calls.len()}));
            }
            (None, None) => {
                cls.unspecified("no-match-within-reference-search-limit");
                return Ok(());
            }
        }
        if let Some(k) = c.fail_from {
            cls.label(&format!("{tag}/fail-from-request-{k:02}"));
        }
    } else {
        // several searchers: which request wins depends on scheduling; what must hold regardless:
        // a printed phrase is the encoding of one delivered block of exactly n bytes, else an ordinary error
        if r.out.ok() {
            let Some(phrase) = printed_phrase(&r.out) else {
                return fail("exactly one line `<phrase>\\n` on stdout", r.out.describe(), format!("{}: output shape", r.shown));
            };
            let ok = r.calls.iter().any(|k| match &k.delivered {
                Some(d) => d.len() == n && k.requested == n && bip39::encode_phrase(d) == phrase,
                None => false,
            });
            if !ok {
                return fail(
                    format!("the BIP-39 encoding of one of the delivered {n}-byte blocks"),
                    phrase,
                    format!("{}: the printed phrase is not made of exactly the bytes of one request; calls {}", r.shown, describe_log(&r.calls)),
                );
            }
            parse_back(&phrase, cls, &r.shown)?;
            cls.label(&format!("{tag}/printed-a-delivered-block"));
            cls.sample(&format!("{tag}-printed"), || json!({"case": c, "requests_seen": r.calls.len()}));
        } else {
            if c.fail_from.is_none() {
                return fail("exit 0 and a phrase (no failure injected)", r.out.describe(), format!("{}: calls {}", r.shown, describe_log(&r.calls)));
            }
            require_error(&r, "after an injected failure the run may only end with an ordinary error")?;
            cls.label(&format!("{tag}/error"));
        }
    }
    cls.label(&format!("{tag}/threads-{}", c.threads));
    cls.nontrivial(&("vanity", c.length, &c.digit, c.threads, c.ge_seed, c.fail_from));
    Ok(())
}

fn vanity_fail_cases(ctx: &Ctx, reps: u64) -> Vec<VanityCase> {
    let mut v = vec![];
    for rep in 0..reps {
        for threads in [0u64, 1] {
            for k in 0..=24u64 {
                let mut p = Prng::new(ctx.sub_seed("vanity-fail", rep * 1000 + threads * 100 + k));
                // mostly 12 words, every length present
                let length = if p.below(2) == 0 { 12 } else { bip39::LENGTHS[p.below(5) as usize] as u64 };
                v.push(vanity_case(length, p.below(16) as u8, threads, p.next_u64(), Some(k)));
            }
        }
    }
    v
}

fn vanity_other_cases(ctx: &Ctx, reps: u64) -> Vec<VanityCase> {
    let mut v = vec![];
    for rep in 0..reps {
        for (ti, threads) in [0u64, 1, 2, 3, 16].into_iter().enumerate() {
            let mut p = Prng::new(ctx.sub_seed("vanity", rep * 100 + ti as u64));
            let length = bip39::LENGTHS[((rep as usize) + ti) % 5] as u64;
            v.push(vanity_case(length, p.below(16) as u8, threads, p.next_u64(), None));
            if threads >= 2 {
                // failure somewhere in a concurrent search: schedule-independent part only
                v.push(vanity_case(length, p.below(16) as u8, threads, p.next_u64(), Some(1 + p.below(40))));
            }
        }
    }
    v
}

// ================================================================ CLI: the real source

#[derive(Clone, Debug, Serialize, Deserialize)]
pub struct RealCase {
    pub length: u64,
    /// independent invocations of `hdwallet new -n <length>`
    pub runs: u64,
    /// true: through the shim in pass-through mode (requests logged); false: no shim at all
    pub logged: bool,
}

fn judge_real(c: &RealCase, cls: &mut Classifier) -> Verdict {
    let Some(n) = ent_len(c.length) else {
        return fail("supported length", c.length.to_string(), "bad replay case");
    };
    if skip_after_timeouts(cls) {
        return Ok(());
    }
    let args = vec!["new".to_string(), "-n".to_string(), refimpl_dec(c.length)];
    let shim = Shim { preload: c.logged, ge_seed: None, fail_from: None, fail_at: None, ambient: vec![] };
    let mut seen: Vec<String> = vec![];
    for run in 0..c.runs {
        if run > 0 {
            cls.eval();
        }
        let r = run_hdwallet(&args, &shim, NEW_TIMEOUT)?;
        if r.out.timed_out {
            timed_out(cls);
            return Ok(());
        }
        let phrase = match (r.out.ok(), printed_phrase(&r.out)) {
            (true, Some(p)) => p,
            _ => return fail("exit 0 and one phrase", r.out.describe(), format!("{} (real entropy source), invocation {run}", r.shown)),
        };
        let entropy = match bip39::decode_phrase(&phrase) {
            Ok(e) if e.len() == n && bip39::encode_phrase(&e) == phrase => e,
            other => {
                return fail(
                    format!("a canonical BIP-39 phrase of {} words", c.length),
                    format!("{phrase:?} ({other:?})"),
                    format!("{} (real entropy source), invocation {run}", r.shown),
                )
            }
        };
        if c.logged {
            if r.calls.is_empty() {
                cls.label(L_NO_CALL);
                return Ok(());
            }
            let delivered: Vec<u8> = r.calls.iter().flat_map(|k| k.delivered.clone().unwrap_or_default()).collect();
            if delivered != entropy || r.calls.iter().any(|k| k.delivered.is_none()) {
                return fail(
                    format!("entropy = the bytes the source returned: {}", describe_log(&r.calls)),
                    hex_lower(&entropy),
                    format!("{} (real entropy source), invocation {run}: printed {phrase:?}", r.shown),
                );
            }
        }
        if seen.contains(&phrase) {
            return fail(
                "pairwise distinct phrases from independent invocations",
                format!("{phrase:?} printed twice within {} invocations", run + 1),
                format!("{} (real entropy source): entropy repeated across invocations", r.shown),
            );
        }
        if run == 0 {
            parse_back(&phrase, cls, &r.shown)?;
        }
        seen.push(phrase);
        cls.label(if c.logged { "real/valid-distinct-and-equal-to-logged-bytes" } else { "real/valid-distinct-no-shim" });
        cls.nontrivial(&("real", c.length, c.logged, run));
    }
    cls.sample("real-entropy", || json!({"case": c, "distinct_phrases": seen.len()}));
    Ok(())
}

// ================================================================ run / replay

fn premise_to_inconclusive(ctx: &mut Ctx) {
    for (label, why) in [
        (L_TIMEOUT, "watchdog expired on hdwallet runs"),
        (L_SKIPPED, "executable cases skipped after repeated watchdog expiries"),
        (L_NO_CALL, "the code under test made no getentropy request where one was expected (interposition premise broken)"),
        (L_STREAM, "the shim's logged bytes differ from the documented stream (harness/shim out of sync)"),
    ] {
        let n = ctx.cls.count(label);
        if n > 0 {
            ctx.inconclusive(format!("{why}: {n} case(s)"));
        }
    }
}

// ---------------------------------------------------------------- transient failure during a concurrent search

/// `new --vanity-prefix 0x<3 digits> -j N` (N >= 2) where exactly ONE entropy request (index k >= 1) fails.
/// The source reported a failure, so the search must end with an error - unless a match had already been
/// found. Schedule-independent oracle: a printed phrase is accepted when its block was requested before
/// the failing request (the match preceded the failure) and tolerated when it was requested at most
/// TRANSIENT_MARGIN requests after it (workers that were already running when the failure was reported);
/// a phrase from a later block means the search went on after the failure and is a violation.
#[derive(Clone, Debug, Serialize, Deserialize)]
pub struct TransientCase {
    pub digits: String,
    pub threads: usize,
    pub ge_seed: u64,
    pub fail_at: u64,
}

const TRANSIENT_MARGIN: u64 = 400;

fn judge_transient(c: &TransientCase, cls: &mut Classifier) -> Verdict {
    if TIMEOUTS.load(Ordering::SeqCst) >= MAX_TIMEOUTS {
        cls.label(L_SKIPPED);
        return Ok(());
    }
    let args: Vec<String> = ["new", "--vanity-prefix", &format!("0x{}", c.digits), "-j", &c.threads.to_string()].iter().map(|s| s.to_string()).collect();
    let shim = Shim { preload: true, ge_seed: Some(c.ge_seed), fail_from: None, fail_at: Some(c.fail_at), ambient: vec![] };
    let r = run_hdwallet(&args, &shim, Duration::from_secs(120))?;
    if r.out.timed_out {
        timed_out(cls);
        return Ok(());
    }
    if r.out.panicked() {
        return fail("a phrase or an ordinary error", r.out.describe(), format!("{}: panic / abnormal end", r.shown));
    }
    let failed = r.calls.iter().any(|x| x.index == c.fail_at && x.delivered.is_none());
    if !failed {
        // the search ended before the failing request was made
        cls.label("vanity-transient:failure-not-reached");
        return Ok(());
    }
    if r.out.ordinary_error() && r.out.stdout.is_empty() {
        cls.label("vanity-transient:error");
        cls.nontrivial(&(c.digits.as_str(), c.threads, c.ge_seed, c.fail_at));
        return Ok(());
    }
    let Some(phrase) = printed_phrase(&r.out).filter(|_| r.out.ok()) else {
        return fail("one phrase line or an ordinary error with empty stdout", r.out.describe(), format!("{}: malformed outcome", r.shown));
    };
    let Ok(entropy) = bip39::decode_phrase(&phrase) else {
        return fail("a valid phrase", phrase, format!("{}: printed phrase is not valid", r.shown));
    };
    let Some(block) = r.calls.iter().find(|x| x.delivered.as_deref() == Some(&entropy[..])) else {
        return fail("entropy of one logged request", phrase, format!("{}: printed phrase does not come from the source; log {}", r.shown, describe_log(&r.calls)));
    };
    if block.index < c.fail_at {
        cls.label("vanity-transient:match-before-failure");
        return Ok(());
    }
    if block.index <= c.fail_at + TRANSIENT_MARGIN {
        cls.unspecified("vanity-transient:match-shortly-after-failure");
        return Ok(());
    }
    fail(
        "an error: the entropy source reported a failure",
        format!("exit 0 with a phrase from request #{} ({} requests after the failed request #{})", block.index, block.index - c.fail_at, c.fail_at),
        format!("{}: the search went on after a failed entropy request and printed a phrase", r.shown),
    )
}

pub fn run(ctx: &mut Ctx) {
    ctx.rule = "Fault injection at getentropy. In-process (symbol exported by the harness binary, per-call script and log): Mnemonic::random for every length 0..=40 and large values x source scripts {uniform, all-0, all-1, counter, single bit set/clear, period-2, short cycle, one bit different from the previous delivery; failure with EIO/EINTR/ENOSYS/...}, single and consecutive generations (each case preceded by one unjudged priming generation per length, so that state carried between generations shows within the case). Executable (LD_PRELOAD shim, PRF stream of (GE_SEED, request index), request log, GE_FAIL_FROM): `new -n L` for every L in 0..=40 x shim seeds, failure at request 0, other spellings of the option, the real source observed through the shim; vanity searches `--vanity-prefix 0x<digit>` with -j 0 and -j 1 and failure from request k for every k in 0..=24, unfailed searches with -j 0/1/2/3/16, failures in concurrent searches, one transient failure (GE_FAIL_AT) during a concurrent 3-digit search (error required unless the match preceded the failure; a phrase from a block requested more than 400 requests after the failure is a violation); repeated invocations on the real source with and without the shim. Oracle: supported L -> Ok / exit 0, the bytes requested are exactly 4L/3 and the phrase is the reference BIP-39 encoding (own word list, bit-string checksum) of exactly the delivered bytes, mnemonic_length = L, the phrase parses back (Mnemonic::from_phrase / `address --mnemonic`); unsupported L -> Err / error exit with empty stdout; injected failure -> Err / error exit with empty stdout, no panic; sequential vanity search with failure from k -> the reference (PBKDF2 -> BIP-32 m/44'/60'/0'/0/0 -> secp256k1 -> Keccak address, all independent) determines the first of the k delivered blocks whose address has the prefix: exactly that phrase is printed, or an error if none; concurrent search -> printed phrase encodes one delivered block; real source -> valid, pairwise distinct, equal to the logged bytes. Non-trivial: every case except all-zero entropy with L = 12; distinct by (L, delivered bytes | failure point | shim seed).".into();
    ctx.assumptions = vec![
        "hdwallet obtains entropy only through libc getentropy (symbol interposition sees every request; Rust std does not call getentropy on Linux)".into(),
        "every -1 return of getentropy counts as the source reporting failure; the one exception is EINTR, where retrying until the source delivers is accepted provided the phrase is exactly the finally delivered bytes (a retry that gives up and uses other bytes is reported)".into(),
        "sha2, hmac (reference PBKDF2) and sha3 (reference Keccak) are correct; the reference secp256k1/BIP-32 modules are validated by the self-test".into(),
        "real-entropy sub-check: two independent draws of >= 128 bits from the kernel never coincide".into(),
    ];
    set_paths(ctx);
    ctx.replay_known_and_regressions(&replay_inner);
    let t = ctx.tier;

    // ---- in-process
    let sweep = inproc_sweep(ctx, t.pick(30, 600));
    ctx.run_cases("lengths", &sweep, judge_inproc);
    ctx.exhaustive_parts.push("in-process: every requested length 0..=40 (and 31 large values up to usize::MAX, incl. values congruent to a supported length modulo 2^8, 2^16, 2^32, 2^63) x the fixed script kinds".into());
    ctx.run_prop("script", t.pick(5000, 200_000), inproc_strategy, judge_inproc);

    for l in bip39::LENGTHS {
        ctx.floor_abs(&format!("inproc/ok-L{l}"), t.pick(150, 5000));
        ctx.floor_abs(&format!("inproc/failure-L{l}"), t.pick(20, 800));
    }
    ctx.floor_abs("inproc/unsupported-length-0..40", t.pick(36 * 30, 36 * 600));
    ctx.floor_abs("inproc/unsupported-length-big", t.pick(19 * 30, 19 * 600));
    ctx.floor_abs("inproc/kind-one-bit-from-previous", t.pick(100, 4000));
    ctx.floor_abs("inproc/kind-zero", 10);
    ctx.floor_abs("inproc/kind-ones", 10);
    ctx.floor_abs("inproc/multi-generation-case", t.pick(1500, 60_000));

    // ---- executable
    if paths().is_err() {
        ctx.inconclusive("hdwallet executable or getentropy shim not available; CLI sub-checks not run");
        premise_to_inconclusive(ctx);
        return;
    }
    let news = new_cases(ctx, t.pick(4, 100), t.pick(1, 20));
    ctx.run_cases("new", &news, judge_new);
    let tty_news: Vec<TtyNewCase> = [12u64, 15, 18, 21, 24, 13, 0].iter().enumerate().map(|(i, l)| TtyNewCase { length: *l, ge_seed: ctx.sub_seed("tty-new", i as u64) }).collect();
    ctx.run_cases("terminal", &tty_news, judge_tty_new);
    if ctx.cls.count("tty-not-available-or-timeout") > 0 {
        ctx.inconclusive(format!("{} terminal runs could not be made", ctx.cls.count("tty-not-available-or-timeout")));
    }
    ctx.exhaustive_parts.push("CLI: `new -n L` for every L in 0..=40, each with a working and a failing source".into());

    let vf = vanity_fail_cases(ctx, t.pick(8, 200));
    let vf_total = vf.len() as u64;
    ctx.run_cases("vanity-fail", &vf, judge_vanity);
    ctx.exhaustive_parts.push("CLI: vanity search with -j 0 and -j 1, failure injected from request k for every k in 0..=24".into());

    let vo = vanity_other_cases(ctx, t.pick(3, 100));
    ctx.run_cases("vanity", &vo, judge_vanity);

    // one transient failure during a concurrent 3-digit search (run one at a time: each uses several cores)
    let mut tr = vec![];
    for i in 0..t.pick(6, 60) as u64 {
        let mut p = Prng::new(ctx.sub_seed("vanity-transient", i));
        tr.push(TransientCase {
            digits: format!("{:03x}", p.below(4096)),
            threads: [2usize, 3, 16][(i % 3) as usize],
            ge_seed: p.next_u64() >> 1,
            fail_at: 1 + p.below(12),
        });
    }
    for c in tr.chunks(1) {
        ctx.run_cases("vanity-transient", c, judge_transient);
    }
    if TIMEOUTS.load(Ordering::SeqCst) == 0 {
        ctx.floor_abs("vanity-transient:error", 3);
    }

    let mut reals = vec![];
    for l in bip39::LENGTHS {
        for logged in [true, false] {
            reals.push(RealCase { length: l as u64, runs: t.pick(6, 100), logged });
        }
    }
    ctx.run_cases("real", &reals, judge_real);

    for l in bip39::LENGTHS {
        ctx.floor_abs(&format!("cli-new/ok-L{l}"), t.pick(4, 100));
    }
    ctx.floor_abs("cli-new/unsupported+working-source", 36 * t.pick(4, 100));
    ctx.floor_abs("cli-new/unsupported+failing-source", 36);
    ctx.floor_abs("cli-new/failure-at-call-0-is-error", 10);
    ctx.floor_abs("cli-new/failure-after-last-request-is-harmless", 5);
    ctx.floor_abs("cli-new/real-entropy-logged", 5);
    ctx.floor_abs("cli-new/odd-spelling-no-panic", 15);
    ctx.floor("vanity-fail/printed-first-matching-block", vf_total, 0.25);
    ctx.floor("vanity-fail/error-no-match-before-failure", vf_total, 0.25);
    ctx.floor("vanity-fail/winner-is-a-later-request", vf_total, 0.15);
    ctx.floor("vanity-fail/failure-at-a-later-request", vf_total, 0.15);
    ctx.floor_abs("vanity-fail/failure-at-request-0", 2 * t.pick(8, 200));
    ctx.floor_abs("vanity-seq/printed-first-matching-block", 2 * t.pick(3, 100));
    ctx.floor_abs("vanity-mt/printed-a-delivered-block", 3 * t.pick(3, 100));
    ctx.floor_abs("real/valid-distinct-and-equal-to-logged-bytes", 5 * t.pick(6, 100));
    ctx.floor_abs("real/valid-distinct-no-shim", 5 * t.pick(6, 100));
    premise_to_inconclusive(ctx);
}

fn replay_inner(sub: &str, case: &Value) -> Option<Verdict> {
    let announce = |v: Verdict, cls: &Classifier| {
        for l in [L_TIMEOUT, L_SKIPPED, L_NO_CALL, L_STREAM] {
            if cls.count(l) > 0 {
                println!("INCONCLUSIVE property=C12 replay could not be judged: {l}");
            }
        }
        v
    };
    macro_rules! go {
        ($t:ty, $j:expr) => {{
            let cls = std::cell::RefCell::new(Classifier::default());
            let v = replay_as::<$t>(case, |c, _| $j(c, &mut cls.borrow_mut()));
            let cls = cls.into_inner();
            Some(announce(v, &cls))
        }};
    }
    match sub {
        "lengths" | "script" => go!(InprocCase, judge_inproc),
        "new" => go!(NewCase, judge_new),
        "terminal" => go!(TtyNewCase, judge_tty_new),
        "vanity-fail" | "vanity" => go!(VanityCase, judge_vanity),
        "vanity-transient" => go!(TransientCase, judge_transient),
        "real" => go!(RealCase, judge_real),
        _ => None,
    }
}

pub fn replay(sub: &str, case: &Value, ctx: &Ctx) -> Option<Verdict> {
    set_paths(ctx);
    replay_inner(sub, case)
}
