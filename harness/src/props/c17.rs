//! C17 — no input makes the tool panic, abort or hang (layers 1 and 3; layer 2 = libFuzzer corpus/campaigns).

use crate::cli::{self};
use crate::engine::{catch, fail, replay_as, Classifier, Ctx, Tier, Verdict};
use crate::gen::U;
use crate::refimpl::{bip39, hex_lower};
use hdwallet::account::{PrivateKey, Signature};
use hdwallet::hdk;
use hdwallet::message::EthereumMessage;
use hdwallet::mnemonic::{Language, Mnemonic};
use hdwallet::transaction::Transaction;
use hdwallet::typeddata::TypedData;
use proptest::prelude::*;
use serde::{Deserialize, Serialize};
use serde_json::{json, Value};
use std::ffi::OsString;
use std::os::unix::ffi::OsStringExt;
use std::path::PathBuf;
use std::sync::OnceLock;
use std::time::{Duration, Instant};

static CLI: OnceLock<PathBuf> = OnceLock::new();
static CLI_PLAIN: OnceLock<PathBuf> = OnceLock::new();
static ROOT: OnceLock<PathBuf> = OnceLock::new();

pub fn set_cli(cli: Option<PathBuf>, plain: Option<PathBuf>, root: PathBuf) {
    if let Some(c) = cli {
        let _ = CLI.set(c);
    }
    if let Some(c) = plain {
        let _ = CLI_PLAIN.set(c);
    }
    let _ = ROOT.set(root);
}

// ================================================================= layer 1: library entry points

#[derive(Clone, Debug, Serialize, Deserialize)]
pub struct LibCase {
    /// entry point name
    pub entry: String,
    /// input text (lossy for display) and exact bytes as hex
    pub input_hex: String,
    /// valid | mutated | random
    pub origin: String,
}

pub const ENTRIES: [&str; 10] =
    ["mnemonic", "mnemonic-random", "path", "for-index", "private-key", "signature", "digest", "transaction", "typeddata", "message"];

/// Calls the entry point; Ok(description) or Err(panic text).
pub fn call_entry(entry: &str, input: &[u8]) -> Result<String, String> {
    let text = String::from_utf8_lossy(input).into_owned();
    let as_usize = || -> usize {
        let mut b = [0u8; 8];
        for (i, x) in input.iter().take(8).enumerate() {
            b[i] = *x;
        }
        u64::from_le_bytes(b) as usize
    };
    match entry {
        "mnemonic" => catch(|| match Mnemonic::from_phrase(&text) {
            Ok(m) => {
                let p = m.to_phrase();
                let _ = m.mnemonic_length();
                let _ = m.to_string();
                // seed only for short passwords to keep the cost bounded
                let _ = m.seed(text.chars().take(8).collect::<String>());
                format!("ok:{}", p.len())
            }
            Err(_) => "err".into(),
        }),
        "mnemonic-random" => catch(|| {
            #[allow(irrefutable_let_patterns)]
            let Ok(n) = as_usize().try_into() else { return "err".to_string() };
            match Mnemonic::random(Language::English, n) {
                Ok(m) => format!("ok:{}", m.mnemonic_length()),
                Err(_) => "err".into(),
            }
        }),
        "path" => catch(|| match text.parse::<hdk::Path>() {
            Ok(p) => {
                let s = p.to_string();
                let d = hdk::derive([7u8; 32], &p).is_ok();
                format!("ok:{s}:{d}")
            }
            Err(_) => "err".into(),
        }),
        "for-index" => catch(|| match hdk::Path::for_index(as_usize()) {
            Ok(p) => format!("ok:{p}"),
            Err(_) => "err".into(),
        }),
        "private-key" => catch(|| match PrivateKey::new(input) {
            Ok(k) => {
                let _ = k.address();
                let _ = k.public().encode_uncompressed();
                let _ = format!("{k:?}");
                "ok".into()
            }
            Err(_) => "err".into(),
        }),
        "signature" => catch(|| match text.parse::<Signature>() {
            Ok(s) => format!("ok:{s}:{}", s.v(None)),
            Err(_) => "err".into(),
        }),
        "digest" => catch(|| match text.parse::<ethdigest::Digest>() {
            Ok(d) => format!("ok:{d}"),
            Err(_) => "err".into(),
        }),
        "transaction" => catch(|| match serde_json::from_slice::<Transaction>(input) {
            Ok(t) => {
                let d = t.signing_message();
                let r = ethnum::U256::from_be_bytes([0x11; 32]);
                let s = ethnum::U256::from_be_bytes([0x22; 32]);
                let a = t.encode(Signature::from_parts(r, s, 0)).len();
                let b = t.encode(Signature::from_parts(r, s, 1)).len();
                format!("ok:{d}:{a}:{b}")
            }
            Err(_) => "err".into(),
        }),
        "typeddata" => catch(|| match serde_json::from_slice::<TypedData>(input) {
            Ok(t) => format!("ok:{}:{}:{}", t.signing_message(), t.domain_separator(), t.message_hash()),
            Err(_) => "err".into(),
        }),
        "message" => catch(|| format!("ok:{}", EthereumMessage(input).signing_message())),
        _ => Err(format!("harness: unknown entry {entry}")),
    }
}

// ---- termination of library calls (machinery in crate::isolate)

pub use crate::isolate::{isolated_call, Iso, LIB_CPU_LIMIT_S, LIB_MEM_LIMIT};

/// The child side of `isolated_call` (`hdv lib-call <entry>`, input on stdin).
pub fn lib_call_main(entry: &str) -> i32 {
    use std::io::Read;
    let mut input = vec![];
    let _ = std::io::stdin().read_to_end(&mut input);
    match call_entry(entry, &input) {
        Ok(d) => {
            println!("OK {}", crate::engine::truncate(&d, 200));
            0
        }
        Err(p) => {
            println!("PANIC {p}");
            3
        }
    }
}

fn termination_failure(entry: &str, origin: &str, input: &[u8], iso: &Iso) -> Option<crate::engine::Failure> {
    let what = crate::isolate::describe_nontermination(iso)?;
    Some(crate::engine::Failure {
        expected: "a result or an ordinary error within the CPU and memory budget, without aborting the process".into(),
        observed: what,
        note: format!("entry point {entry} does not end normally on {origin} input ({} bytes): {:?}", input.len(), crate::engine::truncate(&String::from_utf8_lossy(input), 600)),
        known: None,
    })
}

/// C17's handler for a confirmed non-terminating library call: report the violation and end the run
/// (the stuck thread cannot be recovered).
fn on_nontermination(info: &crate::isolate::Info, iso: &Iso) -> ! {
    let input = crate::refimpl::unhex(&info.input_hex).unwrap_or_default();
    let case = LibCase { entry: info.entry.clone(), input_hex: info.input_hex.clone(), origin: info.origin.clone() };
    let f = termination_failure(&info.entry, &info.origin, &input, iso).expect("non-termination");
    let cj = serde_json::to_value(&case).unwrap();
    crate::isolate::emergency_exit("C17", "library", &cj, Some(&f))
}

/// Replay (and fuzz-artifact) judgement: always in a fresh process under the limits.
fn judge_lib_isolated(c: &LibCase, _cls: &mut Classifier) -> Verdict {
    let input = crate::refimpl::unhex(&c.input_hex).unwrap_or_default();
    let iso = isolated_call(&c.entry, &input);
    if let Some(f) = termination_failure(&c.entry, &c.origin, &input, &iso) {
        return Err(f);
    }
    match iso {
        Iso::Panicked(p) => fail(
            "a result or an ordinary error",
            p,
            format!("entry point {} panicked on {} input ({} bytes): {:?}", c.entry, c.origin, input.len(), crate::engine::truncate(&String::from_utf8_lossy(&input), 600)),
        ),
        Iso::Other(o) => fail("a result or an ordinary error", o, format!("entry point {} ended abnormally in a fresh process", c.entry)),
        _ => Ok(()),
    }
}

fn judge_lib(c: &LibCase, cls: &mut Classifier) -> Verdict {
    let input = crate::refimpl::unhex(&c.input_hex).unwrap_or_default();
    let start = Instant::now();
    let r = crate::isolate::inflight(&c.entry, &input, &c.origin, || call_entry(&c.entry, &input));
    let took = start.elapsed();
    match r {
        Err(p) => {
            return fail(
                "a result or an ordinary error",
                p,
                format!("entry point {} panicked on {} input ({} bytes): {:?}", c.entry, c.origin, input.len(), crate::engine::truncate(&String::from_utf8_lossy(&input), 600)),
            )
        }
        Ok(d) => {
            cls.label(&format!("{}/{}", c.entry, c.origin));
            cls.label(if d.starts_with("ok") { "outcome-ok" } else { "outcome-err" });
            if d.starts_with("ok") {
                cls.label(&format!("{}/ok", c.entry));
            }
        }
    }
    if took > Duration::from_secs(10) {
        cls.label("slow>10s");
    }
    cls.nontrivial(&(c.entry.as_str(), c.input_hex.as_str()));
    cls.sample(&format!("{}-{}", c.entry, c.origin), || json!({"entry": c.entry, "origin": c.origin, "input": crate::engine::truncate(&String::from_utf8_lossy(&input), 300)}));
    Ok(())
}

const NUMS: [&str; 30] = [
    "0", "1", "-1", "11", "12", "13", "14", "23", "24", "25", "40", "255", "256", "2147483647", "2147483648", "2147483649", "4294967295",
    "4294967296", "4294967297", "9223372036854775807", "9223372036854775808", "18446744073709551615", "18446744073709551616",
    "115792089237316195423570985008687907852837564279074904382605163141518161494337",
    "115792089237316195423570985008687907853269984665640564039457584007913129639935",
    "115792089237316195423570985008687907853269984665640564039457584007913129639936", "1e400", "-0", "0.5", "1e-400",
];

/// Generic text mutation: edits, duplications, number-boundary substitution.
pub fn mutate(s: &[u8], u: &mut U) -> Vec<u8> {
    let mut v = s.to_vec();
    let rounds = 1 + u.below(4);
    for _ in 0..rounds {
        let pos = if v.is_empty() { 0 } else { u.below(v.len()) };
        match u.below(13) {
            12 if !v.is_empty() => {
                // cut the text off and end it with a character that opens something (an escape, a string, a
                // container): scanners that look one character ahead run past the end here
                v.truncate(pos);
                let tail: &[u8] = [&b"\\"[..], b"\"", b"\\u", b"\\u00", b"{", b"[", b",", b":", b"\"\\", b"/", b"'", b"0x", b"-", b"e", b"."][u.below(15)];
                v.extend_from_slice(tail);
            }
            0 if !v.is_empty() => {
                v.remove(pos);
            }
            1 => v.insert(pos, u.byte()),
            2 if !v.is_empty() => v[pos] = u.byte(),
            3 if !v.is_empty() => {
                let end = (pos + 1 + u.below(16)).min(v.len());
                let seg = v[pos..end].to_vec();
                let times = 1 + u.below(3);
                for _ in 0..times {
                    let at = u.below(v.len() + 1);
                    v.splice(at..at, seg.iter().copied());
                }
            }
            4 if !v.is_empty() => {
                let end = (pos + 1 + u.below(32)).min(v.len());
                v.drain(pos..end);
            }
            5 => {
                // replace a run of digits with a boundary number
                if let Some(start) = v.iter().skip(pos).position(|b| b.is_ascii_digit()).map(|i| i + pos) {
                    let end = start + v[start..].iter().take_while(|b| b.is_ascii_hexdigit() || **b == b'x').count();
                    let n = NUMS[u.below(NUMS.len())].as_bytes().to_vec();
                    v.splice(start..end, n);
                }
            }
            6 => {
                let tok: &[u8] = [&b"\""[..], b"{", b"}", b"[", b"]", b",", b":", b"null", b"true", b"0x", b"'", b"/", b"m/", b" ", b"\n", b"\xe2\x80\x83", b"\xc2\xa0", b"[]", b"[1]", b"-", b"e9", b".0"][u.below(22)];
                v.splice(pos..pos, tok.iter().copied());
            }
            7 if !v.is_empty() => {
                v[pos] ^= 1 << u.below(8);
            }
            8 if !v.is_empty() => v.truncate(pos),
            9 if v.len() >= 2 => {
                let j = u.below(v.len());
                v.swap(pos, j);
            }
            10 => {
                let bad: &[u8] = [&b"\xff"[..], b"\xc3\x28", b"\xf0\x9f", b"\0", b"\xef\xbf\xbd", b"\xef\xbc\x91"][u.below(6)];
                v.splice(pos..pos, bad.iter().copied());
            }
            _ => {
                if !v.is_empty() && v[pos].is_ascii_alphabetic() {
                    v[pos] ^= 0x20;
                }
            }
        }
    }
    v
}

fn nested_json(u: &mut U) -> Vec<u8> {
    let depth = u.range(1, 128);
    let open: &[u8] = if u.bool() { b"[" } else { b"{\"a\":" };
    let close: &[u8] = if open == b"[" { b"]" } else { b"}" };
    let mut v = vec![];
    for _ in 0..depth {
        v.extend_from_slice(open);
    }
    v.extend_from_slice(b"1");
    for _ in 0..depth {
        v.extend_from_slice(close);
    }
    v
}

fn typeddata_with_suffixes(u: &mut U) -> Vec<u8> {
    let n = u.range(1, 64);
    let mut ty = ["uint256", "Foo", "bytes32", "bool", "\u{0663}", "uint\u{0663}", "bytes\u{ff11}"][u.below(7)].to_string();
    for _ in 0..n {
        ty.push_str(["[]", "[0]", "[1]", "[2]", "[18446744073709551615]", "[18446744073709551616]", "[-1]", "[ 1]", "[]]"][u.below(9)]);
    }
    // a value nested as deep as the suffix list (bounded by the JSON depth limit)
    let depth = n.min(100);
    let mut val = String::new();
    for _ in 0..depth {
        val.push('[');
    }
    for _ in 0..depth {
        val.push(']');
    }
    format!(
        "{{\"types\":{{\"EIP712Domain\":[{{\"name\":\"name\",\"type\":\"string\"}}],\"Foo\":[{{\"name\":\"x\",\"type\":\"{ty}\"}}]}},\"primaryType\":\"Foo\",\"domain\":{{\"name\":\"n\"}},\"message\":{{\"x\":{val}}}}}"
    )
    .into_bytes()
}

fn valid_input(entry: &str, u: &mut U) -> Vec<u8> {
    match entry {
        "mnemonic" => {
            if u.ratio(2, 5) {
                let n = [12usize, 15, 18, 21, 24][u.below(5)];
                return bip39::encode_phrase(&u.bytes(n * 4 / 3)).into_bytes();
            }
            // 0..40 words, and now and then many more (a decoder that writes into a fixed buffer before it checks
            // the count needs 47+ list words to run past it)
            let n = if u.ratio(1, 8) { [41usize, 47, 48, 49, 64, 96, 100, 192, 1000][u.below(9)] } else { u.range(0, 40) };
            let words: Vec<&str> = (0..n).map(|_| bip39::word(u.below(2048) as u16)).collect();
            let sep = [" ", "  ", "\t", "\n", "\u{3000}", "\u{a0}", "\u{2003}", "\u{85}"][u.below(8)];
            words.join(sep).into_bytes()
        }
        "mnemonic-random" | "for-index" => {
            let v: u64 = match u.below(8) {
                0 | 3 => u.below(41) as u64,
                4 | 5 => [12u64, 15, 18, 21, 24][u.below(5)],
                1 => [0x7fff_ffffu64, 0x8000_0000, 0xffff_ffff, 0x1_0000_0000, u64::MAX, u64::MAX - 1, 1 << 63][u.below(7)],
                2 => u.u32() as u64,
                _ => u.u64(),
            };
            v.to_le_bytes().to_vec()
        }
        "path" => {
            let p = super::c03::gen_path(u, 12);
            crate::refimpl::bip32::render(&p).into_bytes()
        }
        "private-key" => {
            let n = if u.ratio(2, 3) { 32 } else { u.below(70) };
            u.bytes(n)
        }
        "signature" if u.ratio(1, 5) => {
            // notations other tools use for a signature (JSON-RPC / ethers objects, r:s:v lists, the 64-byte compact
            // form), with scalars at the boundaries: whatever of this a parser accepts, it must not panic on it
            let n_hex = "fffffffffffffffffffffffffffffffebaaedce6af48a03bbfd25e8cd0364141";
            let scalars = ["0", "1", n_hex, "fffffffffffffffffffffffffffffffebaaedce6af48a03bbfd25e8cd0364142", "ffffffffffffffffffffffffffffffffffffffffffffffffffffffffffffffff", "7fffffffffffffffffffffffffffffff5d576e7357a4501ddfe92f46681b20a0", "", "10000000000000000000000000000000000000000000000000000000000000000"];
            let r = scalars[u.below(scalars.len())];
            let s = scalars[u.below(scalars.len())];
            let v = ["27", "28", "0", "1", "37", "\"0x1b\"", "\"0x1c\"", "null", "256", "-1"][u.below(10)];
            let q = |x: &str| if x.is_empty() { "\"0x\"".to_string() } else { format!("\"0x{x}\"") };
            match u.below(6) {
                0 => format!("{{\"r\":{},\"s\":{},\"v\":{v}}}", q(r), q(s)),
                1 => format!("{{\"r\":{},\"s\":{},\"yParity\":{v}}}", q(r), q(s)),
                2 => format!("[{},{},{v}]", q(r), q(s)),
                3 => format!("0x{r}:0x{s}:{v}"),
                4 => format!("{{\"r\":\"{}\",\"s\":\"{}\",\"v\":{v},\"yParity\":{v}}}", u.below(3), u.below(3)),
                _ => format!("0x{:0>64}{:0>64}", r.get(..r.len().min(64)).unwrap_or(""), s.get(..s.len().min(64)).unwrap_or("")),
            }
            .into_bytes()
        }
        "signature" => {
            let mut b = u.bytes(65);
            b[64] = [27u8, 28, 0, 1, 29][u.below(5)];
            if u.ratio(1, 6) {
                b[..32].iter_mut().for_each(|x| *x = 0);
            }
            if u.ratio(1, 6) {
                b[32..64].iter_mut().for_each(|x| *x = 0xff);
            }
            format!("{}{}", ["0x", "", "0X"][u.below(3)], hex_lower(&b)).into_bytes()
        }
        "digest" => {
            // digit counts around 64 (odd ones included), with and without prefix, sometimes padded with blanks to
            // the text lengths 64 and 66 of a well-formed digest
            let digits = match u.below(12) {
                0..=5 => 64,
                6 => [62usize, 63, 65, 66][u.below(4)],
                7 => [60usize, 61, 67, 68, 128, 130][u.below(6)],
                8 => 0,
                _ => u.below(81),
            };
            let hex: String = hex_lower(&u.bytes(digits / 2 + 1))[..digits].to_string();
            let mut s = format!("{}{hex}", ["0x", "", "0X", "0x", ""][u.below(5)]);
            if u.ratio(1, 5) {
                let target = [64usize, 66][u.below(2)];
                while s.len() < target {
                    if u.bool() {
                        s.push(' ');
                    } else {
                        s.insert(0, ' ');
                    }
                }
            }
            s.into_bytes()
        }
        "transaction" => match u.below(9) {
            0 => nested_json(u),
            8 => {
                // legacy transactions with a chain id around the largest value whose EIP-155 v fits 256 bits
                use crate::refimpl::u256::Big;
                let cm = crate::refimpl::tx::c_max();
                let c = match u.below(8) {
                    0 => cm.sub(&Big::from_u128(1)).unwrap(),
                    1 => cm.clone(),
                    2 | 3 => cm.add_small(1),
                    4 => cm.add_small(2),
                    5 => Big::pow2(255),
                    6 => Big::pow2(256).sub(&Big::from_u128(1)).unwrap(),
                    _ => cm.add_small(u.below(40) as u32),
                };
                let spelled = match u.below(4) {
                    0 => format!("\"{}\"", c.to_dec()),
                    1 => format!("\"0x{}\"", c.to_hex()),
                    2 => format!("\"+{}\"", c.to_dec()),
                    _ => format!("\"0x{}\"", c.to_hex().to_uppercase()),
                };
                format!("{{\"nonce\":{},\"gasPrice\":1,\"gas\":21000,\"value\":0,\"data\":\"0x\",\"chainId\":{spelled}}}", u.below(50)).into_bytes()
            }
            7 => {
                let doc = crate::gen::txgen::gen_case(u, 80).doc.into_bytes();
                with_foreign_members(doc, u)
            }
            _ => crate::gen::txgen::gen_case(u, 80).doc.into_bytes(),
        },
        "typeddata" => match u.below(8) {
            0 => nested_json(u),
            1 | 2 => typeddata_with_suffixes(u),
            _ => crate::gen::td::gen_case(u).doc.into_bytes(),
        },
        _ => {
            let n = u.below(200);
            u.bytes(n)
        }
    }
}

/// Adds members that transaction objects of other tools carry (JSON-RPC, ethers, web3) with boundary values.
fn with_foreign_members(mut doc: Vec<u8>, u: &mut U) -> Vec<u8> {
    const NAMES: [&str; 20] = [
        "type", "from", "hash", "v", "r", "s", "yParity", "input", "gasLimit", "blockNumber", "blockHash", "transactionIndex", "maxFeePerBlobGas",
        "blobVersionedHashes", "authorizationList", "chainID", "chain_id", "accesslist", "nonce ", "",
    ];
    let Some(end) = doc.iter().rposition(|b| *b == b'}') else { return doc };
    let empty = !doc[..end].iter().rev().find(|b| !b.is_ascii_whitespace()).is_some_and(|b| *b != b'{');
    let mut ins = String::new();
    let n = 1 + u.below(3);
    for i in 0..n {
        let name = if u.ratio(1, 3) { "type" } else { NAMES[u.below(NAMES.len())] };
        let value = match u.below(8) {
            0 => format!("\"0x{:x}\"", u.below(256)),
            1 => u.below(300).to_string(),
            2 => NUMS[u.below(NUMS.len())].to_string(),
            3 => format!("\"{}\"", NUMS[u.below(NUMS.len())]),
            4 => ["null", "true", "[]", "{}", "\"\"", "[[]]", "\"0x\""][u.below(7)].to_string(),
            5 => format!("\"0x{}\"", hex_lower(&u.bytes(32))),
            6 => format!("\"0x{:x}\"", [3u64, 4, 0x7e, 0x7f, 0x80, 0xff, 0x100, u64::MAX][u.below(8)]),
            _ => ["\"legacy\"", "\"eip1559\"", "\"0x02\"", "\"2\"", "-1", "1.5"][u.below(6)].to_string(),
        };
        if i > 0 || !empty {
            ins.push(',');
        }
        ins.push_str(&format!("\"{name}\":{value}"));
    }
    doc.splice(end..end, ins.bytes());
    doc
}

fn gen_lib(tape: Vec<u8>) -> LibCase {
    let mut u = U::new(&tape);
    let entry = ENTRIES[u.below(ENTRIES.len())];
    let (input, origin) = match u.below(10) {
        0..=2 => (valid_input(entry, &mut u), "valid"),
        3..=7 => {
            let v = valid_input(entry, &mut u);
            (mutate(&v, &mut u), "mutated")
        }
        _ => {
            let n = u.below(300);
            let mut b = u.bytes(n);
            if u.bool() {
                // printable-ish
                b.iter_mut().for_each(|x| *x = 0x20 + (*x % 0x5f));
            }
            (b, "random")
        }
    };
    LibCase { entry: entry.to_string(), input_hex: hex_lower(&input), origin: origin.to_string() }
}

// ================================================================= layer 3: command line

#[derive(Clone, Debug, Serialize, Deserialize)]
pub struct CliCase {
    /// argv as hex-encoded byte strings (may be non-UTF-8)
    pub args_hex: Vec<String>,
    pub env: Vec<(String, String)>,
    pub stdin_hex: String,
    pub plain: bool,
    /// file arguments: (index in args, content hex) written to a scratch file whose path replaces the arg
    pub files: Vec<(usize, String)>,
}

fn gen_value(u: &mut U, kind: &str) -> Vec<u8> {
    let phrase = |u: &mut U| -> Vec<u8> {
        let n = [12usize, 15, 18, 21, 24][u.below(5)];
        bip39::encode_phrase(&u.bytes(n * 4 / 3)).into_bytes()
    };
    let v: Vec<u8> = match kind {
        "mnemonic" => match u.below(4) {
            0 => valid_input("mnemonic", u),
            _ => phrase(u),
        },
        "index" | "length" | "threads" => match u.below(4) {
            0 => NUMS[u.below(NUMS.len())].as_bytes().to_vec(),
            1 => u.below(41).to_string().into_bytes(),
            2 => ["", " ", "abc", "0x10", "+1", "1.0", "١٢"][u.below(7)].as_bytes().to_vec(),
            _ => u.u64().to_string().into_bytes(),
        },
        "path" => valid_input("path", u),
        "password" => ["", "TREZOR", "p\u{e4}ss", "\u{1f600}", " ", "a b"][u.below(6)].as_bytes().to_vec(),
        "prefix" => match u.below(6) {
            0 => format!("0x{:x}", u.below(16)).into_bytes(),
            1 => format!("0x{:X}", 10 + u.below(6)).into_bytes(),
            2 => format!("0x{:02x}", u.below(256)).into_bytes(),
            3 => ["0xg", "0x1z", "0x-1", "0x\u{ff11}", "1", "", "0X1", "0x 1", "x", "0x", "0x", "0x"][u.below(12)].as_bytes().to_vec(),
            4 => format!("0x{:02X}", u.below(256)).into_bytes(),
            _ => format!("0x{}", ["aB", "Ab", "F", "f0", "0F"][u.below(5)]).into_bytes(),
        },
        "signature" => valid_input("signature", u),
        "digest" => valid_input("digest", u),
        "language" => ["english", "English", "ENGLISH", "klingon", "", "\u{130}"][u.below(6)].as_bytes().to_vec(),
        _ => vec![],
    };
    if u.ratio(1, 8) {
        mutate(&v, u)
    } else {
        v
    }
}

fn gen_payload(u: &mut U, what: &str) -> Vec<u8> {
    let v = match what {
        "transaction" => valid_input("transaction", u),
        "typeddata" => valid_input("typeddata", u),
        "hex" => {
            // one hex input in eight is longer than one or two read chunks (4 KiB, 8 KiB), with 0-3 blanks in
            // front so that digit pairs straddle the chunk boundaries
            let long = u.ratio(1, 8);
            let n = if long { 4100 + u.below(6000) } else { u.below(100) };
            let b = if long { crate::engine::Prng::new(u.u64()).bytes(n) } else { u.bytes(n) };
            let lead = if long { " ".repeat(u.below(4)) } else { String::new() };
            format!("{lead}{}{}", ["0x", "", "0X"][u.below(3)], hex_lower(&b)).into_bytes()
        }
        _ => {
            if u.ratio(1, 4) {
                crate::gen::TRICKY_BYTES[u.below(crate::gen::TRICKY_BYTES.len())].to_vec()
            } else {
                let n = u.below(300);
                u.bytes(n)
            }
        }
    };
    match u.below(4) {
        0 => mutate(&v, u),
        1 if u.ratio(1, 4) => {
            let n = u.below(200);
            u.bytes(n)
        }
        _ => v,
    }
}

fn gen_cli(tape: Vec<u8>) -> CliCase {
    let mut u = U::new(&tape);
    let mut args: Vec<Vec<u8>> = vec![];
    let mut env: Vec<(String, String)> = vec![];
    let mut files = vec![];
    let mut stdin = vec![];
    let push = |args: &mut Vec<Vec<u8>>, s: &str| args.push(s.as_bytes().to_vec());
    let account = |args: &mut Vec<Vec<u8>>, env: &mut Vec<(String, String)>, u: &mut U| {
        // mnemonic by flag or env, sometimes missing
        let m = gen_value(u, "mnemonic");
        match u.below(6) {
            0 => {}
            1 => env.push(("MNEMONIC".into(), String::from_utf8_lossy(&m).into_owned())),
            2 => {
                args.push(b"-m".to_vec());
                args.push(m);
            }
            _ => {
                args.push(b"--mnemonic".to_vec());
                args.push(m);
            }
        }
        if u.ratio(1, 3) {
            let p = gen_value(u, "password");
            if u.bool() {
                env.push(("PASSWORD".into(), String::from_utf8_lossy(&p).into_owned()));
            } else {
                args.push(b"--password".to_vec());
                args.push(p);
            }
        }
        if u.ratio(1, 2) {
            let i = gen_value(u, "index");
            if u.ratio(1, 4) {
                env.push(("ACCOUNT_INDEX".into(), String::from_utf8_lossy(&i).into_owned()));
            } else {
                args.push(b"--account-index".to_vec());
                args.push(i);
            }
        }
        if u.ratio(1, 3) {
            let p = gen_value(u, "path");
            if u.ratio(1, 4) {
                env.push(("HD_PATH".into(), String::from_utf8_lossy(&p).into_owned()));
            } else {
                args.push(b"--hd-path".to_vec());
                args.push(p);
            }
        }
    };
    let input = |args: &mut Vec<Vec<u8>>, u: &mut U, what: &str, files: &mut Vec<(usize, String)>, stdin: &mut Vec<u8>| {
        let payload = gen_payload(u, what);
        match u.below(5) {
            0 => {
                args.push(b"-".to_vec());
                *stdin = payload;
            }
            1 => args.push(b"/nonexistent/file".to_vec()),
            2 => {
                // no path argument (default or usage error)
                *stdin = payload;
            }
            _ => {
                files.push((args.len(), hex_lower(&payload)));
                args.push(b"<file>".to_vec());
            }
        }
    };
    match u.below(14) {
        0 => {
            push(&mut args, "address");
            account(&mut args, &mut env, &mut u);
        }
        1 => {
            push(&mut args, "export");
            account(&mut args, &mut env, &mut u);
        }
        2 => {
            push(&mut args, "public-key");
            account(&mut args, &mut env, &mut u);
        }
        3..=6 => {
            push(&mut args, "sign");
            if u.bool() {
                account(&mut args, &mut env, &mut u);
            }
            let sub = ["message", "transaction", "typeddata", "raw"][u.below(4)];
            push(&mut args, sub);
            match sub {
                "raw" => args.push(gen_value(&mut u, "digest")),
                "transaction" => {
                    if u.bool() {
                        push(&mut args, "--signature-only");
                    }
                    if u.bool() {
                        push(&mut args, "--allow-missing-relay-protection");
                    }
                    input(&mut args, &mut u, sub, &mut files, &mut stdin);
                }
                _ => input(&mut args, &mut u, sub, &mut files, &mut stdin),
            }
            if u.bool() {
                account(&mut args, &mut env, &mut u);
            }
        }
        7..=9 => {
            push(&mut args, "hash");
            let sub = ["message", "transaction", "typeddata", "data"][u.below(4)];
            push(&mut args, sub);
            if sub == "transaction" && u.bool() {
                push(&mut args, ["--signature", "-s"][u.below(2)]);
                args.push(gen_value(&mut u, "signature"));
            }
            if sub == "typeddata" && u.bool() {
                push(&mut args, ["--message-hash", "-m"][u.below(2)]);
            }
            input(&mut args, &mut u, sub, &mut files, &mut stdin);
        }
        10 | 11 => {
            push(&mut args, "hex");
            let sub = ["encode", "decode"][u.below(2)];
            push(&mut args, sub);
            input(&mut args, &mut u, if sub == "decode" { "hex" } else { "data" }, &mut files, &mut stdin);
        }
        12 => {
            push(&mut args, "new");
            if u.ratio(2, 3) {
                push(&mut args, ["-n", "--length"][u.below(2)]);
                args.push(gen_value(&mut u, "length"));
            }
            if u.ratio(1, 4) {
                push(&mut args, ["-l", "--language"][u.below(2)]);
                args.push(gen_value(&mut u, "language"));
            }
            if u.ratio(1, 2) {
                push(&mut args, "--vanity-prefix");
                args.push(gen_value(&mut u, "prefix"));
                push(&mut args, "-j");
                let j = match u.below(10) {
                    0 | 1 => 0,
                    2 | 3 => 1,
                    4 => 2,
                    5 => 3,
                    6 => 16,
                    7 => 64,
                    _ => u.below(65),
                };
                args.push(j.to_string().into_bytes());
                if u.ratio(1, 3) {
                    push(&mut args, "--vanity-password");
                    args.push(gen_value(&mut u, "password"));
                }
                if u.ratio(1, 3) {
                    push(&mut args, "--vanity-account-index");
                    args.push(gen_value(&mut u, "index"));
                }
                if u.ratio(1, 4) {
                    push(&mut args, "--vanity-hd-path");
                    args.push(gen_value(&mut u, "path"));
                }
            }
        }
        _ => {
            // arbitrary argv
            let n = u.below(6);
            for _ in 0..n {
                let a: Vec<u8> = match u.below(4) {
                    0 => ["address", "export", "hash", "hex", "new", "public-key", "sign", "help", "--help", "-V", "--version", "message", "raw", "decode"][u.below(14)].as_bytes().to_vec(),
                    1 => ["--mnemonic", "--password", "--account-index", "--hd-path", "-n", "-j", "--vanity-prefix", "--signature", "--", "-", "--bogus"][u.below(11)].as_bytes().to_vec(),
                    2 => {
                        let k = u.below(20);
                        u.bytes(k).into_iter().filter(|b| *b != 0).collect()
                    }
                    _ => {
                        let kind = ["mnemonic", "index", "path", "prefix", "signature", "digest"][u.below(6)];
                        gen_value(&mut u, kind)
                    }
                };
                args.push(a);
            }
        }
    }
    // argv cannot carry NUL
    for a in args.iter_mut() {
        a.retain(|b| *b != 0);
    }
    for (_, v) in env.iter_mut() {
        *v = v.replace('\0', "");
    }
    if u.ratio(1, 3) {
        env.extend(crate::cli::ambient_env(&mut u));
    }
    CliCase { args_hex: args.iter().map(|a| hex_lower(a)).collect(), env, stdin_hex: hex_lower(&stdin), plain: false, files }
}

/// the vanity search is exponential in the prefix length by design: bound it as the property does
fn vanity_too_long(args: &[Vec<u8>]) -> bool {
    args.windows(2).any(|w| w[0] == b"--vanity-prefix" && {
        let p = String::from_utf8_lossy(&w[1]);
        let digits = p.strip_prefix("0x").unwrap_or(&p);
        digits.len() > 3 && digits.chars().all(|c| c.is_ascii_hexdigit())
    })
}

fn judge_cli(c: &CliCase, cls: &mut Classifier) -> Verdict {
    let exe = if c.plain { CLI_PLAIN.get() } else { CLI.get() };
    let Some(exe) = exe else { return fail("cli path", "none", "CLI not available") };
    let root = ROOT.get().cloned().unwrap_or_else(|| PathBuf::from("/verif"));
    let mut args: Vec<Vec<u8>> = c.args_hex.iter().map(|h| crate::refimpl::unhex(h).unwrap_or_default()).collect();
    if vanity_too_long(&args) {
        cls.unspecified("vanity-prefix-longer-than-3-digits");
        return Ok(());
    }
    let mut temp = vec![];
    for (i, content) in &c.files {
        let f = cli::temp_file(&root, &crate::refimpl::unhex(content).unwrap_or_default());
        if let Some(a) = args.get_mut(*i) {
            *a = f.to_string_lossy().as_bytes().to_vec();
        }
        temp.push(f);
    }
    let os: Vec<OsString> = args.iter().map(|a| OsString::from_vec(a.clone())).collect();
    let stdin = crate::refimpl::unhex(&c.stdin_hex).unwrap_or_default();
    // a vanity search whose account selector, length or prefix is invalid must end at once with an error
    let search_must_not_start = {
        let val = |name: &[u8]| args.windows(2).find(|w| w[0] == name).map(|w| String::from_utf8_lossy(&w[1]).into_owned());
        let has_prefix = val(b"--vanity-prefix").is_some();
        let bad_path = val(b"--vanity-hd-path").map(|p| super::c14::text_must_be_refused(&p)).unwrap_or(false);
        let bad_index = val(b"--vanity-account-index").map(|i| i.parse::<u64>().map(|v| v >= 1 << 31).unwrap_or(true)).unwrap_or(false);
        has_prefix && (bad_path || bad_index)
    };
    let out = if search_must_not_start {
        cli::with_cpu_budget(10, || cli::run_raw(exe, &os, &c.env, &stdin, Duration::from_secs(60)))
    } else {
        cli::run_raw(exe, &os, &c.env, &stdin, Duration::from_secs(60))
    };
    for f in temp {
        let _ = std::fs::remove_file(f);
    }
    let shown: Vec<String> = args.iter().map(|a| String::from_utf8_lossy(a).into_owned()).collect();
    if out.timed_out {
        cls.label("timed-out");
        cls.sample("timed-out", || json!({"args": shown}));
        return Ok(());
    }
    if out.panicked() {
        return fail(
            "exit 0, 2 or 255 without a panic message",
            out.describe(),
            format!("`hdwallet {}` (env {:?}, {} stdin bytes) [{}]", crate::engine::truncate(&shown.join(" "), 700), c.env.iter().map(|(k, _)| k.as_str()).collect::<Vec<_>>(), stdin.len(), if c.plain { "plain release" } else { "checked build" }),
        );
    }
    if out.code != Some(0) && out.stderr.is_empty() {
        return fail("a message on stderr", out.describe(), format!("error exit without a message: `hdwallet {}`", crate::engine::truncate(&shown.join(" "), 400)));
    }
    let sub = shown.first().cloned().unwrap_or_default();
    cls.label(&format!("cli/{}", if ["address", "export", "public-key", "sign", "hash", "hex", "new"].contains(&sub.as_str()) { sub.as_str() } else { "other" }));
    cls.label(&format!("cli-exit-{}", out.code.unwrap_or(-1)));
    cls.nontrivial(&(c.args_hex.clone(), c.stdin_hex.as_str(), c.env.clone(), c.files.clone(), c.plain));
    cls.sample(&format!("cli-{sub}-exit-{}", out.code.unwrap_or(-1)), || json!({"args": shown, "env": c.env, "stdin_bytes": stdin.len(), "exit": out.code}));
    Ok(())
}

/// Commands at a terminal: standard input, output AND error are pseudo-terminals (what a user at a shell prompt
/// has; progress displays and prompts switch on there). Judged: no panic, no abnormal end.
#[derive(Clone, Debug, Serialize, Deserialize)]
pub struct TtyCliCase {
    pub args: Vec<String>,
}

fn judge_tty_cli(c: &TtyCliCase, cls: &mut Classifier) -> Verdict {
    let Some(exe) = CLI.get() else { return fail("cli path", "none", "CLI not available") };
    let args: Vec<&str> = c.args.iter().map(String::as_str).collect();
    let Some(out) = cli::run_all_tty(exe, &args) else {
        cls.label("tty-not-available-or-timeout");
        return Ok(());
    };
    if out.panicked() {
        return fail("exit 0, 2 or 255 without a panic message", out.describe(), format!("`hdwallet {}` with standard input, output and error on a terminal", c.args.join(" ")));
    }
    cls.label("terminal");
    cls.nontrivial(&("tty", &c.args));
    Ok(())
}

// ================================================================= layer 2: corpus replay

pub fn run(ctx: &mut Ctx) {
    ctx.rule = "layer 1: every library entry point (mnemonic parse/print/seed, Mnemonic::random, path parse + derive, Path::for_index, PrivateKey::new, signature parse/print, digest parse, transaction parse + digest + encode with both parities, typed-data parse, message digest) under catch_unwind on valid inputs (the other properties' generators, word counts 0..40, Unicode white space, type strings with up to 64 array suffixes, JSON nesting up to 128), mutated-valid inputs (byte/token insert-delete-replace-duplicate, number-boundary substitution, invalid UTF-8) and random bytes; layer 2: replay of the committed libFuzzer corpora (campaigns in thorough); layer 3: generated argv/env/stdin for every subcommand and option (indices around 2^31/2^32/2^64, -n 0..40, -j 0..64, vanity prefixes of <= 3 digits in any case and non-hex text, non-UTF-8 arguments, garbage files and stdin). Oracle: result or ordinary error: no panic in-process, and a library call that runs for more than 5 s is re-executed in a fresh process under a 20 CPU-second / 8 GiB limit (exceeding it is unbounded computation; CPU time is independent of machine load); CLI: exit status 0, 2 or 255 without 'panicked at' on stderr and a message on error for the CLI; a run whose threads are all asleep without CPU progress for 15 s (deadlock) or that consumes more than 300 CPU-seconds is killed and reported as a hang; a plain wall-clock watchdog expiry (60 s) is inconclusive. Non-trivial: all; distinct by (entry point, input).".into();
    ctx.assumptions = vec!["Signature::v is exercised through transaction JSON only; Signature::from_parts (documented to panic on invalid parts) is not called with invalid parts".into()];
    set_cli(ctx.cli.clone(), ctx.cli_plain.clone(), ctx.root.clone());
    crate::isolate::set_handler(on_nontermination);
    ctx.replay_known_and_regressions(&replay);
    let t = ctx.tier;
    ctx.run_prop("library", t.pick(200_000, 5_000_000), || crate::gen::tape(1600).prop_map(gen_lib), judge_lib);
    let deep: Vec<LibCase> = [(1000usize, "/0'"), (100_000, "/0'"), (3000, "/2")]
        .iter()
        .map(|(n, comp)| LibCase { entry: "path".into(), input_hex: hex_lower(format!("m{}", comp.repeat(*n)).as_bytes()), origin: "valid".into() })
        .collect();
    ctx.run_cases("library", &deep, judge_lib);
    if CLI.get().map(|p| p.exists()).unwrap_or(false) {
        ctx.shrink_iters = 150;
        ctx.run_prop("cli", t.pick(5000, 30_000), || crate::gen::tape(1200).prop_map(gen_cli), judge_cli);
        // at a terminal (all three standard streams): searches that reject well over 64 candidates, plain commands
        let tphrase = bip39::encode_phrase(&[0x44u8; 16]);
        let mut tcases: Vec<TtyCliCase> = vec![];
        for (pfx, j) in [("0xab", "0"), ("0xAB", "1"), ("0x12", "2"), ("0xf0", "16"), ("0x7", "1"), ("0x123", "4")] {
            tcases.push(TtyCliCase { args: vec!["new".into(), "--vanity-prefix".into(), pfx.into(), "-j".into(), j.into()] });
        }
        tcases.push(TtyCliCase { args: vec!["new".into()] });
        tcases.push(TtyCliCase { args: vec!["new".into(), "-n".into(), "24".into()] });
        tcases.push(TtyCliCase { args: vec!["address".into(), "--mnemonic".into(), tphrase.clone()] });
        tcases.push(TtyCliCase { args: vec!["export".into(), "--mnemonic".into(), tphrase.clone(), "--account-index".into(), "3".into()] });
        tcases.push(TtyCliCase { args: vec!["sign".into(), "--mnemonic".into(), tphrase, "raw".into(), format!("0x{}", "11".repeat(32))] });
        tcases.push(TtyCliCase { args: vec!["--help".into()] });
        tcases.push(TtyCliCase { args: vec!["new".into(), "--bogus".into()] });
        ctx.run_cases("terminal", &tcases[..t.pick(tcases.len() - 1, tcases.len())], judge_tty_cli);
        if ctx.cls.count("tty-not-available-or-timeout") > 0 {
            ctx.inconclusive(format!("{} terminal runs could not be made", ctx.cls.count("tty-not-available-or-timeout")));
        }
        // very deep derivation paths (no depth bound is stated for paths): a derivation written recursively runs
        // out of stack; 40000 components still fit into one argument
        let phrase = bip39::encode_phrase(&[0x33u8; 16]);
        let deep_cli: Vec<CliCase> = [(300usize, "/0'"), (40_000, "/0'"), (30_000, "/1")]
            .iter()
            .map(|(n, comp)| CliCase {
                args_hex: ["export", "--mnemonic", phrase.as_str(), "--hd-path", &format!("m{}", comp.repeat(*n))].iter().map(|a| hex_lower(a.as_bytes())).collect(),
                env: vec![],
                stdin_hex: String::new(),
                plain: false,
                files: vec![],
            })
            .collect();
        ctx.run_cases("cli", &deep_cli[..t.pick(2, 3)], judge_cli);
        if t == Tier::Thorough {
            if CLI_PLAIN.get().map(|p| p.exists()).unwrap_or(false) {
                ctx.run_prop("cli-plain", 10_000, || crate::gen::tape(1200).prop_map(|t| CliCase { plain: true, ..gen_cli(t) }), judge_cli);
            } else {
                ctx.inconclusive("plain release CLI not built");
            }
        }
    } else {
        ctx.inconclusive("CLI executable not available");
    }
    crate::fuzz::run_for(ctx);
    if ctx.cls.count("timed-out") > 0 {
        ctx.inconclusive(format!("{} CLI runs hit the 60 s watchdog (see evidence samples)", ctx.cls.count("timed-out")));
    }
    if ctx.cls.count("slow>10s") > 0 {
        ctx.inconclusive("an in-process call took longer than 10 s");
    }
    for e in ENTRIES {
        for o in ["valid", "mutated", "random"] {
            ctx.floor_abs(&format!("{e}/{o}"), 500);
        }
    }
    for e in ["mnemonic", "path", "signature", "digest", "transaction", "typeddata", "private-key", "for-index", "mnemonic-random"] {
        ctx.floor_abs(&format!("{e}/ok"), 300);
    }
    for s in ["address", "export", "public-key", "sign", "hash", "hex", "new", "other"] {
        ctx.floor_abs(&format!("cli/{s}"), 30);
    }
    ctx.floor_abs("cli-exit-0", 100);
    ctx.floor_abs("cli-exit-255", 100);
    ctx.floor_abs("cli-exit-2", 50);
}

/// Judges one library case: in a fresh process under limits when running inside the `hdv` binary (replays,
/// fuzz artifacts), in-process inside a libFuzzer target (which has no `lib-call` mode; libFuzzer's own
/// -timeout covers hangs there).
pub fn judge_lib_auto(c: &LibCase, cls: &mut Classifier) -> Verdict {
    let in_hdv = std::env::current_exe().ok().and_then(|p| p.file_name().map(|n| n == "hdv")).unwrap_or(false);
    if in_hdv {
        judge_lib_isolated(c, cls)
    } else {
        judge_lib(c, cls)
    }
}

pub fn replay(sub: &str, case: &Value) -> Option<Verdict> {
    match sub {
        "library" | "corpus" | "fuzz" => Some(replay_as::<LibCase>(case, judge_lib_auto)),
        "cli" | "cli-plain" => Some(replay_as::<CliCase>(case, judge_cli)),
        "terminal" => Some(replay_as::<TtyCliCase>(case, judge_tty_cli)),
        _ => None,
    }
}
