//! C05 — signatures are valid, recoverable, low-s and RFC 6979 deterministic.

use super::c04::gen_valid_scalar;
use crate::engine::{catch, fail, replay_as, Classifier, Ctx, Verdict};
use crate::gen::U;
use crate::refimpl::{hex_lower, rfc6979, secp, unhex};
use ethdigest::Digest;
use hdwallet::account::PrivateKey;
use proptest::prelude::*;
use serde::{Deserialize, Serialize};
use serde_json::{json, Value};
use std::cmp::Ordering;

#[derive(Clone, Debug, Serialize, Deserialize)]
pub struct Case {
    pub key_hex: String,
    pub digest_hex: String,
}

const PINNED_KEY: &str = "4f3edf983ac636a65a842ce7c78d9aa706d3b113bce9c46f30d7d21715b23b1d";

pub fn gen_digest(u: &mut U) -> [u8; 32] {
    let one = {
        let mut o = [0u8; 32];
        o[31] = 1;
        o
    };
    match u.below(12) {
        0 => [0u8; 32],
        1 => one,
        2 => secp::scalar_neg(&one), // n-1
        3 => secp::N,
        4 => {
            let mut n1 = secp::N;
            n1[31] += 1;
            n1
        }
        5 => [0xff; 32],
        6 => {
            let mut o = [0u8; 32];
            o[0] = 0x80;
            o
        }
        8 => {
            // digests whose hex text looks like another kind of number: only decimal digits, only 0/1,
            // "0b"/"0o" + binary/octal-looking digits (a parser that tries number literals first misreads them)
            let mut d = [0u8; 32];
            let style = u.below(4);
            for b in d.iter_mut() {
                let (hi, lo) = match style {
                    0 => (u.below(10) as u8, u.below(10) as u8),
                    1 | 2 => (u.below(2) as u8, u.below(2) as u8),
                    _ => (u.below(8) as u8, u.below(8) as u8),
                };
                *b = (hi << 4) | lo;
            }
            if style == 2 {
                d[0] = 0x0b;
            }
            if style == 3 {
                d[0] = 0x00; // "00..." leading zeros, octal-looking
            }
            d
        }
        7 => {
            // uniform at or above n
            let mut d = [0xffu8; 32];
            d[16..].copy_from_slice(&u.bytes(16));
            if secp::cmp(&d, &secp::N) == Ordering::Less {
                d[16] = 0xff;
            }
            d
        }
        _ => u.bytes(32).try_into().unwrap(),
    }
}

pub struct SigParts {
    pub r: [u8; 32],
    pub s: [u8; 32],
    pub parity: bool,
}

pub fn parts(sig: &hdwallet::account::Signature) -> SigParts {
    SigParts { r: sig.r().to_be_bytes(), s: sig.s().to_be_bytes(), parity: sig.y_parity() == ethnum::U256::ONE }
}

fn judge(c: &Case, cls: &mut Classifier) -> Verdict {
    let key: [u8; 32] = match unhex(&c.key_hex).and_then(|k| k.try_into().ok()) {
        Some(k) => k,
        None => return fail("32-byte key", c.key_hex.clone(), "bad replay case"),
    };
    let digest: [u8; 32] = match unhex(&c.digest_hex).and_then(|k| k.try_into().ok()) {
        Some(k) => k,
        None => return fail("32-byte digest", c.digest_hex.clone(), "bad replay case"),
    };
    if !secp::is_valid_secret(&key) {
        return fail("valid key", c.key_hex.clone(), "bad replay case");
    }
    let got = catch(|| {
        let k = PrivateKey::new(key).map_err(|e| e.to_string())?;
        let s1 = k.sign(Digest(digest));
        let s2 = k.try_sign(Digest(digest)).map_err(|e| e.to_string())?;
        let s3 = k.sign(Digest(digest));
        let yp = s1.y_parity();
        Ok::<_, String>((parts(&s1), parts(&s2), parts(&s3), yp))
    });
    let (s1, s2, s3, yp) = match got {
        Ok(Ok(v)) => v,
        Ok(Err(e)) => return fail("a signature", format!("Err({e})"), format!("signing failed for key {} digest {}", c.key_hex, c.digest_hex)),
        Err(p) => return fail("a signature", p, format!("signing panicked for key {} digest {}", c.key_hex, c.digest_hex)),
    };
    let ctxs = format!("key {} digest {}", c.key_hex, c.digest_hex);
    if yp != ethnum::U256::ZERO && yp != ethnum::U256::ONE {
        return fail("0 or 1", yp.to_string(), "y_parity()");
    }
    for (name, o) in [("try_sign", &s2), ("second sign call", &s3)] {
        if o.r != s1.r || o.s != s1.s || o.parity != s1.parity {
            return fail(format!("{} {} {}", hex_lower(&s1.r), hex_lower(&s1.s), s1.parity), format!("{} {} {}", hex_lower(&o.r), hex_lower(&o.s), o.parity), format!("signing is not a pure function of (key, digest): {name} differs; {ctxs}"));
        }
    }
    // range
    let zero = [0u8; 32];
    if s1.r == zero || secp::cmp(&s1.r, &secp::N) != Ordering::Less {
        return fail("1 <= r < n", hex_lower(&s1.r), format!("r out of range; {ctxs}"));
    }
    if s1.s == zero || secp::cmp(&s1.s, &secp::HALF_N) == Ordering::Greater {
        return fail("1 <= s <= n/2", hex_lower(&s1.s), format!("s not low; {ctxs}"));
    }
    let public = secp::mul_g(&key).expect("valid");
    if !secp::ecdsa_verify(&digest, &s1.r, &s1.s, &public) {
        return fail("verifies", "does not verify", format!("ECDSA verification of (r,s)=({},{}) ; {ctxs}", hex_lower(&s1.r), hex_lower(&s1.s)));
    }
    match secp::ecdsa_recover(&digest, &s1.r, &s1.s, s1.parity) {
        Some(q) if q == public => {}
        other => {
            return fail(
                hex_lower(&secp::uncompressed(&public)),
                format!("{:?}", other.map(|q| hex_lower(&secp::uncompressed(&q)))),
                format!("public-key recovery from (digest,r,s,yParity={}) ; {ctxs}", s1.parity),
            )
        }
    }
    let below_n = secp::cmp(&digest, &secp::N) == Ordering::Less;
    let reference = rfc6979::sign(&key, &digest);
    if below_n {
        if reference.r != s1.r || reference.s != s1.s || reference.y_parity != s1.parity {
            return fail(
                format!("r={} s={} yParity={}", hex_lower(&reference.r), hex_lower(&reference.s), reference.y_parity),
                format!("r={} s={} yParity={}", hex_lower(&s1.r), hex_lower(&s1.s), s1.parity),
                format!("RFC 6979 (HMAC-SHA256) deterministic signature after low-s normalisation; {ctxs}"),
            );
        }
        if reference.flipped {
            cls.label("reference-s-was-high");
        }
    } else {
        cls.label("digest>=n");
    }
    cls.label(if s1.parity { "parity-1" } else { "parity-0" });
    if !(c.key_hex == PINNED_KEY) {
        cls.nontrivial(&(c.key_hex.as_str(), c.digest_hex.as_str()));
        cls.sample(if s1.parity { "parity-1" } else { "parity-0" }, || {
            json!({"key": c.key_hex, "digest": c.digest_hex, "r": hex_lower(&s1.r), "s": hex_lower(&s1.s), "yParity": s1.parity})
        });
    }
    Ok(())
}

/// Signing requests related to one another (the same key with a digest that differs in one bit, the same digest
/// with a key that differs in one bit, key and digest swapped) made one after the other on one thread, the first
/// one again at the end: a signature is a function of (key, digest) and of nothing signed before.
#[derive(Clone, Debug, Serialize, Deserialize)]
pub struct HistCase {
    pub steps: Vec<Case>,
}

fn gen_history(tape: Vec<u8>) -> HistCase {
    let mut u = U::new(&tape);
    let key = gen_valid_scalar(&mut u);
    let digest = gen_digest(&mut u);
    let case = |k: &[u8; 32], d: &[u8; 32]| Case { key_hex: hex_lower(k), digest_hex: hex_lower(d) };
    let mut steps = vec![case(&key, &digest)];
    for _ in 0..2 + u.below(3) {
        let (mut k, mut d) = (key, digest);
        match u.below(5) {
            0 => d[u.below(32)] ^= 1 << u.below(8),
            1 => {
                k[1 + u.below(31)] ^= 1 << u.below(8);
                if !secp::is_valid_secret(&k) {
                    k = key;
                    d[31] ^= 1;
                }
            }
            2 => {
                if secp::is_valid_secret(&digest) {
                    k = digest;
                    d = key;
                } else {
                    d = gen_digest(&mut u);
                }
            }
            3 => d = gen_digest(&mut u),
            _ => k = gen_valid_scalar(&mut u),
        }
        steps.push(case(&k, &d));
    }
    steps.push(case(&key, &digest));
    HistCase { steps }
}

fn judge_history(c: &HistCase, cls: &mut Classifier) -> Verdict {
    let mut scratch = Classifier::default();
    // prelude (result ignored): replaces whatever a single-slot memo holds from an earlier case on this thread
    let _ = catch(|| PrivateKey::new([0x42u8; 32]).map(|k| k.sign(Digest([0x24u8; 32]))).is_ok());
    for (i, s) in c.steps.iter().enumerate() {
        judge(s, &mut scratch).map_err(|mut e| {
            e.note = format!("step {i} of a history of {} related signing requests made one after the other on one thread: {}", c.steps.len(), e.note);
            e
        })?;
    }
    // the same requests with every key object made on a thread of its own and all of them used here, on one
    // thread: the signature must recover to the key it was made with (and equal the one made above)
    let reqs: Vec<([u8; 32], [u8; 32])> = c.steps.iter().filter_map(|s| Some((unhex(&s.key_hex)?.try_into().ok()?, unhex(&s.digest_hex)?.try_into().ok()?))).collect();
    let made: Vec<Option<PrivateKey>> = reqs
        .iter()
        .map(|(key, _)| {
            let key = *key;
            std::thread::spawn(move || catch(|| PrivateKey::new(key).ok()).ok().flatten()).join().ok().flatten()
        })
        .collect();
    for (i, ((key, digest), k)) in reqs.iter().zip(&made).enumerate() {
        let Some(k) = k else { return fail("a key object", "None", format!("PrivateKey::new failed on a fresh thread for key {}", hex_lower(key))) };
        let sig = match catch(|| parts(&k.sign(Digest(*digest)))) {
            Ok(s) => s,
            Err(p) => return fail("a signature", p, format!("step {i}: signing with a key object made on another thread panicked")),
        };
        let here = catch(|| PrivateKey::new(*key).ok().map(|k| parts(&k.sign(Digest(*digest))))).ok().flatten();
        let public = secp::mul_g(key).expect("valid key");
        let rec = secp::ecdsa_recover(digest, &sig.r, &sig.s, sig.parity);
        let same = here.as_ref().map(|h| h.r == sig.r && h.s == sig.s && h.parity == sig.parity).unwrap_or(false);
        if rec.as_ref() != Some(&public) || !same {
            return fail(
                format!("a signature of key {} over {} (recovering to its public key)", hex_lower(key), hex_lower(digest)),
                format!("r={} s={} yParity={} (recovers to the signer: {}; equals the signature of a key object made on this thread: {same})", hex_lower(&sig.r), hex_lower(&sig.s), sig.parity, rec.as_ref() == Some(&public)),
                format!("step {i} of a history of {} signing requests whose key objects were each made on a thread of its own and then all used on one thread", reqs.len()),
            );
        }
    }
    cls.label("history/keys-made-on-other-threads");
    cls.label("history");
    cls.nontrivial(&c.steps.iter().map(|s| (s.key_hex.clone(), s.digest_hex.clone())).collect::<Vec<_>>());
    Ok(())
}

pub fn run(ctx: &mut Ctx) {
    ctx.rule = "key from the C04 scalar strategy x digest from {0,1,n-1,n,n+1,2^256-1,2^255,uniform >= n,uniform}. Oracle: range checks, independent ECDSA verification and public-key recovery, sign == try_sign == second call, and for digests < n equality with an RFC 6979 reference (HMAC-SHA256 DRBG written from the RFC, low-s normalisation with parity flip). Histories: 4-6 related requests (digest or key differing in one bit, key and digest swapped, fresh ones) and the first one again, one after the other on one thread, each judged by the same oracle; then the same requests with every key object made on a thread of its own and all used on one thread (signature must recover to its own key and equal the one of a key object made here). Non-trivial: not the pinned unit-test key; distinct by (key, digest).".into();
    ctx.assumptions = vec!["for digests >= n RFC 6979 equality is not claimed (the property restricts it to digests < n)".into()];
    ctx.replay_known_and_regressions(&replay);
    let n = ctx.tier.pick(60_000, 600_000);
    ctx.run_prop(
        "sign",
        n,
        || {
            crate::gen::tape(96).prop_map(|t| {
                let mut u = U::new(&t);
                Case { key_hex: hex_lower(&gen_valid_scalar(&mut u)), digest_hex: hex_lower(&gen_digest(&mut u)) }
            })
        },
        judge,
    );
    let total = ctx.cls.evaluations;
    ctx.run_prop("history", ctx.tier.pick(3000, 50_000), || crate::gen::tape(400).prop_map(gen_history), judge_history);
    ctx.floor("parity-0", total, 0.2);
    ctx.floor("parity-1", total, 0.2);
    ctx.floor("reference-s-was-high", total, 0.2);
    ctx.floor("digest>=n", total, 0.05);
}

pub fn replay(sub: &str, case: &Value) -> Option<Verdict> {
    match sub {
        "sign" => Some(replay_as::<Case>(case, judge)),
        "history" => Some(replay_as::<HistCase>(case, judge_history)),
        _ => None,
    }
}
