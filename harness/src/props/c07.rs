//! C07 — every emitted RLP item is canonical and decodes to the original values.

use super::c06::check_tx;
use crate::engine::{catch, fail, replay_as, Classifier, Ctx, Prng, Verdict};
use crate::gen::json::J;
use crate::refimpl::rlp::{self, Item};
use crate::refimpl::tx::{Kind, TxModel};
use crate::refimpl::u256::Big;
use crate::refimpl::{hex0x, hex_lower};
use hdwallet::transaction::verif_rlp;
use serde::{Deserialize, Serialize};
use serde_json::{json, Value};
use std::collections::HashMap;
use std::sync::Mutex;

const KEY: [u8; 32] = [0x11; 32];

/// A transaction described by a compact recipe (so 16 MiB payloads need no 32 MiB replay file).
#[derive(Clone, Debug, Serialize, Deserialize, PartialEq, Eq, Hash)]
pub struct Recipe {
    /// 0 legacy+chain, 1 legacy no chain, 2 eip2930, 3 eip1559
    pub shape: u8,
    pub data_len: usize,
    pub data_seed: u64,
    /// force calldata to this single byte (data_len must be 1)
    pub single: Option<u8>,
    /// (field index 0..=5 in [nonce, price/maxFee, gas, value, chainId, maxPriority], byte width 0..=32, top byte)
    pub field: Option<(u8, u8, u8)>,
    /// slots per access-list entry
    pub access_list: Vec<u16>,
    pub to_present: bool,
    /// 0 = all slots and addresses distinct; 1 = every slot repeated at the next position; 2 = all slots of
    /// an entry equal; 3 = all entries share one address and one slot value
    #[serde(default)]
    pub repeats: u8,
}

fn build(r: &Recipe) -> (String, TxModel) {
    let mut p = Prng::new(r.data_seed);
    let mut data = p.bytes(r.data_len);
    if let (Some(b), 1) = (r.single, r.data_len) {
        data[0] = b;
    }
    let kind = match r.shape {
        0 | 1 => Kind::Legacy,
        2 => Kind::Eip2930,
        _ => Kind::Eip1559,
    };
    let mut nums = [Big::from_u128(7), Big::from_u128(1_000_000_007), Big::from_u128(21000), Big::from_u128(5), Big::from_u128(1), Big::from_u128(3)];
    if let Some((idx, width, top)) = r.field {
        let w = width as usize;
        let v = if w == 0 {
            Big::zero()
        } else {
            let mut b = p.bytes(w);
            b[0] = top.max(1);
            Big::from_be_bytes(&b)
        };
        nums[idx as usize % 6] = v;
    }
    let access_list: Vec<([u8; 20], Vec<[u8; 32]>)> = if kind == Kind::Legacy {
        vec![]
    } else {
        r.access_list
            .iter()
            .map(|n| {
                let mut a = [0u8; 20];
                p.fill(&mut a);
                let _ = &mut a;
                let mut slots: Vec<[u8; 32]> = (0..*n)
                    .map(|_| {
                        let mut s = [0u8; 32];
                        p.fill(&mut s);
                        s
                    })
                    .collect();
                match r.repeats {
                    1 => {
                        for i in (1..slots.len()).step_by(2) {
                            slots[i] = slots[i - 1];
                        }
                    }
                    2 | 3 => {
                        if let Some(f) = slots.first().copied() {
                            slots.iter_mut().for_each(|s| *s = f);
                        }
                    }
                    _ => {}
                }
                if r.repeats == 3 {
                    a = [0x77; 20];
                    slots.iter_mut().for_each(|s| *s = [0x01; 32]);
                }
                (a, slots)
            })
            .collect()
    };
    let mut to = [0u8; 20];
    p.fill(&mut to);
    let chain = if r.shape == 1 {
        None
    } else if kind == Kind::Legacy && nums[4] > crate::refimpl::tx::c_max() {
        Some(crate::refimpl::tx::c_max())
    } else {
        Some(nums[4].clone())
    };
    let model = TxModel {
        kind,
        chain_id: chain,
        nonce: nums[0].clone(),
        gas_price: if kind == Kind::Eip1559 { Big::zero() } else { nums[1].clone() },
        max_priority_fee: if kind == Kind::Eip1559 { nums[5].clone() } else { Big::zero() },
        max_fee: if kind == Kind::Eip1559 { nums[1].clone() } else { Big::zero() },
        gas: nums[2].clone(),
        to: r.to_present.then_some(to),
        value: nums[3].clone(),
        data,
        access_list,
    };
    let n = |b: &Big| J::Str(format!("0x{}", b.to_hex()));
    let mut kv: Vec<(String, J)> = vec![];
    if let Some(c) = &model.chain_id {
        kv.push(("chainId".into(), n(c)));
    }
    kv.push(("nonce".into(), n(&model.nonce)));
    if kind == Kind::Eip1559 {
        kv.push(("maxPriorityFeePerGas".into(), n(&model.max_priority_fee)));
        kv.push(("maxFeePerGas".into(), n(&model.max_fee)));
    } else {
        kv.push(("gasPrice".into(), n(&model.gas_price)));
    }
    kv.push(("gas".into(), n(&model.gas)));
    if let Some(t) = &model.to {
        kv.push(("to".into(), J::Str(hex0x(t))));
    }
    kv.push(("value".into(), n(&model.value)));
    kv.push(("data".into(), J::Str(hex0x(&model.data))));
    if kind != Kind::Legacy {
        kv.push((
            "accessList".into(),
            J::Arr(
                model
                    .access_list
                    .iter()
                    .map(|(a, s)| J::Arr(vec![J::Str(hex0x(a)), J::Arr(s.iter().map(|x| J::Str(hex0x(x))).collect())]))
                    .collect(),
            ),
        ));
    }
    (J::Obj(kv).render(), model)
}

static SEEN: Mutex<Option<HashMap<u64, u64>>> = Mutex::new(None);

fn judge(r: &Recipe, cls: &mut Classifier) -> Verdict {
    let (doc, model) = build(r);
    let out = check_tx(&doc, &model, &KEY, cls)?;
    // injectivity, checked directly: two different records must never share an encoding
    {
        let eh = crate::engine::stable_hash(&out.encoded);
        let mh = crate::engine::stable_hash(&model);
        let mut g = SEEN.lock().unwrap();
        if let Some(map) = g.as_mut() {
            if let Some(prev) = map.insert(eh, mh) {
                if prev != mh {
                    return fail("distinct encodings", hex_lower(&out.encoded[..out.encoded.len().min(64)]), "two different transactions share one encoding");
                }
            }
        }
    }
    let l = r.data_len;
    cls.label(match l {
        0 => "data-empty",
        1 => "data-single",
        2..=55 => "data-short",
        56..=255 => "data-long1",
        256..=65535 => "data-long2",
        65536..=16777215 => "data-long3",
        _ => "data-long4",
    });
    if let Some((_, w, _)) = r.field {
        cls.label(&format!("int-width-{w}"));
    }
    if !r.access_list.is_empty() {
        cls.label("access-list");
    }
    cls.label(match out.encoded_len {
        0..=56 => "outer<=55ish",
        57..=258 => "outer-long1",
        259..=65540 => "outer-long2",
        _ => "outer-long3",
    });
    if l != 56 && l != 1024 {
        cls.nontrivial(r);
    }
    cls.sample(&format!("shape-{}", r.shape), || json!({"recipe": r, "encoded_len": out.encoded_len, "encoded_prefix": hex_lower(&out.encoded[..out.encoded.len().min(24)])}));
    Ok(())
}

// ------------------------------------------------------------- hook sweeps

#[derive(Clone, Debug, Serialize, Deserialize)]
pub struct HeaderRange {
    pub start: u64,
    pub end: u64,
    pub explicit: Vec<u64>,
}

fn judge_header(c: &HeaderRange, cls: &mut Classifier) -> Verdict {
    let check = |l: u64| -> Verdict {
        for off in [0x80u8, 0xc0] {
            let want = rlp::header(l, off);
            match catch(|| verif_rlp::len(l as usize, off)) {
                Ok(g) if g == want => {}
                Ok(g) => return fail(hex_lower(&want), hex_lower(&g), format!("RLP length header for payload length {l} with offset {off:#x}")),
                Err(p) => return fail(hex_lower(&want), p, format!("RLP length header panicked for length {l}")),
            }
        }
        Ok(())
    };
    let mut n = 0u64;
    for l in c.start..c.end {
        check(l)?;
        n += 1;
    }
    for l in &c.explicit {
        check(*l)?;
        n += 1;
    }
    cls.evals(2 * n - 1);
    cls.label_n("header-call", 2 * n);
    cls.nontrivial(&(c.start, c.end, c.explicit.len()));
    Ok(())
}

#[derive(Clone, Debug, Serialize, Deserialize)]
pub struct BytesCase {
    pub len: usize,
    pub seed: u64,
    pub single: Option<u8>,
}

fn judge_bytes(c: &BytesCase, cls: &mut Classifier) -> Verdict {
    let mut b = Prng::new(c.seed).bytes(c.len);
    if let (Some(x), 1) = (c.single, c.len) {
        b[0] = x;
    }
    let want = rlp::encode_bytes(&b);
    let got = match catch(|| verif_rlp::bytes(&b)) {
        Ok(g) => g,
        Err(p) => return fail(hex_lower(&want[..want.len().min(40)]), p, format!("rlp::bytes panicked for {} bytes", c.len)),
    };
    if got != want {
        return fail(hex_lower(&want[..want.len().min(40)]), hex_lower(&got[..got.len().min(40)]), format!("rlp::bytes of a {}-byte string (first byte {:?})", c.len, b.first()));
    }
    match rlp::decode_strict(&got) {
        Ok(Item::Bytes(d)) if d == b => {}
        other => return fail("decodes to the original string", format!("{other:?}"), format!("strict decode of rlp::bytes output, length {}", c.len)),
    }
    cls.label("hook-bytes");
    cls.nontrivial(&(c.len, c.seed, c.single));
    Ok(())
}

#[derive(Clone, Debug, Serialize, Deserialize)]
pub struct UintCase {
    pub be_hex: String,
}

fn judge_uint(c: &UintCase, cls: &mut Classifier) -> Verdict {
    let be = crate::refimpl::unhex(&c.be_hex).unwrap_or_default();
    let mut full = [0u8; 32];
    full[32 - be.len()..].copy_from_slice(&be);
    let v = ethnum::U256::from_be_bytes(full);
    let want = rlp::encode(&rlp::uint(&full));
    let got = match catch(|| verif_rlp::uint(v)) {
        Ok(g) => g,
        Err(p) => return fail(hex_lower(&want), p, format!("rlp::uint panicked for 0x{}", c.be_hex)),
    };
    if got != want {
        return fail(hex_lower(&want), hex_lower(&got), format!("rlp::uint(0x{})", c.be_hex));
    }
    match rlp::decode_strict(&got).and_then(|i| rlp::as_uint(&i)) {
        Ok(d) if d == rlp::uint_min(&full) => {}
        other => return fail("minimal integer", format!("{other:?}"), format!("strict integer decode of rlp::uint(0x{})", c.be_hex)),
    }
    cls.label("hook-uint");
    cls.nontrivial(&c.be_hex);
    Ok(())
}

#[derive(Clone, Debug, Serialize, Deserialize)]
pub struct ListCase {
    /// lengths of the string items
    pub item_lens: Vec<usize>,
    pub seed: u64,
}

fn judge_list(c: &ListCase, cls: &mut Classifier) -> Verdict {
    let mut p = Prng::new(c.seed);
    let items: Vec<Vec<u8>> = c.item_lens.iter().map(|l| p.bytes(*l)).collect();
    let encoded_items: Vec<Vec<u8>> = items.iter().map(|b| rlp::encode_bytes(b)).collect();
    let refs: Vec<&[u8]> = encoded_items.iter().map(|v| v.as_slice()).collect();
    let want = rlp::encode(&Item::List(items.iter().cloned().map(Item::Bytes).collect()));
    for (name, got) in [("list", catch(|| verif_rlp::list(&refs))), ("iter", catch(|| verif_rlp::iter(encoded_items.iter())))] {
        match got {
            Ok(g) if g == want => {}
            Ok(g) => return fail(hex_lower(&want[..want.len().min(40)]), hex_lower(&g[..g.len().min(40)]), format!("rlp::{name} over items of lengths {:?}", c.item_lens)),
            Err(pn) => return fail("encoding", pn, format!("rlp::{name} panicked")),
        }
    }
    let payload: usize = encoded_items.iter().map(|v| v.len()).sum();
    cls.label(match payload {
        0..=55 => "list-short",
        56..=255 => "list-long1",
        256..=65535 => "list-long2",
        _ => "list-long3",
    });
    cls.nontrivial(&(c.item_lens.clone(), c.seed));
    Ok(())
}

pub fn run(ctx: &mut Ctx) {
    ctx.rule = "public API: transactions of all shapes whose calldata has every length 0..=1100 (for length 1 every byte value), lengths 65534..65538 and 2^24-1..2^24+1, every integer byte width 0..=32 x top byte {01,7f,80,ff} in every numeric field, access lists of 0..8 entries x 0..8 slots and entries with ~1986 slots (list payloads around 55/56, 255/256, 65535/65536), recipient present/absent; each is signed and must strictly decode (canonical-only decoder) to the original values, equal the reference encoder byte for byte, and no two different records may share an encoding. With the verif-hooks re-export: len() for every length below 2^21 (2^26 thorough), 2^k-1,2^k,2^k+1 up to 2^63 and random 64-bit lengths, both offsets; bytes() for every length 0..=1100 and all singletons; uint() for every width x boundary pattern; list()/iter() over item multisets on each payload boundary. Non-trivial: payload length not one of the pinned 56/1024 examples; distinct by recipe.".into();
    ctx.assumptions = vec!["the strict decoder is the oracle for canonicity; it is unit-tested in the harness".into()];
    ctx.replay_known_and_regressions(&replay);
    *SEEN.lock().unwrap() = Some(HashMap::new());
    let t = ctx.tier;
    let mut recipes = vec![];
    let base = |shape: u8, data_len: usize, seed: u64| Recipe { shape, data_len, data_seed: seed, single: None, field: None, access_list: vec![], to_present: true, repeats: 0 };
    for len in 0..=1100usize {
        let shape = (len % 4) as u8;
        let mut r = base(shape, len, ctx.sub_seed("calldata", len as u64));
        r.to_present = len % 3 != 0;
        recipes.push(r);
        // legacy with chain id for every length as well (the property's main carrier)
        if shape != 0 {
            recipes.push(base(0, len, ctx.sub_seed("calldata0", len as u64)));
        }
    }
    for b in 0..=255u8 {
        let mut r = base(b % 4, 1, 1);
        r.single = Some(b);
        recipes.push(r);
    }
    for len in [65534usize, 65535, 65536, 65537, 65538] {
        recipes.push(base(0, len, len as u64));
        recipes.push(base(3, len, len as u64));
    }
    // around 2^24 (16 MiB calldata): the three boundary lengths in every tier, other shapes in thorough
    for len in [(1usize << 24) - 1, 1 << 24, (1 << 24) + 1] {
        recipes.push(base(0, len, len as u64));
        if t == crate::engine::Tier::Thorough {
            recipes.push(base(3, len, len as u64 + 1));
            recipes.push(base(2, len - 40, len as u64 + 2));
        }
    }
    for idx in 0..6u8 {
        for width in 0..=32u8 {
            for top in [0x01u8, 0x7f, 0x80, 0xff] {
                for shape in [0u8, 2, 3] {
                    if (idx == 5 && shape != 3) || (idx == 4 && shape == 1) {
                        continue;
                    }
                    let mut r = base(shape, (width as usize * 3) % 60, ctx.sub_seed("width", (idx as u64) << 16 | (width as u64) << 8 | top as u64));
                    r.field = Some((idx, width, top));
                    recipes.push(r);
                }
            }
        }
    }
    for entries in 0..=8u16 {
        for slots in 0..=8u16 {
            for shape in [2u8, 3] {
                let mut r = base(shape, (entries * 9 + slots) as usize, ctx.sub_seed("al", (entries as u64) << 8 | slots as u64));
                r.access_list = (0..entries).map(|e| if e % 2 == 0 { slots } else { slots / 2 }).collect();
                r.to_present = slots % 2 == 0;
                recipes.push(r.clone());
                // the same shape with repeated storage keys / addresses: [k] and [k,k] are different lists
                for rep in 1..=3u8 {
                    if slots >= 2 || (rep == 3 && entries >= 2) {
                        let mut q = r.clone();
                        q.repeats = rep;
                        recipes.push(q);
                    }
                }
            }
        }
    }
    for slots in 1980..=1990u16 {
        let mut r = base(2, 3, slots as u64);
        r.access_list = vec![slots];
        recipes.push(r.clone());
        r.access_list = vec![slots / 2, slots - slots / 2];
        recipes.push(r);
    }
    ctx.run_cases("transactions", &recipes, judge);
    ctx.exhaustive_parts.push("calldata lengths 0..=1100; all 256 single-byte calldata values; integer widths 0..=32 in every numeric field".into());
    *SEEN.lock().unwrap() = None;

    // hook sweeps
    let top: u64 = t.pick(1 << 21, 1 << 26);
    let chunk = top / 64;
    let mut ranges: Vec<HeaderRange> = (0..64).map(|i| HeaderRange { start: i * chunk, end: (i + 1) * chunk, explicit: vec![] }).collect();
    let mut explicit = vec![];
    for k in 1..=63u32 {
        let v = 1u64 << k;
        explicit.extend_from_slice(&[v - 1, v, v + 1]);
    }
    explicit.push(u64::MAX);
    explicit.push(u64::MAX - 1);
    let mut p = Prng::new(ctx.sub_seed("header-random", 0));
    for _ in 0..t.pick(20_000, 100_000) {
        let w = 1 + p.below(64);
        explicit.push(p.next_u64() >> (64 - w));
    }
    ranges.push(HeaderRange { start: 0, end: 0, explicit });
    ctx.run_cases("hook-header", &ranges, judge_header);
    ctx.exhaustive_parts.push(format!("RLP length headers for every payload length below {top}, both offsets"));

    let mut bs = vec![];
    for len in 0..=1100usize {
        bs.push(BytesCase { len, seed: ctx.sub_seed("bytes", len as u64), single: None });
    }
    for b in 0..=255u8 {
        bs.push(BytesCase { len: 1, seed: 0, single: Some(b) });
    }
    for len in [65535usize, 65536, 65537] {
        bs.push(BytesCase { len, seed: len as u64, single: None });
    }
    ctx.run_cases("hook-bytes", &bs, judge_bytes);

    let mut us = vec![UintCase { be_hex: String::new() }];
    for width in 1..=32usize {
        for top in [0x01u8, 0x7f, 0x80, 0xff] {
            for fill in [0x00u8, 0xff, 0x5a] {
                let mut b = vec![fill; width];
                b[0] = top;
                us.push(UintCase { be_hex: hex_lower(&b) });
            }
            let mut b = p.bytes(width);
            b[0] = top;
            us.push(UintCase { be_hex: hex_lower(&b) });
        }
    }
    for v in 0..=255u8 {
        us.push(UintCase { be_hex: hex_lower(&[v]) });
    }
    ctx.run_cases("hook-uint", &us, judge_uint);

    let mut ls = vec![ListCase { item_lens: vec![], seed: 0 }];
    for total in [0usize, 1, 53, 54, 55, 56, 57, 58, 253, 254, 255, 256, 257, 258, 65533, 65534, 65535, 65536, 65537] {
        // one item, and the same payload split over several items
        for parts in [1usize, 2, 3, 7] {
            let each = total / parts;
            let mut lens = vec![each; parts];
            if let Some(l) = lens.last_mut() {
                *l = total.saturating_sub(each * (parts - 1));
            }
            // account for item headers so that the PAYLOAD (not the content) lands near the boundary
            ls.push(ListCase { item_lens: lens.clone(), seed: total as u64 * 31 + parts as u64 });
            let shrunk: Vec<usize> = lens.iter().map(|l| l.saturating_sub(if *l > 55 { 2 } else { 1 })).collect();
            ls.push(ListCase { item_lens: shrunk, seed: total as u64 * 37 + parts as u64 });
        }
    }
    for i in 0..t.pick(300, 3000) {
        let n = p.below(12) as usize;
        ls.push(ListCase { item_lens: (0..n).map(|_| p.below(70) as usize).collect(), seed: i });
    }
    ctx.run_cases("hook-list", &ls, judge_list);

    ctx.floor_abs("data-empty", 1);
    ctx.floor_abs("data-single", 256);
    ctx.floor_abs("data-long2", 800);
    ctx.floor_abs("data-long3", 5);
    ctx.floor_abs("data-long4", 2);
    ctx.floor_abs("int-width-32", 10);
    ctx.floor_abs("int-width-0", 10);
    ctx.floor_abs("access-list", 100);
    ctx.floor_abs("outer-long3", 5);
    ctx.floor_abs("list-long3", 3);
}

pub fn replay(sub: &str, case: &Value) -> Option<Verdict> {
    match sub {
        "transactions" => Some(replay_as::<Recipe>(case, judge)),
        "hook-header" => Some(replay_as::<HeaderRange>(case, judge_header)),
        "hook-bytes" => Some(replay_as::<BytesCase>(case, judge_bytes)),
        "hook-uint" => Some(replay_as::<UintCase>(case, judge_uint)),
        "hook-list" => Some(replay_as::<ListCase>(case, judge_list)),
        _ => None,
    }
}
