//! C06 — signed transactions are the exact typed encodings and recover to the signer.

use super::c04::gen_valid_scalar;
use super::c05::parts;
use crate::engine::{catch, fail, replay_as, Classifier, Ctx, Verdict};
use crate::gen::txgen::{self, TxCase};
use crate::gen::U;
use crate::refimpl::rlp::{self, Item};
use crate::refimpl::tx::{kind_from_keys, Kind, TxModel};
use crate::refimpl::u256::Big;
use crate::refimpl::{address_of, hex_lower, secp, unhex};
use hdwallet::account::PrivateKey;
use hdwallet::transaction::Transaction;
use proptest::prelude::*;
use serde::{Deserialize, Serialize};
use serde_json::{json, Value};

#[derive(Clone, Debug, Serialize, Deserialize)]
pub struct Case {
    pub tx: TxCase,
    pub key_hex: String,
}

pub struct Outcome {
    pub parity: bool,
    pub encoded_len: usize,
    pub encoded: Vec<u8>,
}

fn short(b: &[u8]) -> String {
    crate::engine::truncate(&hex_lower(b), 300)
}

/// Field-by-field comparison of a strictly decoded signed payload with the model.
pub fn compare_decoded(model: &TxModel, encoded: &[u8], r: &[u8; 32], s: &[u8; 32], parity: bool) -> Result<(), (String, String, String)> {
    let body = match model.type_byte() {
        None => encoded,
        Some(t) => {
            if encoded.first() != Some(&t) {
                return Err((format!("type byte {t:#04x}"), format!("{:?}", encoded.first()), "transaction type byte".into()));
            }
            &encoded[1..]
        }
    };
    let item = rlp::decode_strict(body).map_err(|e| ("canonical RLP".to_string(), e, "strict decoder rejects the emitted bytes".to_string()))?;
    let Item::List(items) = item else {
        return Err(("an RLP list".into(), "a string item".into(), "outer item".into()));
    };
    let mut expected: Vec<(&str, Item)> = vec![];
    let num = |b: &Big| Item::Bytes(b.to_be_min());
    if model.kind != Kind::Legacy {
        expected.push(("chainId", num(model.chain_id.as_ref().unwrap())));
    }
    expected.push(("nonce", num(&model.nonce)));
    if model.kind == Kind::Eip1559 {
        expected.push(("maxPriorityFeePerGas", num(&model.max_priority_fee)));
        expected.push(("maxFeePerGas", num(&model.max_fee)));
    } else {
        expected.push(("gasPrice", num(&model.gas_price)));
    }
    expected.push(("gas", num(&model.gas)));
    expected.push(("to", Item::Bytes(model.to.map(|a| a.to_vec()).unwrap_or_default())));
    expected.push(("value", num(&model.value)));
    expected.push(("data", Item::Bytes(model.data.clone())));
    if model.kind != Kind::Legacy {
        expected.push((
            "accessList",
            Item::List(
                model
                    .access_list
                    .iter()
                    .map(|(a, sl)| Item::List(vec![Item::Bytes(a.to_vec()), Item::List(sl.iter().map(|x| Item::Bytes(x.to_vec())).collect())]))
                    .collect(),
            ),
        ));
    }
    let v = model.v_value(parity).ok_or_else(|| ("v fits 256 bits".to_string(), "overflow".to_string(), "v".to_string()))?;
    expected.push((if model.kind == Kind::Legacy { "v" } else { "yParity" }, num(&v)));
    expected.push(("r", rlp::uint(r)));
    expected.push(("s", rlp::uint(s)));
    if items.len() != expected.len() {
        return Err((format!("{} items", expected.len()), format!("{} items", items.len()), "number of fields in the signed payload".into()));
    }
    for ((name, want), got) in expected.iter().zip(items.iter()) {
        if matches!(*name, "nonce" | "gasPrice" | "gas" | "value" | "chainId" | "v" | "yParity" | "r" | "s" | "maxPriorityFeePerGas" | "maxFeePerGas") {
            rlp::as_uint(got).map_err(|e| ("minimal integer".to_string(), e, format!("field {name}")))?;
        }
        if want != got {
            return Err((format!("{want:?}"), format!("{got:?}"), format!("decoded field {name}")));
        }
    }
    Ok(())
}

/// The whole C06 oracle for one document + model + key. Also used by C07.
pub fn check_tx(doc: &str, model: &TxModel, key: &[u8; 32], cls: &mut Classifier) -> Result<Outcome, crate::engine::Failure> {
    let mk = |e: String, o: String, n: String| crate::engine::Failure { expected: e, observed: o, note: n, known: None };
    let docs = crate::engine::truncate(doc, 600);
    // kind rule from the keys actually present in the document
    if let Ok(Value::Object(o)) = serde_json::from_str::<Value>(doc) {
        let k = kind_from_keys(o.keys().map(|s| s.as_str()));
        if k != model.kind {
            return Err(mk(format!("{:?}", model.kind), format!("{k:?}"), "harness: model kind disagrees with the kind rule".into()));
        }
    }
    let want_digest = model.digest();
    let parsed = crate::isolate::inflight("transaction", doc.as_bytes(), "generated", || catch(|| serde_json::from_str::<Transaction>(doc).map_err(|e| e.to_string())));
    let tx = match parsed {
        Ok(Ok(t)) => t,
        Ok(Err(e)) => return Err(mk("accepted".into(), format!("Err({e})"), format!("well-formed transaction refused: {docs}"))),
        Err(p) => return Err(mk("accepted".into(), p, format!("transaction parsing panicked: {docs}"))),
    };
    let got_kind = match &tx {
        Transaction::Legacy(_) => Kind::Legacy,
        Transaction::Eip2930(_) => Kind::Eip2930,
        Transaction::Eip1559(_) => Kind::Eip1559,
    };
    if got_kind != model.kind {
        return Err(mk(format!("{:?}", model.kind), format!("{got_kind:?}"), format!("transaction kind chosen from the JSON keys: {docs}")));
    }
    let r = catch(|| {
        let d = tx.signing_message();
        let k = PrivateKey::new(key).expect("valid key");
        let sig = k.sign(d);
        let enc = tx.encode(sig);
        (d.0, parts(&sig), enc)
    });
    let (digest, sig, encoded) = match r {
        Ok(v) => v,
        Err(p) => return Err(mk("digest and encoding".into(), p, format!("signing_message/encode panicked: {docs}"))),
    };
    if digest != want_digest {
        return Err(mk(
            format!("{} = keccak({})", hex_lower(&want_digest), short(&model.unsigned_payload())),
            hex_lower(&digest),
            format!("signing digest (Keccak-256 of the unsigned payload) for {docs}"),
        ));
    }
    let want = model
        .signed_payload(&sig.r, &sig.s, sig.parity)
        .ok_or_else(|| mk("v fits".into(), "v overflows".into(), "harness: generator produced a chain id above c_max".into()))?;
    if encoded != want {
        return Err(mk(short(&want), short(&encoded), format!("signed payload bytes for {docs} (yParity={})", sig.parity)));
    }
    // independent of the reference encoder: strict decode and compare field by field
    compare_decoded(model, &encoded, &sig.r, &sig.s, sig.parity).map_err(|(e, o, n)| mk(e, o, format!("{n}; {docs}")))?;
    // sender recovery over the reference digest
    let public = secp::mul_g(key).expect("valid key");
    match secp::ecdsa_recover(&want_digest, &sig.r, &sig.s, sig.parity) {
        Some(q) if address_of(&q) == address_of(&public) => {}
        other => {
            return Err(mk(
                hex_lower(&address_of(&public)),
                format!("{:?}", other.map(|q| hex_lower(&address_of(&q)))),
                format!("sender recovered from the signed transaction; {docs}"),
            ))
        }
    }
    let _ = cls;
    Ok(Outcome { parity: sig.parity, encoded_len: encoded.len(), encoded })
}

fn pinned(model: &TxModel) -> bool {
    model.nonce.is_zero() && model.value.is_zero() && model.data.is_empty() && model.to == Some([0u8; 20]) && model.access_list.is_empty()
}

fn judge(c: &Case, cls: &mut Classifier) -> Verdict {
    let key: [u8; 32] = match unhex(&c.key_hex).and_then(|k| k.try_into().ok()) {
        Some(k) if secp::is_valid_secret(&k) => k,
        _ => return fail("valid key", c.key_hex.clone(), "bad replay case"),
    };
    let out = check_tx(&c.tx.doc, &c.tx.model, &key, cls)?;
    let m = &c.tx.model;
    let shape = match (m.kind, &m.chain_id) {
        (Kind::Legacy, None) => "legacy-nochain",
        (Kind::Legacy, Some(_)) => "legacy-chain",
        (Kind::Eip2930, _) => "eip2930",
        (Kind::Eip1559, _) => "eip1559",
    };
    cls.label(shape);
    cls.label(&format!("{shape}/parity-{}", u8::from(out.parity)));
    if !m.access_list.is_empty() {
        cls.label("non-empty-access-list");
    }
    if m.value.bit_len() > 64 {
        cls.label("value>=2^64");
    }
    if m.data.len() >= 56 {
        cls.label("calldata>=56");
    }
    cls.label(&format!("to-{}", c.tx.to_form));
    if !pinned(m) {
        cls.nontrivial(&(c.tx.doc.as_str(), c.key_hex.as_str()));
        cls.sample(shape, || json!({"doc": crate::engine::truncate(&c.tx.doc, 700), "key": c.key_hex, "yParity": out.parity, "encoded_len": out.encoded_len}));
    }
    Ok(())
}

pub fn gen_case(tape: Vec<u8>) -> Case {
    let mut u = U::new(&tape);
    let key = gen_valid_scalar(&mut u);
    let max = if u.ratio(1, 10) { 2000 } else { 300 };
    Case { tx: txgen::gen_case(&mut u, max), key_hex: hex_lower(&key) }
}

// ---------------------------------------------------------------- histories of near copies

/// A transaction, then near copies of it (one field changed, everything else - kind, lengths, list shape - the
/// same), then the first one again, all parsed, signed and encoded one after the other on one thread and each
/// judged against its own reference: what is produced for a transaction may not depend on what was encoded before
/// (a buffer, cache or memo keyed by too little would show here and nowhere in unrelated random cases).
#[derive(Clone, Debug, Serialize, Deserialize)]
pub struct HistCase {
    pub key_hex: String,
    pub steps: Vec<TxCase>,
    pub changes: Vec<String>,
}

fn near_copy(m: &crate::refimpl::tx::TxModel, u: &mut U) -> (crate::refimpl::tx::TxModel, &'static str) {
    let mut n = m.clone();
    let bump = |x: &crate::refimpl::u256::Big| if x.bit_len() >= 256 { crate::refimpl::u256::Big::from_u128(7) } else { x.add_small(1) };
    let what = match u.below(12) {
        0 => {
            n.nonce = bump(&n.nonce);
            "nonce+1"
        }
        1 => {
            n.value = bump(&n.value);
            "value+1"
        }
        2 => {
            n.gas = bump(&n.gas);
            "gas+1"
        }
        3 if !n.data.is_empty() => {
            let i = u.below(n.data.len());
            n.data[i] ^= 1 << u.below(8);
            "calldata-bit-flipped"
        }
        4 if !n.data.is_empty() => {
            n.data = u.bytes(n.data.len());
            "calldata-same-length-other-bytes"
        }
        5 => {
            n.data.push(u.byte());
            "calldata-one-byte-longer"
        }
        6 if n.to.is_some() => {
            let mut a = n.to.unwrap();
            a[u.below(20)] ^= 1 << u.below(8);
            n.to = Some(a);
            "recipient-bit-flipped"
        }
        7 if n.access_list.iter().any(|(_, k)| !k.is_empty()) => {
            let cands: Vec<usize> = (0..n.access_list.len()).filter(|i| !n.access_list[*i].1.is_empty()).collect();
            let e = cands[u.below(cands.len())];
            let k = u.below(n.access_list[e].1.len());
            n.access_list[e].1[k][u.below(32)] ^= 1 << u.below(8);
            "storage-key-bit-flipped"
        }
        8 if !n.access_list.is_empty() => {
            let e = u.below(n.access_list.len());
            n.access_list[e].0[u.below(20)] ^= 1 << u.below(8);
            "access-list-address-bit-flipped"
        }
        9 if n.access_list.len() >= 2 => {
            let i = u.below(n.access_list.len() - 1);
            n.access_list.swap(i, i + 1);
            "access-list-entries-swapped"
        }
        10 if n.chain_id.is_some() => {
            let c = n.chain_id.clone().unwrap();
            n.chain_id = Some(if c.bit_len() >= 200 { crate::refimpl::u256::Big::from_u128(5) } else { c.add_small(1) });
            "chainId+1"
        }
        _ => {
            n.gas_price = bump(&n.gas_price);
            n.max_fee = bump(&n.max_fee);
            "fee+1"
        }
    };
    (n, what)
}

fn gen_history(tape: Vec<u8>) -> HistCase {
    use crate::gen::txgen::{plain_number, render_with, shape_of};
    let mut u = U::new(&tape);
    let key = gen_valid_scalar(&mut u);
    let first = txgen::gen_case(&mut u, 120);
    // (the document text may spell the key with \u escapes: look at the parsed keys)
    let has_list_key = serde_json::from_str::<Value>(&first.doc).ok().and_then(|v| v.get("accessList").cloned()).is_some();
    let shape = shape_of(&first.model, has_list_key);
    let mut steps = vec![first.clone()];
    let mut changes = vec!["original".to_string()];
    let mut cur = first.model.clone();
    for _ in 0..2 + u.below(3) {
        // mostly a near copy of the ORIGINAL (so that a memo of it is the nearest wrong answer), sometimes of the previous step
        let base = if u.ratio(2, 3) { first.model.clone() } else { cur.clone() };
        let (m, what) = near_copy(&base, &mut u);
        let doc = render_with(&m, shape, &first.to_form, &mut u, &mut |_, x, u| plain_number(x, u)).render();
        steps.push(TxCase { doc, model: m.clone(), to_form: first.to_form.clone() });
        changes.push(what.to_string());
        cur = m;
    }
    steps.push(first);
    changes.push("original again".into());
    HistCase { key_hex: hex_lower(&key), steps, changes }
}

fn judge_history(c: &HistCase, cls: &mut Classifier) -> Verdict {
    let key: [u8; 32] = match unhex(&c.key_hex).and_then(|k| k.try_into().ok()) {
        Some(k) if secp::is_valid_secret(&k) => k,
        _ => return fail("valid key", c.key_hex.clone(), "bad replay case"),
    };
    let mut scratch = Classifier::default();
    // prelude: one fixed transaction of each kind, results ignored - whatever a single-slot memo holds from an
    // earlier case on this thread is replaced, so that a failure below depends on this history alone and the
    // replay file reproduces it
    for doc in [
        r#"{"nonce":1,"gasPrice":2,"gas":3,"to":"0x00000000000000000000000000000000000000aa","value":4,"data":"0x05","chainId":6}"#,
        r#"{"nonce":1,"gasPrice":2,"gas":3,"value":4,"data":"0x","chainId":6,"accessList":[["0x00000000000000000000000000000000000000bb",["0x00000000000000000000000000000000000000000000000000000000000000cc"]]]}"#,
        r#"{"nonce":1,"maxPriorityFeePerGas":2,"maxFeePerGas":3,"gas":4,"value":5,"data":"0x","chainId":6,"accessList":[]}"#,
    ] {
        let _ = catch(|| {
            serde_json::from_str::<Transaction>(doc).ok().map(|t| {
                let _ = t.signing_message();
                t.encode(hdwallet::account::Signature::from_parts(ethnum::U256::ONE, ethnum::U256::ONE, 0))
            })
        });
    }
    for (i, s) in c.steps.iter().enumerate() {
        check_tx(&s.doc, &s.model, &key, &mut scratch).map_err(|mut e| {
            e.note = format!("step {i} ({}) of the history {:?}, each step encoded after the previous ones on one thread: {}", c.changes.get(i).map(String::as_str).unwrap_or("?"), c.changes, e.note);
            e
        })?;
    }
    // the same transactions with the calls interleaved: all parsed, all digested, then signed and encoded in
    // another order (first, last, second, ...) - what encode() emits for a transaction may not depend on which
    // transaction was digested or encoded last
    let r = catch(|| {
        let txs: Vec<Transaction> = c.steps.iter().map(|s| serde_json::from_str::<Transaction>(&s.doc).expect("parsed above")).collect();
        let digests: Vec<_> = txs.iter().map(|t| t.signing_message()).collect();
        let k = PrivateKey::new(key).expect("valid key");
        let n = txs.len();
        let order: Vec<usize> = (0..n).map(|j| if j % 2 == 0 { j / 2 } else { n - 1 - j / 2 }).collect();
        let mut out = vec![];
        for i in order {
            let sig = k.sign(digests[i]);
            let enc = txs[i].encode(sig);
            out.push((i, digests[i].0, parts(&sig), enc));
        }
        // ... and with the digest of a neighbour taken between the digest and the encoding of each
        for i in 0..n {
            let d = txs[i].signing_message();
            let _ = txs[(i + 1) % n].signing_message();
            let sig = k.sign(d);
            let enc = txs[i].encode(sig);
            out.push((i, d.0, parts(&sig), enc));
        }
        out
    });
    match r {
        Err(p) => return fail("digests and encodings", p, format!("interleaved calls over the history {:?} panicked", c.changes)),
        Ok(out) => {
            for (i, digest, sig, enc) in out {
                let m = &c.steps[i].model;
                if digest != m.digest() {
                    return fail(hex_lower(&m.digest()), hex_lower(&digest), format!("signing digest of step {i} when all steps of the history {:?} are digested before any is encoded; {}", c.changes, crate::engine::truncate(&c.steps[i].doc, 400)));
                }
                let want = m.signed_payload(&sig.r, &sig.s, sig.parity).unwrap_or_default();
                if enc != want {
                    return fail(short(&want), short(&enc), format!("signed payload of step {i} when all steps of the history {:?} are parsed and digested first and then encoded in the order first, last, second, ... (or with the digest of the next step taken between its digest and its encoding); {}", c.changes, crate::engine::truncate(&c.steps[i].doc, 400)));
                }
            }
        }
    }
    cls.label("history/interleaved");
    for ch in &c.changes {
        cls.label(&format!("history/{ch}"));
    }
    cls.label("history");
    cls.nontrivial(&(c.key_hex.as_str(), c.steps.iter().map(|s| s.doc.as_str()).collect::<Vec<_>>()));
    cls.sample("history", || json!({"changes": c.changes, "first": crate::engine::truncate(&c.steps[0].doc, 400)}));
    Ok(())
}

// ---------------------------------------------------------------- documents HEAD may or may not accept

/// Shapes the property does not oblige the tool to accept but whose meaning is fixed IF it does ("for every
/// transaction accepted from JSON ... every field equal to the JSON value ... the kind is EIP-1559 when a
/// fee-market field is present"): a redundant gasPrice next to fee-market fields, foreign keys as found in
/// JSON-RPC transaction objects, access-list entries in the object notation of the JSON-RPC API.
#[derive(Clone, Debug, Serialize, Deserialize)]
pub struct LenientCase {
    pub tx: TxCase,
    pub key_hex: String,
    pub what: String,
}

fn gen_lenient(tape: Vec<u8>) -> LenientCase {
    use crate::gen::json::J;
    use crate::gen::txgen::{gen_model, plain_number, render_with, Shape};
    use crate::refimpl::hex0x;
    let mut u = U::new(&tape);
    let key = gen_valid_scalar(&mut u);
    let variant = u.below(5);
    let shape = match variant {
        0 => [Shape::Eip1559, Shape::Eip1559NoList][u.below(2)],
        4 => Shape::Eip1559,
        2 => [Shape::Eip2930, Shape::Eip1559][u.below(2)],
        _ => txgen::SHAPES[u.below(5)],
    };
    let (mut model, to_form) = gen_model(&mut u, shape, 100);
    if variant == 2 && !model.access_list.iter().any(|(_, s)| !s.is_empty()) {
        model.access_list.push((txgen::gen_address(&mut u), vec![[0x11; 32], [0x22; 32]]));
    }
    let J::Obj(mut kv) = render_with(&model, shape, &to_form, &mut u, &mut |_, x, u| plain_number(x, u)) else { unreachable!() };
    let what = match variant {
        0 => {
            // fee-market fields AND a redundant gasPrice: still EIP-1559
            let g = crate::gen::num::u256_boundary(&mut u);
            let at = u.below(kv.len() + 1);
            kv.insert(at, ("gasPrice".into(), plain_number(&g, &mut u)));
            "redundant-gasPrice-with-fee-market-fields"
        }
        1 => {
            // foreign keys of JSON-RPC transaction objects
            let extras: [(&str, J); 8] = [
                ("from", J::Str("0x90f8bf6a479f320ead074411a4b0e7944ea8c9c1".into())),
                ("hash", J::Str(format!("0x{}", "ab".repeat(32)))),
                ("type", [J::Str("0x0".into()), J::Str("0x1".into()), J::Str("0x2".into()), J::Str("0x3".into()), J::Str("0x4".into()), J::Str("0x7e".into()), J::Str("0xff".into()), J::Num("3".into()), J::Num("2".into()), J::Null, J::Str("blob".into())][u.below(11)].clone()),
                ("input", J::Str("0xdeadbeef".into())),
                ("v", J::Str("0x1b".into())),
                ("r", J::Str("0x1".into())),
                ("blockNumber", J::Null),
                ("gasLimit", J::Num("21000".into())),
            ];
            let n = 1 + u.below(3);
            for _ in 0..n {
                let (k, v) = extras[u.below(extras.len())].clone();
                if !kv.iter().any(|(kk, _)| kk == k) {
                    let at = u.below(kv.len() + 1);
                    kv.insert(at, (k.to_string(), v));
                }
            }
            "foreign-keys"
        }
        2 => {
            // access-list entries in object notation {"address":..,"storageKeys":[..]}
            let all = u.bool();
            let entries: Vec<J> = model
                .access_list
                .iter()
                .enumerate()
                .map(|(i, (a, slots))| {
                    let keys = J::Arr(slots.iter().map(|s| J::Str(hex0x(s))).collect());
                    if all || i % 2 == 0 || !slots.is_empty() {
                        let mut o = vec![("address".to_string(), J::Str(hex0x(a))), ("storageKeys".to_string(), keys)];
                        if u.bool() {
                            o.swap(0, 1);
                        }
                        J::Obj(o)
                    } else {
                        J::Arr(vec![J::Str(hex0x(a)), keys])
                    }
                })
                .collect();
            for (k, v) in kv.iter_mut() {
                if k == "accessList" {
                    *v = J::Arr(entries.clone());
                }
            }
            "access-list-object-notation"
        }
        4 => {
            // only one of the two fee-market fields, next to everything an EIP-2930 (or legacy) reading needs:
            // "the kind is EIP-1559 when a fee-market field is present", so the document is refused (a field of
            // its kind is missing) or read as EIP-1559 - never signed as another kind with the fee field ignored
            let drop = ["maxFeePerGas", "maxPriorityFeePerGas"][u.below(2)];
            kv.retain(|(k, _)| k != drop);
            let g = crate::gen::num::u256_boundary(&mut u);
            let at = u.below(kv.len() + 1);
            kv.insert(at, ("gasPrice".into(), plain_number(&g, &mut u)));
            if u.bool() {
                kv.retain(|(k, _)| k != "accessList");
            }
            "partial-fee-fields"
        }
        _ => {
            // duplicate of a key with the same value (last-wins or first-wins cannot matter)
            let i = u.below(kv.len());
            let dup = kv[i].clone();
            let at = u.below(kv.len() + 1);
            kv.insert(at, dup);
            "duplicate-key-same-value"
        }
    };
    let style = u.u64();
    LenientCase { tx: TxCase { doc: J::Obj(kv).render_styled(style), model, to_form }, key_hex: hex_lower(&key), what: what.to_string() }
}

fn judge_lenient(c: &LenientCase, cls: &mut Classifier) -> Verdict {
    let key: [u8; 32] = match unhex(&c.key_hex).and_then(|k| k.try_into().ok()) {
        Some(k) if secp::is_valid_secret(&k) => k,
        _ => return fail("valid key", c.key_hex.clone(), "bad replay case"),
    };
    // refusal is allowed: nothing is asserted then (but it must not panic)
    match catch(|| serde_json::from_str::<Transaction>(&c.tx.doc).is_ok()) {
        Err(p) => return fail("result or error", p, format!("transaction parsing panicked ({}): {}", c.what, crate::engine::truncate(&c.tx.doc, 500))),
        Ok(false) => {
            cls.unspecified(&format!("{}-refused", c.what));
            cls.label(&format!("lenient/{}/refused", c.what));
            return Ok(());
        }
        Ok(true) => {}
    }
    if c.what == "partial-fee-fields" {
        let first = catch(|| {
            let tx = serde_json::from_str::<Transaction>(&c.tx.doc).expect("accepted above");
            tx.encode(hdwallet::account::Signature::from_parts(ethnum::U256::ONE, ethnum::U256::ONE, 0)).first().copied()
        });
        if first != Ok(Some(0x02)) {
            return fail(
                "refused, or read as an EIP-1559 transaction (payload type 0x02)",
                format!("accepted; first payload byte {first:02x?}"),
                format!("a document with a fee-market field is of kind EIP-1559; signing it as another kind ignores the fee field: {}", crate::engine::truncate(&c.tx.doc, 600)),
            );
        }
        cls.label("lenient/partial-fee-fields/accepted");
        return Ok(());
    }
    check_tx(&c.tx.doc, &c.tx.model, &key, cls).map_err(|mut e| {
        e.note = format!("document accepted ({}), so its meaning is fixed by the property: {}", c.what, e.note);
        e
    })?;
    cls.label(&format!("lenient/{}/accepted", c.what));
    cls.nontrivial(&(c.tx.doc.as_str(), c.key_hex.as_str()));
    cls.sample(&format!("lenient-{}", c.what), || json!({"what": c.what, "doc": crate::engine::truncate(&c.tx.doc, 600)}));
    Ok(())
}

pub fn run(ctx: &mut Ctx) {
    ctx.rule = "transaction record of kind {legacy without/with chain id, EIP-2930, EIP-1559 with/without accessList key}, numeric fields from the 256-bit boundary strategy, recipient absent/null/address, calldata lengths {0,1,2,31,32,55,56,57,255,256,uniform<=2000}, access lists of 0..4 entries x 0..4 slots with repeats, rendered to JSON with shuffled keys; key from the scalar strategy; signature = key.sign(signing_message()). Oracle: reference model (kind rule from keys, unsigned payload digest, signed payload bytes), strict canonical-RLP decode with field-by-field comparison, v/yParity formula, sender recovery over the reference digest. A second sub-check renders documents the tool need not accept but whose meaning is fixed if it does (redundant gasPrice next to fee-market fields, foreign JSON-RPC keys, access-list entries in object notation, a duplicated key, only one of the two fee-market fields next to a gasPrice: refused or payload type 0x02): refused -> nothing asserted, accepted -> the same oracle applies. A third sub-check runs histories: a transaction, 2-4 near copies (one field changed: nonce, value, gas, fees, chain id, one bit / all bytes / the length of the calldata, one bit of the recipient, of a storage key or of an access-list address, two entries swapped) and the first one again, one after the other on one thread, each judged against its own reference. JSON text is re-spelled with random white space and string escapes. Non-trivial: not one of the four pinned near-empty transactions; distinct by (document, key).".into();
    ctx.assumptions = vec!["legacy chain ids are kept <= floor((2^256-37)/2) here; larger ones are C11's subject".into()];
    ctx.replay_known_and_regressions(&replay);
    let n = ctx.tier.pick(60_000, 1_000_000);
    ctx.run_prop("encode", n, || crate::gen::tape(1200).prop_map(gen_case), judge);
    ctx.run_prop("lenient", ctx.tier.pick(20_000, 300_000), || crate::gen::tape(1200).prop_map(gen_lenient), judge_lenient);
    let nh = ctx.tier.pick(4000, 100_000);
    ctx.run_prop("history", nh, || crate::gen::tape(1600).prop_map(gen_history), judge_history);
    for ch in ["storage-key-bit-flipped", "calldata-same-length-other-bytes", "nonce+1", "chainId+1"] {
        ctx.floor(&format!("history/{ch}"), nh as u64, 0.03);
    }
    let total = (n as u64).max(1); // floors are relative to the "encode" cases: the fuzz executions that follow are not classified
    crate::fuzz::run_for(ctx);
    for shape in ["legacy-nochain", "legacy-chain", "eip2930", "eip1559"] {
        for p in 0..2 {
            ctx.floor(&format!("{shape}/parity-{p}"), total, 0.05);
        }
    }
    ctx.floor("non-empty-access-list", total, 0.15);
    ctx.floor("value>=2^64", total, 0.2);
    ctx.floor("calldata>=56", total, 0.2);
    ctx.floor("to-null", total, 0.1);
    ctx.floor("to-absent", total, 0.1);
}

pub fn replay(sub: &str, case: &Value) -> Option<Verdict> {
    match sub {
        "encode" => Some(replay_as::<Case>(case, judge)),
        "lenient" => Some(replay_as::<LenientCase>(case, judge_lenient)),
        "history" => Some(replay_as::<HistCase>(case, judge_history)),
        _ => None,
    }
}
