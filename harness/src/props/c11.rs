//! C11 — chain replay protection is never dropped silently.

use super::c05::parts;
use crate::cli::{self, Invocation};
use crate::engine::{catch, fail, replay_as, Classifier, Ctx, Tier, Verdict};
use crate::gen::txgen::{self, Shape, TxCase};
use crate::gen::U;
use crate::refimpl::rlp::{self, Item};
use crate::refimpl::tx::{c_max, Kind, TxModel};
use crate::refimpl::u256::Big;
use crate::refimpl::{address_of, bip32, bip39, hex_lower, secp, unhex};
use hdwallet::account::Signature;
use hdwallet::transaction::Transaction;
use proptest::prelude::*;
use serde::{Deserialize, Serialize};
use serde_json::{json, Value};
use std::path::PathBuf;
use std::sync::OnceLock;
use std::time::Duration;

static CLI: OnceLock<PathBuf> = OnceLock::new();
static CLI_PLAIN: OnceLock<PathBuf> = OnceLock::new();
static ROOT: OnceLock<PathBuf> = OnceLock::new();

pub fn set_cli(cli: Option<PathBuf>, plain: Option<PathBuf>, root: PathBuf) {
    if let Some(c) = cli {
        let _ = CLI.set(c);
    }
    if let Some(c) = plain {
        let _ = CLI_PLAIN.set(c);
    }
    let _ = ROOT.set(root);
}

#[derive(Clone, Debug, Serialize, Deserialize)]
pub struct Case {
    pub tx: TxCase,
    pub entropy_hex: String,
    pub account_index: u32,
    pub flag: bool,
    pub signature_only: bool,
    /// another chain id for the cross-chain metamorphic relation
    pub other_chain: Big,
    /// run against the plain release build instead of the checked one
    pub plain: bool,
    pub stdin: bool,
}

fn chain_class(c: &Option<Big>) -> &'static str {
    match c {
        None => "absent",
        Some(c) if c.is_zero() => "0",
        Some(c) if *c == Big::from_u128(1) => "1",
        Some(c) if c.bit_len() <= 32 => "small",
        Some(c) if c.bit_len() <= 64 => "64-bit",
        Some(c) if *c == c_max() => "c_max",
        Some(c) if *c > c_max() => ">c_max",
        Some(_) => "large",
    }
}

fn gen_chain(u: &mut U) -> Option<Big> {
    let m1 = |b: Big| b.sub(&Big::from_u128(1)).unwrap();
    Some(match u.below(16) {
        0 => return None,
        1 => Big::zero(),
        2 => Big::from_u128(1),
        3 => Big::pow2(32),
        4 => Big::pow2(63),
        5 => m1(Big::pow2(64)),
        6 => Big::pow2(64),
        7 => Big::pow2(128),
        8 => m1(c_max()),
        9 => c_max(),
        10 => c_max().add_small(1),
        11 => m1(Big::pow2(256)),
        12 => Big::pow2(255),
        13 => Big::from_u128(u.u32() as u128),
        _ => crate::gen::num::u256_boundary(u),
    })
}

fn gen_case(tape: Vec<u8>) -> Case {
    let mut u = U::new(&tape);
    let shape = [Shape::LegacyNoChain, Shape::LegacyChain, Shape::LegacyChain, Shape::LegacyChain, Shape::Eip2930, Shape::Eip1559][u.below(6)];
    let (mut model, to_form) = txgen::gen_model(&mut u, shape, 40);
    if shape != Shape::LegacyNoChain {
        let mut c = gen_chain(&mut u);
        while c.is_none() {
            c = gen_chain(&mut u);
            if u.is_empty() {
                c = Some(Big::from_u128(1));
            }
        }
        model.chain_id = c;
    }
    let mut doc = txgen::render_with(&model, shape, &to_form, &mut u, &mut |_, x, u| txgen::plain_number(x, u)).render();
    if shape == Shape::LegacyNoChain && u.ratio(1, 3) && doc.starts_with('{') && doc.len() > 2 {
        // "no chain id" written out: the member is there, its value is null. Whatever a guard looks at (the key,
        // the parsed value), what comes out without the flag must not be an unprotected signature.
        doc.insert_str(1, "\"chainId\":null,");
    } else if shape == Shape::LegacyNoChain && u.ratio(1, 3) && doc.starts_with('{') && doc.len() > 2 {
        // the signature members of a JSON-RPC transaction object with an unprotected v: they are not a chain id
        let v = ["27", "28", "\"0x1b\"", "\"0x1c\"", "0", "1", "\"0x0\"", "\"0x1\""][u.below(8)];
        doc.insert_str(1, &format!("\"v\":{v},\"r\":\"0x1\",\"s\":\"0x2\","));
    }
    let other = loop {
        let o = gen_chain(&mut u).unwrap_or_else(|| Big::from_u128(5));
        if Some(&o) != model.chain_id.as_ref() {
            break o;
        }
        if u.is_empty() {
            break Big::from_u128(424242);
        }
    };
    let elen = [16, 20, 24, 28, 32][u.below(5)];
    Case {
        tx: TxCase { doc, model, to_form },
        entropy_hex: hex_lower(&u.bytes(elen)),
        account_index: [0u32, 0, 1, 7][u.below(4)],
        flag: u.bool(),
        signature_only: u.bool(),
        other_chain: other,
        plain: false,
        stdin: u.ratio(1, 4),
    }
}

fn signer(c: &Case) -> Option<(String, [u8; 32], [u8; 20])> {
    let e = unhex(&c.entropy_hex)?;
    if !matches!(e.len(), 16 | 20 | 24 | 28 | 32) {
        return None;
    }
    let phrase = bip39::encode_phrase(&e);
    let seed = bip39::seed_from_normalised(&phrase, "");
    let key = bip32::derive(&seed, &bip32::default_path(c.account_index)).ok()?;
    let addr = address_of(&secp::mul_g(&key)?);
    Some((phrase, key, addr))
}

fn parse_sig_text(s: &str) -> Option<([u8; 32], [u8; 32], u8)> {
    let b = unhex(s.trim_end_matches('\n').strip_prefix("0x")?)?;
    if b.len() != 65 {
        return None;
    }
    Some((b[..32].try_into().ok()?, b[32..64].try_into().ok()?, b[64]))
}

fn pad32(b: &[u8]) -> Option<[u8; 32]> {
    if b.len() > 32 {
        return None;
    }
    let mut o = [0u8; 32];
    o[32 - b.len()..].copy_from_slice(b);
    Some(o)
}

fn judge(c: &Case, cls: &mut Classifier) -> Verdict {
    let exe = if c.plain { CLI_PLAIN.get() } else { CLI.get() };
    let Some(exe) = exe else { return fail("cli path", "none", "CLI not available") };
    let root = ROOT.get().cloned().unwrap_or_else(|| PathBuf::from("/verif"));
    let Some((phrase, _key, addr)) = signer(c) else { return fail("valid signer", "bad case", "bad replay case") };
    let m = &c.tx.model;
    let mut inv = Invocation::new(&["sign", "--mnemonic", &phrase]);
    if c.account_index != 0 {
        inv = inv.arg("--account-index").arg(c.account_index.to_string());
    }
    inv = inv.arg("transaction");
    if c.signature_only {
        inv = inv.arg("--signature-only");
    }
    if c.flag {
        inv = inv.arg("--allow-missing-relay-protection");
    }
    let file;
    if !c.flag && c.account_index % 2 == 1 {
        // variables named like the flags are not "the explicit override flag"
        inv = inv.env("ALLOW_MISSING_RELAY_PROTECTION", "true").env("ALLOW_MISSING_RELAY_PROTECTION_FLAG", "1");
    }
    if c.stdin {
        inv = inv.arg("-").stdin(c.tx.doc.as_bytes());
        file = None;
    } else {
        let f = cli::temp_file(&root, c.tx.doc.as_bytes());
        inv = inv.arg(f.to_string_lossy().to_string());
        file = Some(f);
    }
    let out = cli::run(exe, &inv, Duration::from_secs(60));
    if let Some(f) = file {
        let _ = std::fs::remove_file(f);
    }
    if out.timed_out {
        cls.label("timed-out");
        return Ok(());
    }
    let what = format!("`hdwallet {}` on {} [{}]", inv.args[3..].join(" "), crate::engine::truncate(&c.tx.doc, 500), if c.plain { "plain release" } else { "checked build" });
    if out.panicked() {
        return fail("result or ordinary error", out.describe(), format!("panic/abort: {what}"));
    }
    let legacy = m.kind == Kind::Legacy;
    let cclass = chain_class(&m.chain_id);
    let explicit_null = c.tx.doc.starts_with("{\"chainId\":null,");
    if explicit_null && c.flag && out.ordinary_error() && out.stdout.is_empty() {
        // refusing null as a chain id value altogether is allowed
        cls.unspecified("chainId-null-refused-with-flag");
        return Ok(());
    }
    if explicit_null {
        cls.label("chainId-null");
    }
    // (1) missing chain id without the override flag
    if legacy && m.chain_id.is_none() && !c.flag {
        if !out.ordinary_error() || !out.stdout.is_empty() {
            return fail("ordinary error, empty stdout", out.describe(), format!("legacy transaction without chain id signed without the override flag: {what}"));
        }
        cls.label("refused-missing-chain-id");
        cls.nontrivial(&(c.tx.doc.as_str(), c.signature_only, c.flag));
        return Ok(());
    }
    // (5) legacy chain id above c_max: an ordinary error is right; a success must still carry the exact v
    // (only c_max+1 with yParity 0 can: 35+2c = 2^256-1), which the decoding below checks
    let over = legacy && m.chain_id.as_ref().map(|x| *x > c_max()).unwrap_or(false);
    if over && out.ordinary_error() && out.stdout.is_empty() {
        cls.label("refused-chain-id-overflow");
        cls.nontrivial(&(c.tx.doc.as_str(), c.signature_only, c.flag));
        return Ok(());
    }
    if !out.ok() {
        return fail("success", out.describe(), format!("signing a transaction with chain id class {cclass}: {what}"));
    }
    let text = out.stdout_str();
    let digest = m.digest();
    let (r, s, parity) = if c.signature_only {
        let Some((r, s, v)) = parse_sig_text(&text) else {
            return fail("0x + 130 hex digits", text, format!("signature-only output: {what}"));
        };
        if v != 27 && v != 28 {
            return fail("v byte 0x1b or 0x1c", format!("{v:#x}"), format!("signature-only output: {what}"));
        }
        (r, s, v == 28)
    } else {
        let Some(bytes) = text.trim_end_matches('\n').strip_prefix("0x").and_then(unhex) else {
            return fail("0x-prefixed hex", text, format!("full output: {what}"));
        };
        let body: &[u8] = match m.type_byte() {
            None => &bytes,
            Some(t) => {
                if bytes.first() != Some(&t) {
                    return fail(format!("type byte {t}"), format!("{:?}", bytes.first()), format!("full output: {what}"));
                }
                &bytes[1..]
            }
        };
        let items = match rlp::decode_strict(body) {
            Ok(Item::List(i)) => i,
            other => return fail("canonical RLP list", format!("{other:?}"), format!("full output: {what}")),
        };
        let n = items.len();
        let want_n = match m.kind {
            Kind::Legacy => 9,
            Kind::Eip2930 => 11,
            Kind::Eip1559 => 12,
        };
        if n != want_n {
            return fail(format!("{want_n} items"), format!("{n} items"), format!("full output: {what}"));
        }
        let ints: Result<Vec<Vec<u8>>, String> = items[n - 3..].iter().map(rlp::as_uint).collect();
        let ints = match ints {
            Ok(i) => i,
            Err(e) => return fail("minimal integers v,r,s", e, format!("full output: {what}")),
        };
        let v = Big::from_be_bytes(&ints[0]);
        let (Some(r), Some(s)) = (pad32(&ints[1]), pad32(&ints[2])) else {
            return fail("r,s fit 32 bytes", "longer", format!("full output: {what}"));
        };
        // v as an exact integer
        let parity = if legacy {
            let base = match &m.chain_id {
                None => Big::from_u128(27),
                Some(cid) => cid.mul_small(2).add_small(35),
            };
            match v.sub(&base).and_then(|d| d.to_u128()) {
                Some(0) => false,
                Some(1) => true,
                _ => {
                    return fail(
                        format!("v = {} + yParity", base.to_dec()),
                        format!("v = {}", v.to_dec()),
                        format!("EIP-155 v must equal 35 + 2c + yParity exactly as an integer (27 + yParity without chain id): {what}"),
                    )
                }
            }
        } else {
            // (4) typed: first field is the chain id, yParity is 0/1
            let first = rlp::as_uint(&items[0]).map(|b| Big::from_be_bytes(&b));
            if first.as_ref().ok() != m.chain_id.as_ref() {
                return fail(format!("{:?}", m.chain_id.as_ref().map(|x| x.to_dec())), format!("{:?}", first.map(|b| b.to_dec())), format!("first signed field of a typed transaction must be the chain id: {what}"));
            }
            match v.to_u128() {
                Some(0) => false,
                Some(1) => true,
                _ => return fail("yParity 0 or 1", v.to_dec(), format!("typed transaction yParity: {what}")),
            }
        };
        (r, s, parity)
    };
    // (2) the chain id is bound into what was signed: recover over the REFERENCE digest
    match secp::ecdsa_recover(&digest, &r, &s, parity) {
        Some(q) if address_of(&q) == addr => {}
        other => {
            return fail(
                hex_lower(&addr),
                format!("{:?}", other.map(|q| hex_lower(&address_of(&q)))),
                format!("signature does not recover to the signer over the reference digest (chain id {:?} bound as {}): {what}", m.chain_id.as_ref().map(|x| x.to_dec()), if legacy { "(c,0,0) tail" } else { "first field" }),
            )
        }
    }
    // (3) the same signature must not validate under another chain id
    if m.chain_id.is_some() {
        let mut other = m.clone();
        other.chain_id = Some(c.other_chain.clone());
        if legacy && c.other_chain > c_max() {
            other.chain_id = Some(Big::from_u128(2));
        }
        if other.chain_id != m.chain_id {
            if let Some(q) = secp::ecdsa_recover(&other.digest(), &r, &s, parity) {
                if address_of(&q) == addr {
                    return fail("a different sender", hex_lower(&addr), format!("signature for chain id {:?} also validates under chain id {:?}: {what}", m.chain_id, other.chain_id));
                }
            }
            cls.label("cross-chain-checked");
        }
    }
    let kind = match m.kind {
        Kind::Legacy => "legacy",
        Kind::Eip2930 => "eip2930",
        Kind::Eip1559 => "eip1559",
    };
    cls.label(&format!("{kind}/{}", if c.signature_only { "signature-only" } else { "full" }));
    cls.label(&format!("chain-{cclass}"));
    cls.label(&format!("parity-{}", u8::from(parity)));
    if m.chain_id.is_some() {
        cls.label(&format!("with-chain/parity-{}", u8::from(parity)));
    }
    if legacy && m.chain_id.is_none() {
        cls.label("override-flag-used");
    }
    if over {
        cls.label("signature-only-above-c_max-signed");
    }
    if m.chain_id != Some(Big::from_u128(1)) || parity {
        cls.nontrivial(&(c.tx.doc.as_str(), c.entropy_hex.as_str(), c.signature_only, c.flag, c.plain));
        cls.sample(&format!("{kind}-chain-{cclass}"), || json!({"args": inv.args[3..], "doc": crate::engine::truncate(&c.tx.doc, 400), "stdout": crate::engine::truncate(&text, 200)}));
    }
    Ok(())
}

// ---------------------------------------------------------------- in-process, high volume

#[derive(Clone, Debug, Serialize, Deserialize)]
pub struct VCase {
    pub chain: Option<Big>,
    pub parity: bool,
    pub doc: String,
    pub model: TxModel,
}

fn gen_vcase(tape: Vec<u8>) -> VCase {
    let mut u = U::new(&tape);
    let mut chain = gen_chain(&mut u);
    if let Some(c) = &chain {
        if *c > c_max() {
            chain = Some(c_max().sub(&Big::from_u128(u.below(3) as u128)).unwrap());
        }
    }
    let shape = if chain.is_some() { Shape::LegacyChain } else { Shape::LegacyNoChain };
    let (mut model, to_form) = txgen::gen_model(&mut u, shape, 20);
    model.chain_id = chain.clone();
    let doc = txgen::render_with(&model, shape, &to_form, &mut u, &mut |_, x, u| txgen::plain_number(x, u)).render();
    VCase { chain, parity: u.bool(), doc, model }
}

fn judge_v(c: &VCase, cls: &mut Classifier) -> Verdict {
    let want_v = c.model.v_value(c.parity);
    let Some(want_v) = want_v else { return fail("c <= c_max", "larger", "bad case") };
    let r = ethnum::U256::from_be_bytes([0x11; 32]);
    let s = ethnum::U256::from_be_bytes([0x22; 32]);
    // One case in four builds the signature with a recovery id whose "x reduced" bit is set (2 or 3, which k256
    // produces when r's x coordinate was >= n): y_parity() is documented to return 0 or 1, so v must not change.
    // from_parts is documented to panic on parts it considers invalid: a panic here is not asserted on.
    let x_reduced = crate::engine::stable_hash(&c.doc) % 4 == 0;
    let rec = u8::from(c.parity) + if x_reduced { 2 } else { 0 };
    if x_reduced && catch(|| Signature::from_parts(r, s, rec)).is_err() {
        cls.unspecified("from_parts-refuses-x-reduced-recovery-id");
        return Ok(());
    }
    let got = catch(|| {
        let sig = Signature::from_parts(r, s, rec);
        if sig.y_parity() != ethnum::U256::from(u8::from(c.parity)) {
            return Err(format!("y_parity() = {} for recovery id {rec} (documented: 0 for even, 1 for odd parity)", sig.y_parity()));
        }
        let chain = c.chain.as_ref().map(|b| ethnum::U256::from_be_bytes(b.to_be32().unwrap()));
        let v = sig.v(chain);
        let tx = serde_json::from_str::<Transaction>(&c.doc).map_err(|e| e.to_string())?;
        Ok::<_, String>((v.to_be_bytes(), tx.signing_message().0, parts(&sig).parity))
    });
    let (v, digest, _) = match got {
        Ok(Ok(x)) => x,
        Ok(Err(e)) => return fail("accepted / y_parity in {0,1}", e, format!("transaction refused or y_parity out of range: {}", crate::engine::truncate(&c.doc, 400))),
        Err(p) => return fail("v", p, format!("Signature::v panicked for chain id {:?}", c.chain.as_ref().map(|b| b.to_dec()))),
    };
    if Big::from_be_bytes(&v) != want_v {
        return fail(want_v.to_dec(), Big::from_be_bytes(&v).to_dec(), format!("Signature::v for chain id {:?} parity {}", c.chain.as_ref().map(|b| b.to_dec()), c.parity));
    }
    if digest != c.model.digest() {
        return fail(hex_lower(&c.model.digest()), hex_lower(&digest), format!("legacy signing digest must cover (chainId,0,0): {}", crate::engine::truncate(&c.doc, 400)));
    }
    cls.label(&format!("v/chain-{}", chain_class(&c.chain)));
    cls.nontrivial(&(c.doc.as_str(), c.parity));
    Ok(())
}

pub fn run(ctx: &mut Ctx) {
    ctx.rule = "CLI `sign transaction`: records of all three kinds (small calldata) with chain id from {absent,0,1,2^32,2^63,2^64-1,2^64,2^128,c_max-1,c_max,c_max+1,2^255,2^256-1,boundary strategy}, override flag present/absent (without the flag, half of the runs carry environment variables named like the flag, which must not count as the explicit override), --signature-only or full output, file or stdin, random mnemonic/account. Oracle: no chain id without flag -> ordinary error and empty stdout; with flag v in {27,28}; legacy c <= c_max: strict-decoded v == 35+2c+yParity as an exact integer and the signature recovers to the reference-derived signer over the reference EIP-155 digest; typed: first field == c; the same (r,s,yParity) must not recover to the signer under another chain id; legacy c > c_max: full mode may only fail with an ordinary error, signature-only may fail or sign correctly; a panic is a violation. In-process: Signature::v and the legacy digest for generated (c, parity). Thorough repeats the CLI cases on the plain release build. Non-trivial: chain id other than 1 or parity 1; distinct by (document, mnemonic, mode, flag).".into();
    ctx.assumptions = vec!["reference key derivation and recovery (refimpl) are correct (self-tested)".into()];
    set_cli(ctx.cli.clone(), ctx.cli_plain.clone(), ctx.root.clone());
    ctx.replay_known_and_regressions(&replay);
    let n = ctx.tier.pick(5000, 20_000);
    ctx.shrink_iters = 150;
    ctx.run_prop("cli", n, || crate::gen::tape(500).prop_map(gen_case), judge);
    if ctx.tier == Tier::Thorough {
        if CLI_PLAIN.get().map(|p| p.exists()).unwrap_or(false) {
            ctx.run_prop("cli-plain", n, || crate::gen::tape(500).prop_map(|t| Case { plain: true, ..gen_case(t) }), judge);
        } else {
            ctx.inconclusive("plain release CLI not built");
        }
    }
    ctx.shrink_iters = 2000;
    ctx.run_prop("v-in-process", ctx.tier.pick(40_000, 1_000_000), || crate::gen::tape(300).prop_map(gen_vcase), judge_v);
    if ctx.cls.count("timed-out") > 0 {
        ctx.inconclusive("CLI watchdog expired");
    }
    ctx.floor_abs("refused-missing-chain-id", 10);
    ctx.floor_abs("override-flag-used", 10);
    ctx.floor_abs("refused-chain-id-overflow", 10);
    ctx.floor_abs("with-chain/parity-0", 50);
    ctx.floor_abs("with-chain/parity-1", 50);
    ctx.floor_abs("chain-c_max", 5);
    ctx.floor_abs("legacy/full", 50);
    ctx.floor_abs("legacy/signature-only", 50);
    ctx.floor_abs("eip1559/full", 20);
    ctx.floor_abs("eip2930/full", 20);
    ctx.floor_abs("cross-chain-checked", 200);
}

pub fn replay(sub: &str, case: &Value) -> Option<Verdict> {
    match sub {
        "cli" | "cli-plain" => Some(replay_as::<Case>(case, judge)),
        "v-in-process" => Some(replay_as::<VCase>(case, judge_v)),
        _ => None,
    }
}
