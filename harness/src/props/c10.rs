//! C10 — personal-message digest is the EIP-191 prefixed Keccak-256.

use crate::engine::{catch, fail, replay_as, Classifier, Ctx, Prng, Verdict};
use crate::refimpl::{eip191, hex_lower};
use hdwallet::message::EthereumMessage;
use proptest::prelude::*;
use serde::{Deserialize, Serialize};
use serde_json::{json, Value};

#[derive(Clone, Debug, Serialize, Deserialize)]
pub struct Case {
    /// message bytes as hex (or, for very long messages, a generator recipe)
    pub msg_hex: Option<String>,
    pub recipe: Option<(usize, u64)>,
}

impl Case {
    fn bytes(&self) -> Vec<u8> {
        match (&self.msg_hex, &self.recipe) {
            (Some(h), _) => crate::refimpl::unhex(h).unwrap_or_default(),
            (None, Some((len, seed))) => Prng::new(*seed).bytes(*len),
            _ => vec![],
        }
    }
    fn of(m: &[u8]) -> Case {
        Case { msg_hex: Some(hex_lower(m)), recipe: None }
    }
}

const PINNED: &[u8] = b"hello world!";

fn judge(c: &Case, cls: &mut Classifier) -> Verdict {
    let m = c.bytes();
    let want = eip191(&m);
    // all carriers the API admits
    let got_vec = catch(|| EthereumMessage(m.clone()).signing_message().0);
    let got_slice = catch(|| EthereumMessage(&m[..]).signing_message().0);
    for (carrier, got) in [("Vec<u8>", &got_vec), ("&[u8]", &got_slice)] {
        match got {
            Err(p) => return fail("a digest", p.clone(), format!("signing_message panicked for a {}-byte message ({carrier})", m.len())),
            Ok(g) if *g != want => {
                return fail(
                    hex_lower(&want),
                    hex_lower(g),
                    format!("EIP-191 digest of a {}-byte message via {carrier}", m.len()),
                )
            }
            _ => {}
        }
    }
    if let Ok(s) = String::from_utf8(m.clone()) {
        cls.label("utf8-string-carrier");
        match catch(|| EthereumMessage(s).signing_message().0) {
            Ok(g) if g == want => {}
            other => return fail(hex_lower(&want), format!("{other:?}"), "EIP-191 digest via String carrier"),
        }
    } else {
        cls.label("non-utf8");
    }
    let digits = crate::refimpl::dec(m.len() as u128).len();
    cls.label(&format!("len-digits-{digits}"));
    if m.is_empty() {
        cls.label("empty");
    }
    if m.first().map(|b| b.is_ascii_digit()).unwrap_or(false) {
        cls.label("leading-digit");
    }
    if m != PINNED {
        cls.nontrivial(&m);
        cls.sample(&format!("len-digits-{digits}"), || {
            json!({"len": m.len(), "msg_hex_prefix": hex_lower(&m[..m.len().min(24)]), "digest": hex_lower(&want)})
        });
    }
    Ok(())
}

// ---------------------------------------------------------------- CLI sample: `hash message` / `sign message`

#[derive(Clone, Debug, Serialize, Deserialize)]
pub struct CliCase {
    pub msg_hex: String,
    pub stdin: bool,
}

fn judge_cli(c: &CliCase, cls: &mut Classifier) -> Verdict {
    use crate::cli::Invocation;
    use crate::refimpl::{address_of, bip32, bip39, secp, unhex};
    let m = unhex(&c.msg_hex).unwrap_or_default();
    let want = eip191(&m);
    let root = crate::cli::global_root();
    let phrase = bip39::encode_phrase(&[0x42u8; 16]);
    let file = if c.stdin { None } else { Some(crate::cli::temp_file(&root, &m)) };
    let target = file.as_ref().map(|f| f.to_string_lossy().to_string()).unwrap_or_else(|| "-".into());
    let with_input = |inv: Invocation| if c.stdin { inv.stdin(&m) } else { inv };
    let h = crate::cli::run_global(&with_input(Invocation::new(&["hash", "message", &target])));
    let s = crate::cli::run_global(&with_input(Invocation::new(&["sign", "--mnemonic", &phrase, "message", &target])));
    if let Some(f) = file {
        let _ = std::fs::remove_file(f);
    }
    let (Some(h), Some(s)) = (h, s) else { return fail("cli", "not configured", "CLI not available") };
    if h.timed_out || s.timed_out {
        cls.label("timed-out");
        return Ok(());
    }
    let what = format!("{}-byte message {} via {}", m.len(), crate::engine::truncate(&c.msg_hex, 80), if c.stdin { "stdin" } else { "file" });
    if !h.ok() || h.stdout_str().trim_end() != format!("0x{}", hex_lower(&want)) {
        return fail(format!("0x{}", hex_lower(&want)), h.describe(), format!("`hdwallet hash message` on a {what}"));
    }
    // the signature must be over exactly that digest: recover the signer with the reference stack
    let sig = s.stdout_str();
    let bytes = sig.trim_end().strip_prefix("0x").and_then(unhex).filter(|b| b.len() == 65 && (b[64] == 27 || b[64] == 28));
    let Some(b) = bytes.filter(|_| s.ok()) else {
        return fail("a signature", s.describe(), format!("`hdwallet sign message` on a {what}"));
    };
    let seed = bip39::seed_from_normalised(&phrase, "");
    let key = bip32::derive(&seed, &bip32::default_path(0)).expect("reference key");
    let addr = address_of(&secp::mul_g(&key).expect("valid"));
    let r: [u8; 32] = b[..32].try_into().unwrap();
    let sv: [u8; 32] = b[32..64].try_into().unwrap();
    match secp::ecdsa_recover(&want, &r, &sv, b[64] == 28) {
        Some(q) if address_of(&q) == addr => {}
        other => {
            return fail(
                hex_lower(&addr),
                format!("{:?}", other.map(|q| hex_lower(&address_of(&q)))),
                format!("`hdwallet sign message` does not sign the EIP-191 digest of the {what} (signer recovered over the reference digest)"),
            )
        }
    }
    cls.label("cli-message");
    cls.label(if std::str::from_utf8(&m).is_ok() { "cli-utf8" } else { "cli-non-utf8" });
    cls.nontrivial(&(c.msg_hex.as_str(), c.stdin, "cli"));
    Ok(())
}

/// Messages related to one another (same length with other bytes, one bit flipped, one byte shorter / longer, a
/// text and its bytes with the top bit set) digested one after the other on one thread, the first one again at
/// the end: the digest of a message may not depend on what was digested before.
#[derive(Clone, Debug, Serialize, Deserialize)]
pub struct HistCase {
    pub steps: Vec<Case>,
}

fn judge_cli_nonblocking(c: &CliCase, cls: &mut Classifier) -> Verdict {
    use crate::cli::Invocation;
    let m = crate::refimpl::unhex(&c.msg_hex).unwrap_or_default();
    let want = format!("0x{}\n", hex_lower(&eip191(&m)));
    let inv = Invocation::new(&["hash", "message", "-"]).stdin(&m);
    let Some(out) = crate::cli::with_nonblocking_stdin(|| crate::cli::run_global(&inv)) else { return Ok(()) };
    if out.timed_out {
        cls.label("timed-out");
        return Ok(());
    }
    if out.panicked() || out.hang.is_some() {
        return fail("a digest or an ordinary error", out.describe(), format!("`hash message -` with standard input in non-blocking mode, {} bytes written in two parts", m.len()));
    }
    if out.code == Some(0) {
        cls.label("nonblocking-succeeded");
        if out.stdout_str() != want {
            return fail(want, out.stdout_str(), format!("`hash message -` with standard input in non-blocking mode, message of {} bytes 0x{} written in two parts with a pause: exit 0 must come with the digest of the whole message", m.len(), crate::engine::truncate(&c.msg_hex, 120)));
        }
    } else {
        cls.label("nonblocking-gave-up");
        if !out.stdout.is_empty() {
            return fail("empty stdout on error", out.stdout_str(), "`hash message -` with standard input in non-blocking mode: error exit with output");
        }
    }
    cls.nontrivial(&("nonblocking", c.msg_hex.as_str()));
    Ok(())
}

fn gen_history(tape: Vec<u8>) -> HistCase {
    let mut u = crate::gen::U::new(&tape);
    let len = match u.below(8) {
        0 => [1usize, 9, 10, 99, 100, 999, 1000, 9999, 10_000][u.below(9)],
        1 => [31usize, 32, 55, 56, 64, 135, 136, 137, 8192][u.below(9)],
        _ => 1 + u.below(300),
    };
    let m = u.bytes(len);
    let mut steps = vec![m.clone()];
    for _ in 0..2 + u.below(3) {
        let mut x = m.clone();
        match u.below(6) {
            0 => x = u.bytes(len),
            1 => {
                let i = u.below(len);
                x[i] ^= 1 << u.below(8);
            }
            2 => {
                x.pop();
            }
            3 => x.push(u.byte()),
            4 => x.iter_mut().for_each(|b| *b |= 0x80),
            _ => x.reverse(),
        }
        steps.push(x);
    }
    steps.push(m);
    HistCase { steps: steps.iter().map(|m| Case::of(m)).collect() }
}

fn judge_history(c: &HistCase, cls: &mut Classifier) -> Verdict {
    let mut scratch = Classifier::default();
    // prelude (result ignored): replaces whatever a single-slot memo holds from an earlier case on this thread
    let _ = catch(|| EthereumMessage(&b"prelude"[..]).signing_message().0);
    for (i, s) in c.steps.iter().enumerate() {
        judge(s, &mut scratch).map_err(|mut e| {
            e.note = format!("step {i} of a history of {} related messages digested one after the other on one thread: {}", c.steps.len(), e.note);
            e
        })?;
    }
    cls.label("history");
    cls.nontrivial(&c.steps.iter().map(|s| s.msg_hex.clone()).collect::<Vec<_>>());
    Ok(())
}

/// `hash message -` with the message typed at a terminal (text lines, end-of-file character): the digest covers
/// exactly the bytes typed, the final line feed included.
#[derive(Clone, Debug, Serialize, Deserialize)]
pub struct TtyCase {
    pub text: String,
    pub stdout_tty: bool,
}

fn judge_tty(c: &TtyCase, cls: &mut Classifier) -> Verdict {
    let Some(exe) = crate::cli::global_cli() else { return fail("cli", "not configured", "CLI not available") };
    let m = c.text.as_bytes();
    let want = format!("0x{}\n", hex_lower(&eip191(m)));
    let Some(out) = crate::cli::run_tty(&exe, &["hash", "message", "-"], m, true, c.stdout_tty) else {
        cls.label("tty-not-available-or-timeout");
        return Ok(());
    };
    if !out.ok() || out.stdout_str() != want {
        return fail(want, out.describe(), format!("`hdwallet hash message -` with {:?} typed at a terminal{}: EIP-191 digest of exactly those {} bytes", c.text, if c.stdout_tty { " (output to the terminal too)" } else { "" }, m.len()));
    }
    cls.label("terminal");
    cls.nontrivial(&("tty", c.text.as_str(), c.stdout_tty));
    Ok(())
}

pub fn run(ctx: &mut Ctx) {
    ctx.rule = "byte strings: every length 0..=1100 (seeded random content, first byte forced through all 256 values and ASCII digits), lengths 10^k-1,10^k,10^k+1 (k=1..6 quick, 1..7 thorough), special contents (NUL, newline, invalid UTF-8, digits only) and proptest-generated strings; oracle: keccak(0x19 'Ethereum Signed Message:\\n' dec(len) m) via sha3 with own decimal loop, for Vec<u8>, &[u8] and String carriers; CLI sample: `hash message` prints that digest and the `sign message` signature recovers to the reference-derived signer over it (file and stdin; non-UTF-8 and trailing-newline contents, and a table of contents that look like another encoding or carry a marker: byte-order marks, hex/JSON/base64/escape look-alikes, white-space framing, option-like text, NULs). Histories: a message, 2-4 relatives (same length with other bytes, one bit flipped, one byte shorter/longer, top bits set, reversed) and the first one again, digested one after the other on one thread. Non-trivial: message differs from the pinned 12-byte unit-test message; distinct by content.".into();
    ctx.assumptions = vec!["sha3::Keccak256 is a correct Keccak-256".into()];
    ctx.replay_known_and_regressions(&replay);

    let mut p = Prng::new(ctx.sub_seed("sweep", 0));
    let mut cases = vec![];
    for len in 0..=1100usize {
        let mut m = p.bytes(len);
        if len > 0 {
            m[0] = (len % 256) as u8; // all 256 first-byte values
        }
        cases.push(Case::of(&m));
    }
    for len in 1..=300usize {
        // all-digit and leading-digit contents (confusable with the length field)
        let m: Vec<u8> = (0..len).map(|i| b'0' + ((i * 7 + len) % 10) as u8).collect();
        cases.push(Case::of(&m));
    }
    for b in 0..=255u8 {
        cases.push(Case::of(&[b]));
        cases.push(Case::of(&[b, b'\n', 0, b]));
    }
    for special in [&b"\n"[..], b"\0", b"\xff\xfe", b"\x19Ethereum Signed Message:\n0", b"12hello world!", b"\xc3\x28", b"\xf0\x9f\x98\x80"] {
        cases.push(Case::of(special));
    }
    for t in crate::gen::TRICKY_BYTES {
        cases.push(Case::of(t));
    }
    ctx.run_cases("sweep", &cases, judge);
    ctx.exhaustive_parts.push("message lengths 0..=1100".into());

    let kmax = ctx.tier.pick(6, 7);
    let mut big = vec![];
    for k in 1..=kmax {
        let t = 10usize.pow(k);
        for len in [t - 1, t, t + 1] {
            big.push(Case { msg_hex: None, recipe: Some((len, ctx.sub_seed("pow10", len as u64))) });
        }
    }
    ctx.run_cases("pow10", &big, judge);

    let n = ctx.tier.pick(30_000, 300_000);
    ctx.run_prop(
        "random",
        n,
        || {
            prop_oneof![
                proptest::collection::vec(any::<u8>(), 0..200),
                proptest::collection::vec(any::<u8>(), 0..5000),
                "\\PC{0,100}".prop_map(|s| s.into_bytes()),
                proptest::collection::vec(prop_oneof![Just(b'0'), Just(b'9'), Just(b'\n'), any::<u8>()], 0..64),
            ]
            .prop_map(|m| Case::of(&m))
        },
        judge,
    );
    ctx.run_prop("history", ctx.tier.pick(4000, 60_000), || crate::gen::tape(12_000).prop_map(gen_history), judge_history);
    // CLI sample: the digest that `hash message` prints and `sign message` signs
    if crate::cli::global_cli().is_some() {
        let mut p = Prng::new(ctx.sub_seed("cli", 0));
        let mut cc = vec![];
        for i in 0..ctx.tier.pick(120, 2000) {
            let len = match i % 6 {
                0 => 0,
                1 => 1 + p.below(4) as usize,
                2 => 9 + p.below(3) as usize,
                3 => 99 + p.below(3) as usize,
                _ => p.below(3000) as usize,
            };
            let mut m = p.bytes(len);
            match i % 5 {
                0 => m.iter_mut().for_each(|b| *b = 0x20 + (*b % 0x5f)), // printable ASCII
                1 => {
                    if let Some(l) = m.last_mut() {
                        *l = b'\n';
                    }
                }
                2 => m.extend_from_slice(b"\xff\xfe\xc3\x28"),
                _ => {}
            }
            cc.push(CliCase { msg_hex: hex_lower(&m), stdin: i % 2 == 0 });
        }
        // the upper end of the quantified lengths (10^6 +- 1) and the sizes where buffers usually change hands,
        // through both channels: a cap or a chunked reader in the command shows only here
        for len in [65_536usize, 65_537, 999_999, 1_000_000, 1_000_001, 1_048_577] {
            let m = p.bytes(len);
            cc.push(CliCase { msg_hex: hex_lower(&m), stdin: true });
            cc.push(CliCase { msg_hex: hex_lower(&m), stdin: false });
        }
        // contents that look like another encoding or carry a marker (BOM, hex/JSON look-alikes, white-space
        // framing, option-like text, NULs): each through the file and the stdin channel
        for t in crate::gen::TRICKY_BYTES {
            cc.push(CliCase { msg_hex: hex_lower(t), stdin: false });
            cc.push(CliCase { msg_hex: hex_lower(t), stdin: true });
        }
        ctx.run_cases("cli-message", &cc, judge_cli);
        // standard input left in non-blocking mode by the parent, the message arriving in two parts: the command
        // may give up with an ordinary error (EAGAIN), but a digest it prints is the digest of the whole message
        let mut np = Prng::new(ctx.sub_seed("nonblocking", 0));
        let nb: Vec<CliCase> = (0..ctx.tier.pick(40, 600))
            .map(|i| {
                let len = [2usize, 3, 10, 100, 1000, 5000, 70_000][i % 7] + np.below(50) as usize;
                CliCase { msg_hex: hex_lower(&np.bytes(len)), stdin: true }
            })
            .collect();
        ctx.run_cases("nonblocking-stdin", &nb, judge_cli_nonblocking);
        let mut tp = Prng::new(ctx.sub_seed("tty", 0));
        let mut tc = vec![];
        for i in 0..ctx.tier.pick(24, 300) {
            let lines = 1 + tp.below(3) as usize;
            let mut t = String::new();
            for _ in 0..lines {
                let len = tp.below(30) as usize;
                t.extend((0..len).map(|_| (0x20 + tp.below(0x5f) as u8) as char));
                t.push('\n');
            }
            if i % 4 == 3 {
                t.pop();
            }
            tc.push(TtyCase { text: t, stdout_tty: i % 2 == 1 });
        }
        tc.push(TtyCase { text: "hello\n".into(), stdout_tty: false });
        tc.push(TtyCase { text: "\n".into(), stdout_tty: true });
        ctx.run_cases("terminal", &tc, judge_tty);
        if ctx.cls.count("tty-not-available-or-timeout") > 0 {
            ctx.inconclusive(format!("{} terminal runs could not be made (no pseudo-terminal or time-out)", ctx.cls.count("tty-not-available-or-timeout")));
        }
        if ctx.cls.count("timed-out") > 0 {
            ctx.inconclusive("CLI watchdog expired");
        }
        ctx.floor_abs("cli-non-utf8", 40);
        ctx.floor_abs("cli-utf8", 10);
    } else {
        ctx.inconclusive("CLI executable not available for the `sign message` / `hash message` sample");
    }
    for d in 1..=kmax.min(5) + 1 {
        ctx.floor_abs(&format!("len-digits-{d}"), 1);
    }
    ctx.floor_abs("non-utf8", 100);
    ctx.floor_abs("empty", 1);
}

pub fn replay(sub: &str, case: &Value) -> Option<Verdict> {
    match sub {
        "sweep" | "pow10" | "random" => Some(replay_as::<Case>(case, judge)),
        "cli-message" => Some(replay_as::<CliCase>(case, judge_cli)),
        "history" => Some(replay_as::<HistCase>(case, judge_history)),
        "nonblocking-stdin" => Some(replay_as::<CliCase>(case, judge_cli_nonblocking)),
        "terminal" => Some(replay_as::<TtyCase>(case, judge_tty)),
        _ => None,
    }
}
