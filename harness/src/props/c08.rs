//! C08 — EIP-712 digests equal the standard's hashStruct/encodeType definition.

use crate::engine::{catch, fail, replay_as, Classifier, Ctx, Verdict};
use crate::gen::td::{self, TdCase, TdModel};
use crate::gen::U;
use crate::refimpl::eip712::{Ty, TypeGraph, Val};
use crate::refimpl::hex_lower;
use hdwallet::typeddata::{verif_encode_type, verif_member_type_image, TypedData};
use proptest::prelude::*;
use serde::{Deserialize, Serialize};
use serde_json::{json, Value};
use std::collections::BTreeSet;

pub fn types_json(g: &TypeGraph) -> String {
    let mut u = U::new(&[]);
    td::render_types(g, &mut u).render()
}

/// Structural labels of a model (computed from the AST, not by the generator).
pub fn labels(m: &TdModel) -> Vec<&'static str> {
    let mut out = vec![];
    let g = &m.graph;
    let Some(def) = g.get(&m.primary) else { return out };
    let deps = g.dependencies(&m.primary).unwrap_or_default();
    if !deps.is_empty() {
        out.push("has-dependencies");
    }
    // hashed struct types (primary or reachable) by member count
    for s in std::iter::once(&m.primary).chain(deps.iter()) {
        match g.get(s).map(|d| d.members.len()) {
            Some(16) => out.push("hashed-struct-with-16-members"),
            Some(15 | 17) => out.push("hashed-struct-with-15-or-17-members"),
            Some(31..=33) => out.push("hashed-struct-with-31..33-members"),
            Some(n) if n >= 7 => out.push("hashed-struct-with>=7-members"),
            _ => {}
        }
    }
    // reference multiset over the reachable graph
    let mut refs_total = 0usize;
    let mut reach: Vec<&str> = vec![&m.primary];
    reach.extend(deps.iter().map(|s| s.as_str()));
    let mut recursive_self = false;
    let mut refers_to_primary = false;
    for s in &reach {
        if let Some(d) = g.get(s) {
            for (_, t) in &d.members {
                if let Some(r) = t.struct_ref() {
                    refs_total += 1;
                    if r == *s {
                        recursive_self = true;
                    }
                    if r == m.primary && *s != m.primary {
                        refers_to_primary = true;
                    }
                }
            }
        }
    }
    if refs_total > deps.len() + usize::from(recursive_self || refers_to_primary) {
        out.push("shared-dependency");
    }
    // the shape that distinguishes a complete work-list from one that stops at the first seen name:
    // a struct whose member list references some type twice (or a type already reachable) AFTER another new type
    let direct: Vec<&str> = def.members.iter().filter_map(|(_, t)| t.struct_ref()).collect();
    let mut seen = BTreeSet::new();
    let mut dup_after_other = false;
    for (i, r) in direct.iter().enumerate() {
        if !seen.insert(*r) && direct[..i].iter().any(|x| x != r) {
            dup_after_other = true;
        }
    }
    if dup_after_other {
        out.push("repeated-dependency-not-first");
    }
    if recursive_self {
        out.push("self-recursive");
    }
    if refers_to_primary || (deps.iter().any(|d| g.dependencies(d).map(|dd| dd.contains(d)).unwrap_or(false)) && !recursive_self) {
        out.push("mutually-recursive");
    }
    if g.dependencies(&m.primary).map(|d| d.len() >= 3).unwrap_or(false) {
        out.push("deps>=3");
    }
    fn scan(t: &Ty, out: &mut Vec<&'static str>) {
        if t.array_dims() >= 2 {
            out.push("multi-dimensional-array");
        }
        if t.is_array() {
            out.push("array");
        }
    }
    for s in &reach {
        if let Some(d) = g.get(s) {
            for (_, t) in &d.members {
                scan(t, &mut out);
            }
        }
    }
    fn scan_val(v: &Val, out: &mut Vec<&'static str>, depth: u32) {
        match v {
            Val::Int { neg: true, .. } => out.push("negative-int"),
            Val::Bytes(b) if !b.is_empty() && b.len() < 32 => out.push("short-bytes"),
            Val::Struct(f) => {
                if depth >= 3 {
                    out.push("depth>=3");
                }
                f.iter().for_each(|(_, x)| scan_val(x, out, depth + 1))
            }
            Val::Array(a) => a.iter().for_each(|x| scan_val(x, out, depth)),
            _ => {}
        }
    }
    scan_val(&m.message, &mut out, 1);
    if m.primary == "EIP712Domain" {
        out.push("primary-is-domain");
    }
    out.sort();
    out.dedup();
    out
}

fn judge(c: &TdCase, cls: &mut Classifier) -> Verdict {
    let m = &c.model;
    let Some((ds, mh, digest)) = td::expected(m) else {
        return fail("conforming model", "reference cannot hash the model", "harness: generated model does not conform to its own types");
    };
    let docs = crate::engine::truncate(&c.doc, 900);
    let got = crate::isolate::inflight("typeddata", c.doc.as_bytes(), "generated", || {
        catch(|| serde_json::from_str::<TypedData>(&c.doc).map(|t| (t.domain_separator().0, t.message_hash().0, t.signing_message().0)).map_err(|e| e.to_string()))
    });
    let (gds, gmh, gdig) = match got {
        Ok(Ok(v)) => v,
        Ok(Err(e)) => {
            return fail("accepted", format!("Err({e})"), format!("well-typed document refused (primary {}, encodeType {:?}): {docs}", m.primary, m.graph.encode_type(&m.primary)))
        }
        Err(p) => return fail("accepted", p, format!("typed-data handling panicked: {docs}")),
    };
    // localisation through the hook: encodeType string of every struct of the graph
    let tj = types_json(&m.graph);
    for s in &m.graph.structs {
        let want = m.graph.encode_type(&s.name).expect("defined");
        match catch(|| verif_encode_type(&tj, &s.name).map_err(|e| e.to_string())) {
            Ok(Ok(g)) if g == want => {}
            Ok(other) => return fail(want, format!("{other:?}"), format!("encodeType({}) for types {}", s.name, crate::engine::truncate(&tj, 600))),
            Err(p) => return fail(want, p, format!("encodeType({}) panicked", s.name)),
        }
    }
    if gds != ds {
        return fail(hex_lower(&ds), hex_lower(&gds), format!("domain separator of {docs}"));
    }
    if gmh != mh {
        return fail(hex_lower(&mh), hex_lower(&gmh), format!("message hash (hashStruct of {}; encodeType {:?}) of {docs}", m.primary, m.graph.encode_type(&m.primary)));
    }
    if gdig != digest {
        return fail(hex_lower(&digest), hex_lower(&gdig), format!("signing digest keccak(0x1901 || domainSeparator || messageHash) of {docs}"));
    }
    let ls = labels(m);
    for l in &ls {
        cls.label(l);
    }
    if ls.contains(&"has-dependencies") || ls.contains(&"array") {
        cls.nontrivial(&c.doc);
        let class = ls.iter().find(|l| matches!(**l, "repeated-dependency-not-first" | "self-recursive" | "mutually-recursive" | "multi-dimensional-array")).copied().unwrap_or("plain");
        cls.sample(class, || json!({"primary": m.primary, "encodeType": m.graph.encode_type(&m.primary), "doc": crate::engine::truncate(&c.doc, 1200), "digest": hex_lower(&digest)}));
    }
    Ok(())
}

/// The same documents through the executable: `hash typeddata` (signing digest), `hash typeddata --message-hash`
/// (hashStruct of the message) and `sign typeddata` (a signature over exactly that digest by the reference key).
fn judge_cli(c: &TdCase, cls: &mut Classifier) -> Verdict {
    use crate::cli::Invocation;
    let m = &c.model;
    let Some((_, mh, digest)) = td::expected(m) else {
        return fail("conforming model", "reference cannot hash the model", "harness: generated model does not conform to its own types");
    };
    let root = crate::cli::global_root();
    let file = crate::cli::temp_file(&root, c.doc.as_bytes());
    let f = file.to_string_lossy().to_string();
    let pick = crate::engine::stable_hash(&c.doc);
    let phrase = crate::refimpl::bip39::encode_phrase(&[0x5au8; 16]);
    let mut runs: Vec<(Invocation, String, &str)> = vec![];
    let hash_inv = if pick % 2 == 0 { Invocation::new(&["hash", "typeddata", &f]) } else { Invocation::new(&["hash", "typeddata", "-"]).stdin(c.doc.as_bytes()) };
    runs.push((hash_inv, format!("0x{}\n", hex_lower(&digest)), "signing digest"));
    let mh_inv = if pick % 4 < 2 { Invocation::new(&["hash", "typeddata", "--message-hash", "-"]).stdin(c.doc.as_bytes()) } else { Invocation::new(&["hash", "typeddata", &f, "-m"]) };
    runs.push((mh_inv, format!("0x{}\n", hex_lower(&mh)), "message hash"));
    if pick % 5 == 0 {
        static KEY: std::sync::OnceLock<[u8; 32]> = std::sync::OnceLock::new();
        let key = KEY.get_or_init(|| {
            let seed = crate::refimpl::bip39::seed_from_normalised(&crate::refimpl::bip39::encode_phrase(&[0x5au8; 16]), "");
            crate::refimpl::bip32::derive(&seed, &crate::refimpl::bip32::default_path(0)).expect("reference key")
        });
        // C08 only asks that what is signed is the digest: the printed signature must recover the reference
        // key's public point from exactly this digest (which nonce was used is C05's subject)
        let inv = Invocation::new(&["sign", "--mnemonic", &phrase, "typeddata", &f]);
        if let Some(out) = crate::cli::run_global(&inv) {
            if out.timed_out {
                cls.label("cli-timed-out");
            } else {
                let text = out.stdout_str();
                let bytes = text.strip_suffix('\n').and_then(|l| l.strip_prefix("0x")).and_then(crate::refimpl::unhex).filter(|b| b.len() == 65 && (b[64] == 27 || b[64] == 28));
                let recovered = bytes.as_ref().and_then(|b| {
                    let r: [u8; 32] = b[..32].try_into().unwrap();
                    let s: [u8; 32] = b[32..64].try_into().unwrap();
                    crate::refimpl::secp::ecdsa_recover(&digest, &r, &s, b[64] == 28)
                });
                let public = crate::refimpl::secp::mul_g(key);
                if !out.ok() || recovered.is_none() || recovered.map(|p| crate::refimpl::secp::uncompressed(&p)) != public.map(|p| crate::refimpl::secp::uncompressed(&p)) {
                    let _ = std::fs::remove_file(&file);
                    return fail(
                        format!("a 65-byte signature that recovers the key of m/44'/60'/0'/0/0 from digest 0x{}", hex_lower(&digest)),
                        out.describe(),
                        format!("`hdwallet {}`: what is signed must be the EIP-712 signing digest of {}", inv.args.join(" "), crate::engine::truncate(&c.doc, 900)),
                    );
                }
                cls.label("cli-signature-recovers");
            }
        }
    }
    let mut verdict = Ok(());
    for (inv, want, what) in runs {
        let Some(out) = crate::cli::run_global(&inv) else {
            verdict = fail("cli", "not configured", "CLI not available");
            break;
        };
        if out.timed_out {
            cls.label("cli-timed-out");
            break;
        }
        if !out.ok() || !out.stdout_str().eq_ignore_ascii_case(&want) {
            verdict = fail(want, out.describe(), format!("`hdwallet {}`: {what} of {}", inv.args.join(" "), crate::engine::truncate(&c.doc, 900)));
            break;
        }
    }
    let _ = std::fs::remove_file(file);
    verdict?;
    cls.label("cli-sample");
    cls.nontrivial(&(c.doc.as_str(), "cli"));
    Ok(())
}

/// A document, then relatives of it - the same types with a freshly generated message, the same types and
/// message under another domain, the same struct NAMES with the members of one struct reversed or one member
/// renamed (another encodeType under an old name) - and the first one again, hashed one after the other on one
/// thread, each against its own reference: nothing computed for one document may leak into the next.
#[derive(Clone, Debug, Serialize, Deserialize)]
pub struct HistCase {
    pub steps: Vec<TdCase>,
    pub changes: Vec<String>,
}

fn gen_history(tape: Vec<u8>) -> HistCase {
    use crate::gen::td::{gen_domain, render_doc, ValGen};
    use crate::refimpl::eip712::{Ty, Val};
    let mut u = U::new(&tape);
    let first = td::gen_model(&mut u, 3, 60);
    let render = |m: &TdModel, u: &mut U| {
        let style = u.u64();
        TdCase { doc: render_doc(m, u).render_styled(style), model: m.clone() }
    };
    let mut steps = vec![render(&first, &mut u)];
    let mut changes = vec!["original".to_string()];
    for _ in 0..2 + u.below(3) {
        let mut m = first.clone();
        let what = match u.below(4) {
            0 if m.primary != "EIP712Domain" => {
                let g = m.graph.clone();
                let mut vg = ValGen { graph: &g, nodes: 0, node_limit: 60 };
                m.message = vg.val(&mut u, &Ty::Struct(m.primary.clone()), 3);
                "same-types-fresh-message"
            }
            1 if m.primary != "EIP712Domain" => {
                let (ddef, dval) = gen_domain(&mut u);
                m.graph.structs.retain(|s| s.name != "EIP712Domain");
                m.graph.structs.push(ddef);
                m.domain = dval;
                "other-domain"
            }
            2 => {
                // members of one struct reversed: same names, another encodeType (values are looked up by name)
                let cands: Vec<usize> = (0..m.graph.structs.len()).filter(|i| m.graph.structs[*i].name != "EIP712Domain" && m.graph.structs[*i].members.len() >= 2).collect();
                if cands.is_empty() {
                    continue;
                }
                let i = cands[u.below(cands.len())];
                m.graph.structs[i].members.reverse();
                "members-reversed"
            }
            _ => {
                // one member renamed, in the declaration and in every value of that struct
                let cands: Vec<usize> = (0..m.graph.structs.len()).filter(|i| m.graph.structs[*i].name != "EIP712Domain" && !m.graph.structs[*i].members.is_empty()).collect();
                if cands.is_empty() {
                    continue;
                }
                let i = cands[u.below(cands.len())];
                let sname = m.graph.structs[i].name.clone();
                let k = u.below(m.graph.structs[i].members.len());
                let old = m.graph.structs[i].members[k].0.clone();
                let new = format!("{old}_r");
                if m.graph.structs[i].members.iter().any(|(n, _)| *n == new) {
                    continue;
                }
                m.graph.structs[i].members[k].0 = new.clone();
                fn rename(g: &crate::refimpl::eip712::TypeGraph, ty: &Ty, v: &mut Val, sname: &str, old: &str, new: &str) {
                    match (ty, v) {
                        (Ty::Struct(n), Val::Struct(fields)) => {
                            // walk with the NEW graph: member types are looked up by the (possibly new) name
                            if n == sname {
                                for (fname, _) in fields.iter_mut() {
                                    if fname == old {
                                        *fname = new.to_string();
                                    }
                                }
                            }
                            if let Some(def) = g.get(n) {
                                for (fname, fv) in fields.iter_mut() {
                                    if let Some((_, mt)) = def.members.iter().find(|(mn, _)| mn == fname) {
                                        rename(g, mt, fv, sname, old, new);
                                    }
                                }
                            }
                        }
                        (Ty::Array(e, _), Val::Array(items)) => {
                            for it in items.iter_mut() {
                                rename(g, e, it, sname, old, new);
                            }
                        }
                        _ => {}
                    }
                }
                let g = m.graph.clone();
                let primary = m.primary.clone();
                rename(&g, &Ty::Struct(primary), &mut m.message, &sname, &old, &new);
                "member-renamed"
            }
        };
        if td::expected(&m).is_none() {
            continue; // the relative does not conform to its own types (cannot happen by construction; skipped if it does)
        }
        steps.push(render(&m, &mut u));
        changes.push(what.to_string());
    }
    steps.push(render(&first, &mut u));
    changes.push("original again".into());
    HistCase { steps, changes }
}

fn judge_history(c: &HistCase, cls: &mut Classifier) -> Verdict {
    let mut scratch = Classifier::default();
    // prelude (result ignored): replaces whatever a single-slot memo holds from an earlier case on this thread
    let _ = catch(|| {
        serde_json::from_str::<TypedData>(r#"{"types":{"EIP712Domain":[{"name":"name","type":"string"}],"Prelude":[{"name":"p","type":"uint8"}]},"primaryType":"Prelude","domain":{"name":"prelude"},"message":{"p":1}}"#)
            .map(|t| t.signing_message().0)
            .is_ok()
    });
    for (i, s) in c.steps.iter().enumerate() {
        judge(s, &mut scratch).map_err(|mut e| {
            e.note = format!("step {i} ({}) of the history {:?}, hashed one after the other on one thread: {}", c.changes.get(i).map(String::as_str).unwrap_or("?"), c.changes, e.note);
            e
        })?;
    }
    for ch in &c.changes {
        cls.label(&format!("history/{ch}"));
    }
    if c.steps.len() >= 3 {
        cls.label("history");
        cls.nontrivial(&c.steps.iter().map(|s| s.doc.as_str()).collect::<Vec<_>>());
    }
    Ok(())
}

pub fn gen_case(tape: Vec<u8>) -> TdCase {
    td::gen_case(&mut U::new(&tape))
}

// ---------------------------------------------------------------- integer values written as large number literals

/// A uint256/int256/uint128 member (or the domain's chainId) whose value is a bare JSON number literal denoting an
/// integer of 2^53 or more: plain digits beyond 2^64-1, or mantissa-and-exponent forms. The property gives such a
/// document one meaning - the integer written; a reader may refuse the literal, but if it accepts it the digests
/// are those of exactly that integer (a reader that goes through binary64 hashes another integer for most of them).
#[derive(Clone, Debug, Serialize, Deserialize)]
pub struct LiteralCase {
    pub literal: String,
    pub value_dec: String,
    pub slot: String,
}

fn gen_literal(tape: Vec<u8>) -> LiteralCase {
    use crate::refimpl::u256::Big;
    let mut u = U::new(&tape);
    let slot = ["message.a:uint256", "message.b:int256", "message.c:uint128", "domain.chainId"][u.below(4)];
    let max_bits = match slot {
        "message.b:int256" => 255,
        "message.c:uint128" => 128,
        _ => 256,
    };
    for _ in 0..40 {
        let nd = 1 + u.below(22);
        let mut m: String = (0..nd).map(|i| (b'0' + if i == 0 { 1 + u.below(9) as u8 } else { u.below(10) as u8 }) as char).collect();
        if u.ratio(1, 4) {
            m = ["1", "12", "25", "123456789", "18446744073709551617", "9007199254740993", "340282366920938463463374607431768211455"][u.below(7)].to_string();
        }
        let e = if m.len() > 16 && u.ratio(1, 3) { 0 } else { u.below(62) };
        let dec = format!("{m}{}", "0".repeat(e));
        let Some(x) = Big::from_dec(&dec) else { continue };
        if x.bit_len() <= 53 || x.bit_len() > max_bits {
            continue;
        }
        let literal = match u.below(6) {
            0 => dec.clone(),
            1 => format!("{m}e{e}"),
            2 => format!("{m}E+{e}"),
            3 if m.len() > 1 => format!("{}.{}e{}", &m[..1], &m[1..], e + m.len() - 1),
            4 => format!("{dec}.0"),
            _ => format!("{m}e+{e}"),
        };
        return LiteralCase { literal, value_dec: dec, slot: slot.to_string() };
    }
    // the tape ran out before a value of 2^53 or more came up
    LiteralCase { literal: "1e23".into(), value_dec: format!("1{}", "0".repeat(23)), slot: slot.to_string() }
}

fn judge_literal(c: &LiteralCase, cls: &mut Classifier) -> Verdict {
    use crate::refimpl::u256::Big;
    let Some(x) = Big::from_dec(&c.value_dec) else { return fail("decimal value", c.value_dec.clone(), "bad replay case") };
    let lit = |slot: &str, other: &str| if c.slot == slot { c.literal.clone() } else { other.to_string() };
    let val = |slot: &str, other: u128| if c.slot == slot { x.clone() } else { Big::from_u128(other) };
    let doc = format!(
        r#"{{"types":{{"EIP712Domain":[{{"name":"name","type":"string"}},{{"name":"chainId","type":"uint256"}}],"Amounts":[{{"name":"a","type":"uint256"}},{{"name":"b","type":"int256"}},{{"name":"c","type":"uint128"}}]}},"primaryType":"Amounts","domain":{{"name":"literals","chainId":{}}},"message":{{"a":{},"b":{},"c":{}}}}}"#,
        lit("domain.chainId", "1"),
        lit("message.a:uint256", "2"),
        lit("message.b:int256", "3"),
        lit("message.c:uint128", "4")
    );
    let model = TdModel {
        graph: TypeGraph {
            structs: vec![
                crate::refimpl::eip712::StructDef { name: "EIP712Domain".into(), members: vec![("name".into(), Ty::String), ("chainId".into(), Ty::Uint(256))] },
                crate::refimpl::eip712::StructDef { name: "Amounts".into(), members: vec![("a".into(), Ty::Uint(256)), ("b".into(), Ty::Int(256)), ("c".into(), Ty::Uint(128))] },
            ],
        },
        primary: "Amounts".into(),
        message: Val::Struct(vec![("a".into(), Val::Uint(val("message.a:uint256", 2))), ("b".into(), Val::Int { neg: false, mag: val("message.b:int256", 3) }), ("c".into(), Val::Uint(val("message.c:uint128", 4)))]),
        domain: Val::Struct(vec![("name".into(), Val::Str("literals".into())), ("chainId".into(), Val::Uint(val("domain.chainId", 1)))]),
    };
    let Some((ds, mh, digest)) = td::expected(&model) else { return fail("conforming model", "reference cannot hash the model", "harness: literal model") };
    let got = catch(|| serde_json::from_str::<TypedData>(&doc).map(|t| (t.domain_separator().0, t.message_hash().0, t.signing_message().0)).map_err(|e| e.to_string()));
    match got {
        Err(p) => return fail("digests or an error", p, format!("typed-data handling panicked: {doc}")),
        Ok(Err(_)) => cls.label("literal-refused"),
        Ok(Ok((gds, gmh, gdig))) => {
            cls.label("literal-accepted");
            if (gds, gmh, gdig) != (ds, mh, digest) {
                return fail(
                    format!("refused, or the digests of the integer written ({}): domain separator {} message hash {} digest {}", c.value_dec, hex_lower(&ds), hex_lower(&mh), hex_lower(&digest)),
                    format!("domain separator {} message hash {} digest {}", hex_lower(&gds), hex_lower(&gmh), hex_lower(&gdig)),
                    format!("{} written as the number literal {} in {doc}", c.slot, c.literal),
                );
            }
        }
    }
    let exact_in_binary64 = {
        // the integer survives a trip through binary64 iff its odd part has at most 53 bits
        let mut y = x.clone();
        while !y.is_zero() && y.divrem_small(2).1 == 0 {
            y = y.divrem_small(2).0;
        }
        y.bit_len() <= 53
    };
    cls.label(if exact_in_binary64 { "literal-exact-in-binary64" } else { "literal-not-representable-in-binary64" });
    cls.label(if c.literal.contains(['e', 'E', '.']) { "literal-exponent-or-point" } else { "literal-plain-digits" });
    cls.nontrivial(&(c.literal.as_str(), c.slot.as_str()));
    cls.sample("big-literals", || json!({"slot": c.slot, "literal": c.literal, "value": c.value_dec}));
    Ok(())
}

// ---------------------------------------------------------------- grammar sweep (hook)

#[derive(Clone, Debug, Serialize, Deserialize)]
pub struct TypeString {
    pub s: String,
}

fn judge_type_string(c: &TypeString, cls: &mut Classifier) -> Verdict {
    match catch(|| verif_member_type_image(&c.s)) {
        Ok((printed, debug)) => {
            if printed != c.s {
                return fail(c.s.clone(), printed, format!("member type parsed and printed back (parsed as {debug})"));
            }
            // an atom followed by array suffixes must not be taken for a struct reference
            let base = c.s.split('[').next().unwrap_or("");
            let is_atom = td::all_atoms().iter().any(|a| a.name() == base);
            let canonical = c.s.split('[').skip(1).all(|p| p == "]" || (p.ends_with(']') && p[..p.len() - 1].parse::<u64>().map(|n| n.to_string() == p[..p.len() - 1]).unwrap_or(false)));
            if is_atom && canonical && debug.contains("Struct(") {
                return fail("atomic or array of atomic", debug, format!("type string {:?} was taken for a struct reference", c.s));
            }
            let dims = c.s.matches('[').count();
            let canonical_suffixes = c.s.split('[').skip(1).all(|p| p == "]" || (p.ends_with(']') && p[..p.len() - 1].parse::<u64>().map(|n| n.to_string() == p[..p.len() - 1]).unwrap_or(false)));
            if canonical_suffixes && debug.matches("Array(").count() != dims {
                return fail(format!("{dims} array levels"), debug, format!("array structure of type string {:?}", c.s));
            }
        }
        Err(p) => return fail(c.s.clone(), p, "member type parsing panicked"),
    }
    cls.label("type-string");
    cls.nontrivial(&c.s);
    Ok(())
}

pub fn run(ctx: &mut Ctx) {
    ctx.rule = "a type graph (1..6 structs, names chosen to stress ordering and the type grammar, 0..6 members - one graph in eight has a wide struct of 7..65 members with the counts 15/16/17, 31/32/33, 63/64/65 over-represented -, member types atomic | struct reference | array up to 3 dimensions fixed 0..3 or dynamic; cycles only through dynamic/empty arrays; shared, repeated, diamond, self- and mutually-recursive references) and a conforming value tree generated together from a byte tape; integers at range boundaries in every accepted spelling; one of the 31 well-formed domains; any struct (occasionally EIP712Domain) as primaryType; JSON keys shuffled. Oracle: EIP-712 reference computed from the AST (dependency set = reachable minus primary, name order, once each); domain separator, message hash and signing digest must match; with the hook, encodeType of every struct must equal the reference string and the parse/print image of {100 atoms} x {suffix lists up to length 3 over [],[0],[1],[2],[10]} must be the identity (15600 strings, exhaustive). Histories: a document, 2-4 relatives (same types with a fresh message, another domain, the members of one struct reversed, one member renamed - old struct names with new definitions) and the first one again, hashed one after the other on one thread. CLI sample: the same generator through `hdwallet hash typeddata` (file/stdin), `--message-hash`/`-m` and (one in five) `sign typeddata` must print the reference digest / message hash / RFC 6979 signature of the reference key. Big literals: a uint256/int256/uint128 member or the domain's chainId written as a bare JSON number literal denoting an integer of 2^53 or more (plain digits beyond 2^64-1, mantissa-and-exponent and .0 forms): refused, or hashed as exactly the integer written. Non-trivial: primary type reaches another struct or contains an array; distinct by document.".into();
    ctx.assumptions = vec!["sha3 Keccak".into(), "struct and member names are ASCII identifiers (sort orders agree)".into()];
    ctx.replay_known_and_regressions(&replay);
    let n = ctx.tier.pick(60_000, 1_000_000);
    ctx.run_prop("digest", n, || crate::gen::tape(1500).prop_map(gen_case), judge);

    let suffixes = ["[]", "[0]", "[1]", "[2]", "[10]"];
    let mut lists: Vec<String> = vec![String::new()];
    let mut frontier = vec![String::new()];
    for _ in 0..3 {
        let mut next = vec![];
        for f in &frontier {
            for s in suffixes {
                next.push(format!("{f}{s}"));
            }
        }
        lists.extend(next.iter().cloned());
        frontier = next;
    }
    let mut strings = vec![];
    for a in td::all_atoms() {
        for l in &lists {
            strings.push(TypeString { s: format!("{}{l}", a.name()) });
        }
    }
    for name in td::STRUCT_NAMES {
        for l in &lists[..6] {
            strings.push(TypeString { s: format!("{name}{l}") });
        }
    }
    // non-canonical spellings of sizes must NOT be taken for the canonical type (they are struct names at
    // best): the parse/print image must still be the identity
    for s in [
        "uint0256", "uint08", "int0256", "int008", "bytes032", "bytes01", "bytes00032", "uint+8", "uint 8", "uint8 ", "uint256[02]", "uint256[+2]", "uint256[ 2]",
        "uint256[2 ]", "bool[00]", "Foo[01]", "Foo[+1]", "bytes32[0x2]", "uint", "int", "byte", "uint256[-1]", "uint256[1][02]", "uint0", "uint00",
        "bytes0", "bytes33", "uint264", "uint7", "int12", "UINT256", "Bytes32", "String", "address[+0]",
    ] {
        strings.push(TypeString { s: s.to_string() });
    }
    ctx.run_cases("type-strings", &strings, judge_type_string);
    let nh = ctx.tier.pick(6000, 100_000);
    ctx.run_prop("history", nh, || crate::gen::tape(2500).prop_map(gen_history), judge_history);
    let nl = ctx.tier.pick(6000, 120_000);
    ctx.run_prop("big-literals", nl, || crate::gen::tape(400).prop_map(gen_literal), judge_literal);
    ctx.floor("literal-not-representable-in-binary64", nl as u64, 0.3);
    ctx.floor("literal-exponent-or-point", nl as u64, 0.3);
    for ch in ["same-types-fresh-message", "other-domain", "members-reversed", "member-renamed"] {
        ctx.floor(&format!("history/{ch}"), nh as u64, 0.1);
    }
    if crate::cli::global_cli().is_some() {
        ctx.shrink_iters = 150;
        ctx.run_prop("cli", ctx.tier.pick(600, 20_000), || crate::gen::tape(1500).prop_map(gen_case), judge_cli);
        // strings that look like the syntax of a pre-processor a command might put in front of the JSON parser
        // (comments, line continuations, templates): a string ending in a backslash, then strings holding //,
        // /* */, #, ${..}, {{..}}, %s
        use crate::refimpl::eip712::{StructDef, Ty, TypeGraph, Val};
        let firsts = ["a\\", "\\", "C:\\dir\\", "x\\\\", "quote\"", "plain"];
        let seconds = ["https://example.org/a", "//", "a//b", "/* c */", "# not a comment", "${HOME}", "{{name}}", "%s %d", "-- sql", "<!-- x -->", "\\u0041"];
        let mut fixed = vec![];
        for (i, a) in firsts.iter().enumerate() {
            for (j, b) in seconds.iter().enumerate() {
                let graph = TypeGraph {
                    structs: vec![
                        StructDef { name: "Note".into(), members: vec![("first".into(), Ty::String), ("second".into(), Ty::String), ("third".into(), Ty::String)] },
                        StructDef { name: "EIP712Domain".into(), members: vec![("name".into(), Ty::String)] },
                    ],
                };
                let model = TdModel {
                    graph,
                    primary: "Note".into(),
                    message: Val::Struct(vec![("first".into(), Val::Str(a.to_string())), ("second".into(), Val::Str(b.to_string())), ("third".into(), Val::Str(format!("{b} {a}")))]),
                    domain: Val::Struct(vec![("name".into(), Val::Str(b.to_string()))]),
                };
                // member order kept (first before second) and plain rendering: the text is what matters here
                let doc = format!(
                    "{{\"types\":{{\"EIP712Domain\":[{{\"name\":\"name\",\"type\":\"string\"}}],\"Note\":[{{\"name\":\"first\",\"type\":\"string\"}},{{\"name\":\"second\",\"type\":\"string\"}},{{\"name\":\"third\",\"type\":\"string\"}}]}},\"primaryType\":\"Note\",\"domain\":{{\"name\":{}}},\"message\":{{\"first\":{},\"second\":{},\"third\":{}}}}}",
                    serde_json::to_string(b).unwrap(),
                    serde_json::to_string(a).unwrap(),
                    serde_json::to_string(b).unwrap(),
                    serde_json::to_string(&format!("{b} {a}")).unwrap()
                );
                let _ = (i, j);
                fixed.push(TdCase { doc, model });
            }
        }
        ctx.run_cases("cli", &fixed, judge_cli);
        if ctx.cls.count("cli-timed-out") > 0 {
            ctx.inconclusive("CLI watchdog expired");
        }
        ctx.floor_abs("cli-sample", ctx.tier.pick(500, 15_000));
    } else {
        ctx.inconclusive("CLI executable not available for the CLI sample");
    }
    ctx.exhaustive_parts.push("member type grammar: 100 atoms x all suffix lists of length <= 3 over 5 suffixes".into());

    crate::fuzz::run_for(ctx);
    let total = n as u64;
    ctx.floor("shared-dependency", total, 0.10);
    ctx.floor("repeated-dependency-not-first", total, 0.05);
    ctx.floor("self-recursive", total, 0.05);
    ctx.floor("mutually-recursive", total, 0.05);
    ctx.floor("multi-dimensional-array", total, 0.10);
    ctx.floor("negative-int", total, 0.05);
    ctx.floor("short-bytes", total, 0.10);
    ctx.floor("depth>=3", total, 0.05);
    ctx.floor("hashed-struct-with-16-members", total, 0.003);
    ctx.floor("hashed-struct-with-31..33-members", total, 0.005);
}

pub fn replay(sub: &str, case: &Value) -> Option<Verdict> {
    match sub {
        "digest" => Some(replay_as::<TdCase>(case, judge)),
        "type-strings" => Some(replay_as::<TypeString>(case, judge_type_string)),
        "cli" => Some(replay_as::<TdCase>(case, judge_cli)),
        "history" => Some(replay_as::<HistCase>(case, judge_history)),
        "big-literals" => Some(replay_as::<LiteralCase>(case, judge_literal)),
        _ => None,
    }
}
