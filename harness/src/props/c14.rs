//! C14 — HD path text is unambiguous: standard indices only, canonical round trip.
//!
//! Sub-checks (all share one oracle, `judge_path_text`, which decides what is
//! expected from the *text alone* with an own scanner for the canonical
//! grammar `m(/<decimal below 2^31>['])+`):
//!   paths     rendered from a component model (values at the 2^31 / 2^32 / 2^64 boundaries)
//!   boundary  enumerated: boundary value x hardened flag x position x depth 1..=6
//!   fixed     the hand-written malformed strings
//!   embedded  a malformed token placed at a random position of an otherwise valid path
//!   mutated   1..3 random character edits of a valid path
//!   spelling  leading '+' / leading zeros (unspecified when the value is in range)
//!   index     Path::for_index(i), in-process
//!   cli       `address --hd-path P` / `--account-index i` through the executable

use super::c03::{gen_index, gen_seed};
use crate::cli::{self, Invocation};
use crate::engine::{catch, fail, replay_as, truncate, Classifier, Ctx, Prng, Verdict};
use crate::gen::U;
use crate::refimpl::bip32::{self, Step};
use crate::refimpl::{address_of, bip39, dec, eip55, hex_lower, secp, unhex};
use hdwallet::hdk;
use proptest::prelude::*;
use serde::{Deserialize, Serialize};
use serde_json::{json, Value};
use std::path::PathBuf;
use std::sync::OnceLock;
use std::time::Duration;

/// First value that is not a standard BIP-32 index in path text.
const LIMIT: u128 = 1 << 31;
const DEFAULT_ZERO: &str = "m/44'/60'/0'/0/0";

static CLI: OnceLock<PathBuf> = OnceLock::new();

fn cli_path() -> Option<PathBuf> {
    CLI.get().cloned().or_else(|| std::env::var_os("HDV_CLI").map(PathBuf::from))
}

// ---------------------------------------------------------------- reference grammar

#[derive(Clone, Debug, PartialEq, Eq)]
struct CompInfo {
    /// decimal value, saturating at u128::MAX
    value: u128,
    hardened: bool,
    /// spelled with a leading '+'
    plus: bool,
    /// spelled with leading zeros
    zeros: bool,
}

#[derive(Clone, Debug, PartialEq, Eq)]
enum Shape {
    /// does not start with "m/" (and is not the bare "m")
    NoRoot,
    /// exactly "m"
    BareRoot,
    /// "m/" followed by components separated by '/'; `None` = the component is
    /// not `[+]digits[']`
    Comps(Vec<Option<CompInfo>>),
}

/// true iff the property obliges the tool to refuse this path text (texts it leaves open - a bare m, '+', leading
/// zeros - may legitimately be accepted and searched)
pub fn text_must_be_refused(text: &str) -> bool {
    matches!(expectation(&analyse(text)), Expect::MustErr(..))
}

/// Byte-level scanner (deliberately not built from strip_prefix/split, which
/// is what the code under test uses).
fn analyse(text: &str) -> Shape {
    let b = text.as_bytes();
    if b.first() != Some(&b'm') {
        return Shape::NoRoot;
    }
    if b.len() == 1 {
        return Shape::BareRoot;
    }
    if b[1] != b'/' {
        return Shape::NoRoot;
    }
    let mut comps = vec![];
    let mut start = 2;
    loop {
        let mut end = start;
        while end < b.len() && b[end] != b'/' {
            end += 1;
        }
        comps.push(analyse_component(&b[start..end]));
        if end == b.len() {
            break;
        }
        start = end + 1; // an empty tail after the last '/' is an (empty) component
    }
    Shape::Comps(comps)
}

fn analyse_component(s: &[u8]) -> Option<CompInfo> {
    let mut i = 0;
    let mut n = s.len();
    let hardened = n > 0 && s[n - 1] == b'\'';
    if hardened {
        n -= 1;
    }
    let plus = i < n && s[i] == b'+';
    if plus {
        i += 1;
    }
    if i >= n {
        return None;
    }
    let mut value: u128 = 0;
    for &c in &s[i..n] {
        if !c.is_ascii_digit() {
            return None;
        }
        value = value.saturating_mul(10).saturating_add((c - b'0') as u128);
    }
    Some(CompInfo { value, hardened, plus, zeros: n - i > 1 && s[i] == b'0' })
}

enum Expect {
    /// canonical text of standard indices: must be accepted
    Valid(Vec<Step>),
    /// must be refused with an error; (class label, human reason)
    MustErr(&'static str, String),
    /// the property does not decide
    Unspecified(&'static str),
}

fn expectation(shape: &Shape) -> Expect {
    match shape {
        Shape::NoRoot => Expect::MustErr("missing-root", "the text does not start with the root \"m/\"".into()),
        Shape::BareRoot => Expect::Unspecified("bare-root-m"),
        Shape::Comps(comps) => {
            for (i, c) in comps.iter().enumerate() {
                if c.is_none() {
                    return Expect::MustErr(
                        "malformed-component",
                        format!("component #{i} is not a decimal number with an optional trailing apostrophe"),
                    );
                }
            }
            for (i, c) in comps.iter().enumerate() {
                let c = c.as_ref().unwrap();
                if c.value >= LIMIT {
                    return Expect::MustErr("out-of-range", format!("component #{i} is 2^31 or more"));
                }
            }
            if comps.iter().flatten().any(|c| c.plus) {
                return Expect::Unspecified("leading-plus");
            }
            if comps.iter().flatten().any(|c| c.zeros) {
                return Expect::Unspecified("leading-zeros");
            }
            Expect::Valid(comps.iter().flatten().map(|c| Step { index: c.value as u32, hardened: c.hardened }).collect())
        }
    }
}

// ---------------------------------------------------------------- observation of the code under test

type Key = Result<[u8; 32], String>;

enum Seen {
    Rejected(String),
    Accepted {
        printed: String,
        key: Key,
        /// parse of the printed form: (its printed form, its key)
        reparsed: Result<(String, Key), String>,
        /// Display of each item of Path::components()
        components: Vec<String>,
    },
}

fn observe(text: &str, seed: &[u8]) -> Result<Seen, String> {
    catch(|| match text.parse::<hdk::Path>() {
        Err(e) => Seen::Rejected(format!("{e:#}")),
        Ok(p) => {
            let printed = p.to_string();
            let key = hdk::derive(seed, &p).map(|k| k.secret()).map_err(|e| format!("{e:#}"));
            let reparsed = printed.parse::<hdk::Path>().map_err(|e| format!("{e:#}")).map(|p2| {
                (p2.to_string(), hdk::derive(seed, &p2).map(|k| k.secret()).map_err(|e| format!("{e:#}")))
            });
            let components = p.components().map(|c| c.to_string()).collect();
            Seen::Accepted { printed, key, reparsed, components }
        }
    })
}

fn show_key(k: &Key) -> String {
    match k {
        Ok(k) => hex_lower(k),
        Err(e) => format!("Err({e})"),
    }
}

/// The oracle. `origin` prefixes the class labels. Usable by a fuzz target.
pub fn judge_path_text(text: &str, seed: &[u8], origin: &str, cls: &mut Classifier) -> Verdict {
    let shape = analyse(text);
    let expect = expectation(&shape);
    let shown = truncate(&format!("{text:?}"), 300);
    let seen = match observe(text, seed) {
        Ok(s) => s,
        Err(p) => return fail("accepted or an error", p, format!("parsing/printing/deriving panicked for path text {shown}")),
    };
    match expect {
        Expect::MustErr(class, why) => {
            if let Seen::Accepted { printed, key, .. } = &seen {
                return fail(
                    format!("Err ({why})"),
                    format!("accepted; prints {printed:?}; derives {}", show_key(key)),
                    format!("non-standard path text {shown} is accepted: {why}"),
                );
            }
            cls.label(&format!("{origin}:rejected"));
            cls.label(&format!("{origin}:rejected:{class}"));
            if class == "out-of-range" {
                if let Shape::Comps(comps) = &shape {
                    let comps: Vec<&CompInfo> = comps.iter().flatten().collect();
                    let bad: Vec<usize> = (0..comps.len()).filter(|i| comps[*i].value >= LIMIT).collect();
                    for (l, hit) in [
                        ("oor:=2^31", bad.iter().any(|i| comps[*i].value == LIMIT)),
                        ("oor:alias[2^31,2^32)", bad.iter().any(|i| comps[*i].value < 1 << 32)),
                        ("oor:wrap32[2^32,2^64)", bad.iter().any(|i| comps[*i].value >= 1 << 32 && comps[*i].value < 1 << 64)),
                        ("oor:>=2^64", bad.iter().any(|i| comps[*i].value >= 1 << 64)),
                        ("oor:hardened", bad.iter().any(|i| comps[*i].hardened)),
                        ("oor:normal", bad.iter().any(|i| !comps[*i].hardened)),
                        ("oor:only-hardened", bad.iter().all(|i| comps[*i].hardened)),
                        ("oor:only-normal", bad.iter().all(|i| !comps[*i].hardened)),
                        ("oor:not-first", bad.iter().all(|i| *i > 0)),
                        ("oor:only-last", bad == [comps.len() - 1] && comps.len() > 1),
                    ] {
                        if hit {
                            cls.label(&format!("{origin}:{l}"));
                        }
                    }
                }
            }
            cls.nontrivial(&("rejected", text));
            cls.sample(&format!("{origin}:rejected:{class}"), || json!({"text": text, "why": why}));
        }
        Expect::Unspecified(kind) => {
            cls.unspecified(kind);
            match &seen {
                Seen::Rejected(_) => cls.label(&format!("{origin}:unspecified:refused")),
                Seen::Accepted { printed, key, reparsed, .. } => {
                    // "every accepted path prints back in that canonical form": an accepted '+' / zero-padded
                    // spelling must print the canonical text of the numbers it was read as
                    if matches!(kind, "leading-plus" | "leading-zeros") {
                        if let Shape::Comps(comps) = analyse(text) {
                            let canonical = format!("m/{}", comps.iter().flatten().map(|c| format!("{}{}", c.value, if c.hardened { "'" } else { "" })).collect::<Vec<_>>().join("/"));
                            if *printed != canonical {
                                return fail(canonical, printed.clone(), format!("path text {shown} (spelling the property leaves open) is accepted, so it must print back in the canonical form m/i1/i2/..."));
                            }
                        }
                    }
                    // self-consistency: what it prints parses and selects the same key
                    match reparsed {
                        Ok((_, key2)) if key2.as_ref().ok() == key.as_ref().ok() && key2.is_ok() == key.is_ok() => {}
                        Ok((_, key2)) => {
                            return fail(
                                show_key(key),
                                show_key(key2),
                                format!("path text {shown} (spelling the property leaves open) is accepted and prints {printed:?}, but the printed text derives another key"),
                            )
                        }
                        Err(e) => {
                            return fail(
                                "the printed form parses",
                                format!("Err({e})"),
                                format!("path text {shown} (spelling the property leaves open) is accepted and prints {printed:?}, which is refused"),
                            )
                        }
                    }
                    cls.label(&format!("{origin}:unspecified:accepted"));
                }
            }
            cls.sample(&format!("{origin}:unspecified:{kind}"), || json!({"text": text, "accepted": matches!(seen, Seen::Accepted { .. })}));
        }
        Expect::Valid(steps) => {
            let (printed, key, reparsed) = match seen {
                Seen::Rejected(e) => {
                    return fail("accepted", format!("Err({e})"), format!("canonical path text {shown} with every index below 2^31 is refused"))
                }
                Seen::Accepted { printed, key, reparsed, components } => {
                    let want: Vec<String> = steps.iter().map(|s| format!("{}{}", s.index, if s.hardened { "'" } else { "" })).collect();
                    if components != want {
                        return fail(format!("{want:?}"), format!("{components:?}"), format!("Path::components() of the accepted canonical path {shown}"));
                    }
                    (printed, key, reparsed)
                }
            };
            assert_eq!(bip32::render(&steps), text, "harness: a text classified as canonical is the rendering of its steps");
            if printed != text {
                return fail(text, printed, "Display of an accepted canonical path must give the canonical text back");
            }
            let want = bip32::derive(seed, &steps);
            let seed_hex = hex_lower(seed);
            match (&want, &key) {
                (Ok(w), Ok(k)) if w == k => {}
                (Err(_), Err(_)) => cls.label(&format!("{origin}:bip32-invalid-step")),
                _ => {
                    return fail(
                        format!("{:?}", want.as_ref().map(|w| hex_lower(w))),
                        show_key(&key),
                        format!("key derived from seed {seed_hex} along the parsed path {shown} differs from BIP-32 for those indices (hardened flags included)"),
                    )
                }
            }
            match reparsed {
                Err(e) => return fail("the printed form parses", format!("Err({e})"), format!("printed form {printed:?} of accepted path {shown} is refused")),
                Ok((printed2, key2)) => {
                    if printed2 != printed {
                        return fail(printed, printed2, "printing the parse of the printed form");
                    }
                    if key2.as_ref().ok() != key.as_ref().ok() || key2.is_ok() != key.is_ok() {
                        return fail(show_key(&key), show_key(&key2), format!("the printed form {printed:?} derives another key than the path it was printed from (seed {seed_hex})"));
                    }
                }
            }
            cls.label(&format!("{origin}:accepted"));
            let any_h = steps.iter().any(|s| s.hardened);
            let any_n = steps.iter().any(|s| !s.hardened);
            cls.label(&format!(
                "{origin}:accepted:{}",
                match (any_h, any_n) {
                    (true, true) => "mixed",
                    (true, false) => "all-hardened",
                    _ => "all-normal",
                }
            ));
            if steps.iter().any(|s| s.index == 0x7fff_ffff && s.hardened) {
                cls.label(&format!("{origin}:accepted:2^31-1-hardened"));
            }
            if steps.iter().any(|s| s.index == 0x7fff_ffff && !s.hardened) {
                cls.label(&format!("{origin}:accepted:2^31-1-normal"));
            }
            if steps.len() >= 8 {
                cls.label(&format!("{origin}:accepted:depth>=8"));
            }
            if text != DEFAULT_ZERO {
                cls.nontrivial(&(seed_hex.as_str(), text));
                cls.sample(&format!("{origin}:accepted"), || json!({"seed": seed_hex, "text": text}));
            }
        }
    }
    Ok(())
}

// ---------------------------------------------------------------- case type of the text sub-checks

#[derive(Clone, Debug, Serialize, Deserialize, PartialEq, Eq)]
pub struct Comp {
    /// decimal digits exactly as rendered (any size; spelling variants included)
    pub value: String,
    pub hardened: bool,
}

#[derive(Clone, Debug, Serialize, Deserialize)]
pub struct TextCase {
    /// the exact text handed to `Path::from_str`
    pub text: String,
    pub seed_hex: String,
    /// producing sub-check (label prefix)
    pub origin: String,
    /// the component model the text was rendered from, when there is one
    #[serde(default)]
    pub model: Option<Vec<Comp>>,
    /// how the text was produced from the model / base (mutation log, token)
    #[serde(default)]
    pub how: String,
}

fn render_model(model: &[Comp]) -> String {
    let mut s = String::from("m");
    for c in model {
        s.push('/');
        s.push_str(&c.value);
        if c.hardened {
            s.push('\'');
        }
    }
    s
}

fn judge_text_case(c: &TextCase, cls: &mut Classifier) -> Verdict {
    let Some(seed) = unhex(&c.seed_hex) else { return fail("hex seed", c.seed_hex.clone(), "bad replay case") };
    if let Some(model) = &c.model {
        // the generator's model and the scanner must tell the same story (two derivations of the expectation)
        if render_model(model) != c.text {
            return fail(render_model(model), c.text.clone(), "bad replay case: text is not the rendering of the model");
        }
        match analyse(&c.text) {
            Shape::Comps(comps) => {
                assert_eq!(comps.len(), model.len(), "harness: scanner and model disagree on depth for {:?}", c.text);
                for (ci, m) in comps.iter().zip(model) {
                    let ci = ci.as_ref().unwrap_or_else(|| panic!("harness: model component {m:?} is not numeric"));
                    assert_eq!(ci.hardened, m.hardened, "harness: hardened flag of {m:?}");
                    let digits = m.value.trim_start_matches('+').trim_start_matches('0');
                    if digits.is_empty() {
                        assert_eq!(ci.value, 0, "harness: value of {m:?}");
                    } else if digits.len() <= 38 {
                        assert_eq!(ci.value, digits.parse::<u128>().expect("harness: model digits"), "harness: value of {m:?}");
                    } else {
                        assert!(ci.value >= 1 << 64, "harness: long digit string is large");
                    }
                }
            }
            other => panic!("harness: rendered model {:?} scanned as {other:?}", c.text),
        }
    }
    judge_path_text(&c.text, &seed, &c.origin, cls)
}

// ---------------------------------------------------------------- generators

fn gen_flags(u: &mut U, depth: usize) -> Vec<bool> {
    let style = u.below(6);
    (0..depth)
        .map(|i| match style {
            0 => false,
            1 => true,
            2 => i < depth / 2,
            3 => i >= depth / 2,
            _ => u.bool(),
        })
        .collect()
}

fn gen_valid_value(u: &mut U) -> u32 {
    match u.below(10) {
        0 => [0, 1, 44, 60][u.below(4)],
        1 => 0x7fff_ffff,
        2 => 0x7fff_fffe,
        _ => gen_index(u),
    }
}

/// decimal text of a value >= 2^31
fn gen_oor_value(u: &mut U) -> String {
    let p31: u128 = 1 << 31;
    let p32: u128 = 1 << 32;
    let p64: u128 = 1 << 64;
    let v: u128 = match u.below(20) {
        0 | 1 => p31,
        2 => p31 + 1,
        3 => p32 - 1,
        4 => p32,
        5 => p32 + 1,
        6 => 1 << 63,
        7 => p64,
        8 => p64 + 1,
        // 2^31 + k: the value a hardened k is serialised as
        9 | 10 => p31 + gen_valid_value(u) as u128,
        // k + 2^32, k + 2^64: wrap to a valid k in 32 / 64-bit arithmetic
        11 => p32 + gen_valid_value(u) as u128,
        12 => p64 + gen_valid_value(u) as u128,
        13 => p31 + (u.u32() as u128 & (p31 - 1)),
        // uniform 33-bit, forced out of range
        14 | 15 => {
            let x = u.u64() as u128 & ((1 << 33) - 1);
            if x < p31 {
                x + p31
            } else {
                x
            }
        }
        16 => (u.u64() as u128).max(p31),
        17 => ((u.u64() as u128) << 64) | u.u64() as u128 | p64,
        18 => return ["340282366920938463463374607431768211456", "115792089237316195423570985008687907853269984665640564039457584007913129639936", "10000000000000000000000000000000000000000"][u.below(3)].to_string(),
        _ => u64::MAX as u128 - u.below(2) as u128,
    };
    dec(v)
}

fn gen_valid_model(u: &mut U, max_depth: usize) -> Vec<Comp> {
    let depth = u.range(1, max_depth);
    let flags = gen_flags(u, depth);
    flags.into_iter().map(|hardened| Comp { value: dec(gen_valid_value(u) as u128), hardened }).collect()
}

/// Replaces 1..=3 components of a valid model with out-of-range values.
fn spoil(u: &mut U, model: &mut [Comp]) {
    let n = match u.below(10) {
        0..=6 => 1,
        7..=8 => 2,
        _ => 3,
    };
    for _ in 0..n {
        let i = match u.below(4) {
            0 => model.len() - 1,
            1 => 0,
            _ => u.below(model.len()),
        };
        model[i].value = gen_oor_value(u);
    }
}

fn gen_seed_hex(u: &mut U) -> String {
    hex_lower(&gen_seed(u))
}

fn gen_paths_case(tape: Vec<u8>) -> TextCase {
    let mut u = U::new(&tape);
    let mut model = gen_valid_model(&mut u, 12);
    let spoiled = !u.ratio(11, 20);
    if spoiled {
        spoil(&mut u, &mut model);
    }
    TextCase { text: render_model(&model), seed_hex: gen_seed_hex(&mut u), origin: "paths".into(), model: Some(model), how: if spoiled { "valid model with out-of-range values" } else { "valid model" }.into() }
}

/// Hand-written strings. All but the bare "m" must be refused.
const FIXED: &[&str] = &[
    "", "m", "m/", "/0", "0/1", "M/0", "n/0", "m//0", "m/0/", "m/0//1", "m/-1", "m/1.5", "m/0x10", "m/1e2", "m/ 1", "m/1 ",
    "m/1''", "m/'", "m/1h", "m/1H", "m/\u{ff11}", "m/1'/x",
    // beyond the DESIGN list
    "/", "//", "0", "44'/60'/0'/0/0", "/44'/60'/0'/0/0", "M/44'/60'/0'/0/0", "m0", "m0/1", "mm/0", "m\\0", "m/44'/60'/0'/0/",
    "m/44'/60'//0/0", "m/44h/60h/0h/0/0", "m/44H/60H/0H/0/0", "m/-0", "m/-", "m/+", "m/+'", "m/--1", "m/+-1", "m/-+1", "m/++1",
    "m/'1", "m/1'0", "m/1' ", "m/1_000", "m/1,000", "m/0b1", "m/0o7", "m/0x0", "m/1E2", "m/1e0", "m/1.0", "m/.5", "m/NaN", "m/inf",
    "m/\u{0663}", "m/\u{b2}", "m/\u{2460}", "m/0\n", "m/0\t", " m/0", "m /0", "m/0 /1", "m/0/ 1", "\u{feff}m/0", "m/0\u{0}", "m/\u{2019}",
    "m/0\u{2019}", "m/0`", "m/0\"", "m/0'h", "m/0h'", "m/h", "m/x'", "m/0;1", "m/0:1", "m/0\\1", "m/0|1", "m/2147483648", "m/2147483648'",
    "m/4294967296", "m/4294967296'", "m/18446744073709551616", "m/0/2147483648", "m/44'/60'/0'/0/2147483648", "m/-2147483648",
];

/// Tokens that are not components; embedded at a random position.
const BAD_TOKENS: &[&str] = &[
    "", "-1", "-0", "1.5", "1.0", ".5", "0x10", "0X10", "0x0", "1e2", "1E2", "1e0", " 1", "1 ", " ", "1''", "'", "''", "1h", "1H", "h", "H",
    "1'h", "1h'", "\u{ff11}", "\u{0663}", "\u{b2}", "x", "x'", "+", "+'", "-", "-'", "'1", "1'0", "1' ", "1_000", "1,000", "0b1", "0o7",
    "1\t", "\n1", "1\n", "*", "NaN", "m", "0\u{2019}", "0`", "--1", "+-1", "++1", "-2147483648", "1 2", "0'0'", "#0", "0#",
];

fn gen_embedded_case(tape: Vec<u8>) -> TextCase {
    let mut u = U::new(&tape);
    let mut model = gen_valid_model(&mut u, 8);
    let tok = u.pick(BAD_TOKENS);
    let i = u.below(model.len() + 1);
    let mut parts: Vec<String> = model.drain(..).map(|c| if c.hardened { format!("{}'", c.value) } else { c.value }).collect();
    let how = if i < parts.len() && u.bool() {
        parts[i] = tok.to_string();
        format!("component #{i} replaced by token {tok:?}")
    } else {
        parts.insert(i, tok.to_string());
        format!("token {tok:?} inserted as component #{i}")
    };
    TextCase { text: format!("m/{}", parts.join("/")), seed_hex: gen_seed_hex(&mut u), origin: "embedded".into(), model: None, how }
}

const EDIT_ALPHABET: &[char] = &[
    'm', 'M', '/', '/', '\'', '\'', '0', '1', '2', '7', '9', '+', '-', '.', ' ', 'h', 'H', 'x', 'e', '\t', '\n', '_', ',', '"', '\\', 'n',
    '\u{ff11}', '\u{2019}',
];

fn gen_mutated_case(tape: Vec<u8>) -> TextCase {
    let mut u = U::new(&tape);
    let model = gen_valid_model(&mut u, 8);
    let base = render_model(&model);
    let mut chars: Vec<char> = base.chars().collect();
    let mut log = vec![format!("base {base:?}")];
    let edits = 1 + u.below(3);
    for _ in 0..edits {
        let ch = if u.ratio(4, 5) { u.pick(EDIT_ALPHABET) } else { (0x21 + u.below(0x5e) as u8) as char };
        match u.below(8) {
            0 | 1 => {
                let i = u.below(chars.len() + 1);
                chars.insert(i, ch);
                log.push(format!("insert {ch:?} at {i}"));
            }
            2 if !chars.is_empty() => {
                let i = u.below(chars.len());
                chars.remove(i);
                log.push(format!("delete at {i}"));
            }
            3 | 4 if !chars.is_empty() => {
                let i = u.below(chars.len());
                chars[i] = ch;
                log.push(format!("replace at {i} by {ch:?}"));
            }
            5 if chars.len() >= 2 => {
                let i = u.below(chars.len() - 1);
                chars.swap(i, i + 1);
                log.push(format!("swap {i},{}", i + 1));
            }
            6 if !chars.is_empty() => {
                let i = u.below(chars.len());
                let c = chars[i];
                chars.insert(i, c);
                log.push(format!("duplicate at {i}"));
            }
            _ => {
                let i = u.below(chars.len() + 1);
                chars.truncate(i);
                log.push(format!("truncate to {i}"));
            }
        }
    }
    // the base is kept in `how`; the model no longer renders to the text
    TextCase { text: chars.into_iter().collect(), seed_hex: gen_seed_hex(&mut u), origin: "mutated".into(), model: None, how: log.join("; ") }
}

fn gen_spelling_case(tape: Vec<u8>) -> TextCase {
    let mut u = U::new(&tape);
    let mut model = gen_valid_model(&mut u, 8);
    let out_of_range = u.ratio(1, 4);
    let n = 1 + u.below(2);
    let mut how = vec![];
    for _ in 0..n {
        let i = u.below(model.len());
        let digits = if out_of_range { gen_oor_value(&mut u) } else { model[i].value.trim_start_matches(['+', '0']).to_string() };
        let digits = if digits.is_empty() { "0".to_string() } else { digits };
        let style = u.below(4);
        let max_zeros = if u.ratio(1, 8) { 40 } else { 3 };
        let zeros = "0".repeat(1 + u.below(max_zeros));
        model[i].value = match style {
            0 => format!("+{digits}"),
            1 | 2 => format!("{zeros}{digits}"),
            _ => format!("+{zeros}{digits}"),
        };
        how.push(format!("component #{i} spelled {:?}", model[i].value));
    }
    TextCase { text: render_model(&model), seed_hex: gen_seed_hex(&mut u), origin: "spelling".into(), model: Some(model), how: how.join("; ") }
}

/// Enumerated: boundary value x hardened x position x depth.
fn boundary_cases(ctx: &Ctx) -> Vec<TextCase> {
    let p31: u128 = 1 << 31;
    let p32: u128 = 1 << 32;
    let p64: u128 = 1 << 64;
    let mut values: Vec<String> = [
        p31 - 2, p31 - 1, p31, p31 + 1, p31 + 2, p31 + 44, p32 - 2, p32 - 1, p32, p32 + 1, p32 + 2, p32 + p31 - 1, p32 + p31, (1 << 33) - 1,
        1 << 33, (1 << 63) - 1, 1 << 63, (1 << 63) + 1, p64 - 1, p64, p64 + 1, p64 + p31, p64 + p32,
    ]
    .iter()
    .map(|v| dec(*v))
    .collect();
    values.push("340282366920938463463374607431768211456".into()); // 2^128
    values.push("10000000000000000000000000000000000000000".into()); // 10^40
    let mut out = vec![];
    let mut n = 0u64;
    for v in &values {
        for hardened in [false, true] {
            for depth in 1..=6usize {
                for pos in 0..depth {
                    n += 1;
                    let mut p = Prng::new(ctx.sub_seed("boundary", n));
                    let model: Vec<Comp> = (0..depth)
                        .map(|i| {
                            if i == pos {
                                Comp { value: v.clone(), hardened }
                            } else {
                                let x = match p.below(4) {
                                    0 => 0x7fff_ffff,
                                    1 => p.below(100),
                                    _ => p.below(1 << 31),
                                };
                                Comp { value: dec(x as u128), hardened: p.below(2) == 1 }
                            }
                        })
                        .collect();
                    let seed_len = [16, 32, 64][p.below(3) as usize];
                    out.push(TextCase {
                        text: render_model(&model),
                        seed_hex: hex_lower(&p.bytes(seed_len)),
                        origin: "boundary".into(),
                        model: Some(model),
                        how: format!("value {v} hardened={hardened} at position {pos} of {depth}"),
                    });
                }
            }
        }
    }
    out
}

// ---------------------------------------------------------------- Path::for_index

#[derive(Clone, Debug, Serialize, Deserialize)]
pub struct IndexCase {
    /// decimal account index (must fit usize for the in-process call)
    pub index: String,
    pub seed_hex: String,
}

fn gen_account_index(u: &mut U) -> u128 {
    let p31: u128 = 1 << 31;
    match u.below(24) {
        0 => 0,
        1 => 1,
        2 => 2,
        3 => 44,
        4 => 60,
        5 | 6 => u.below(1000) as u128,
        7 => p31 - 2,
        8 | 9 => p31 - 1,
        10 | 11 => gen_index(u) as u128,
        12 => u.u32() as u128 & (p31 - 1),
        13 | 14 => p31,
        15 => p31 + 1,
        16 => (1 << 32) - 1,
        17 => 1 << 32,
        18 => (1 << 32) + 1,
        19 => [(1u128 << 63) - 1, 1 << 63, (1 << 64) - 1][u.below(3)],
        20 => p31 + (u.u32() as u128 & (p31 - 1)),
        21 => (1 << 32) + gen_valid_value(u) as u128,
        22 => (u.u64() as u128 & ((1 << 33) - 1)).max(p31),
        _ => (u.u64() as u128).max(p31),
    }
}

fn judge_index(c: &IndexCase, cls: &mut Classifier) -> Verdict {
    let Some(seed) = unhex(&c.seed_hex) else { return fail("hex seed", c.seed_hex.clone(), "bad replay case") };
    let Ok(i) = c.index.parse::<usize>() else {
        return fail("an index that fits usize", c.index.clone(), "bad replay case (larger indices are only reachable through the CLI)");
    };
    let got = catch(|| {
        hdk::Path::for_index(i).map(|p| (p.to_string(), hdk::derive(&seed, &p).map(|k| k.secret()).map_err(|e| format!("{e:#}")))).map_err(|e| format!("{e:#}"))
    });
    let got = match got {
        Ok(g) => g,
        Err(p) => return fail("a path or an error", p, format!("Path::for_index({i}) panicked")),
    };
    if (i as u128) < LIMIT {
        let steps = bip32::default_path(i as u32);
        let canonical = format!("m/44'/60'/0'/0/{}", dec(i as u128));
        assert_eq!(bip32::render(&steps), canonical, "harness: default path rendering");
        let (printed, key) = match got {
            Ok(v) => v,
            Err(e) => return fail(canonical, format!("Err({e})"), format!("Path::for_index({i}) with i < 2^31 must give the default path")),
        };
        if printed != canonical {
            return fail(canonical, printed, format!("default path for account index {i}"));
        }
        let want = bip32::derive(&seed, &steps);
        match (&want, &key) {
            (Ok(w), Ok(k)) if w == k => {}
            (Err(_), Err(_)) => cls.label("index:bip32-invalid-step"),
            _ => {
                return fail(
                    format!("{:?}", want.as_ref().map(|w| hex_lower(w))),
                    show_key(&key),
                    format!("key of Path::for_index({i}) from seed {} differs from BIP-32 along {canonical}", c.seed_hex),
                )
            }
        }
        cls.label("index:default-path");
        if i as u128 == LIMIT - 1 {
            cls.label("index:=2^31-1");
        }
        if i >= 1 << 24 {
            cls.label("index:>=2^24");
        }
        if i != 0 {
            cls.nontrivial(&("index", c.seed_hex.as_str(), i));
            cls.sample("index:default-path", || json!({"index": i, "seed": c.seed_hex, "path": canonical}));
        }
    } else {
        if let Ok((printed, key)) = got {
            return fail(
                "Err (no standard default path exists for an account index of 2^31 or more)",
                format!("path {printed:?}; derives {}", show_key(&key)),
                format!("Path::for_index({i}) with i >= 2^31 yields a path"),
            );
        }
        cls.label("index:refused");
        cls.label(if (i as u128) < 1 << 32 { "index:refused:[2^31,2^32)" } else { "index:refused:>=2^32" });
        cls.nontrivial(&("index-refused", i));
        cls.sample("index:refused", || json!({"index": i}));
    }
    Ok(())
}

fn index_sweep(ctx: &Ctx) -> Vec<IndexCase> {
    let p31: u128 = 1 << 31;
    let mut v: Vec<u128> = (0..=64).collect();
    for k in [8u32, 16, 24, 31, 32, 33, 53, 63] {
        for d in [-2i128, -1, 0, 1, 2] {
            v.push(((1i128 << k) + d) as u128);
        }
    }
    v.extend([p31 + 44, p31 + 60, (1 << 32) + 44, u64::MAX as u128 - 1, u64::MAX as u128]);
    v.iter()
        .enumerate()
        .map(|(n, i)| {
            let mut p = Prng::new(ctx.sub_seed("index-sweep", n as u64));
            let seed_len = [16, 32, 64][p.below(3) as usize];
            IndexCase { index: dec(*i), seed_hex: hex_lower(&p.bytes(seed_len)) }
        })
        .collect()
}

// ---------------------------------------------------------------- CLI sample

#[derive(Clone, Debug, Serialize, Deserialize)]
pub struct CliCase {
    /// canonical BIP-39 phrase (rendered by the reference from random entropy)
    pub phrase: String,
    /// "hd-path" or "account-index"
    pub mode: String,
    /// the path text or the decimal account index
    pub value: String,
    /// the exact invocation
    pub inv: Invocation,
}

fn cli_invocation(phrase: &str, mode: &str, value: &str, eq_form: bool) -> Invocation {
    let inv = Invocation::new(&["address", "--mnemonic", phrase]);
    let opt = format!("--{mode}");
    if eq_form || value.starts_with('-') {
        inv.arg(format!("{opt}={value}"))
    } else {
        inv.arg(opt).arg(value)
    }
}

fn gen_cli_case(tape: Vec<u8>) -> CliCase {
    let mut u = U::new(&tape);
    let elen = [16usize, 20, 24, 28, 32][u.below(5)];
    let (mode, value) = match u.below(100) {
        0..=29 => ("hd-path", render_model(&gen_valid_model(&mut u, 8))),
        30..=49 => {
            let mut m = gen_valid_model(&mut u, 8);
            spoil(&mut u, &mut m);
            ("hd-path", render_model(&m))
        }
        50..=59 => ("hd-path", gen_embedded_case(u.bytes(48)).text),
        60..=67 => ("hd-path", u.pick(FIXED).replace('\0', "%")),
        68..=73 => ("hd-path", gen_spelling_case(u.bytes(64)).text),
        _ => (
            "account-index",
            match u.below(8) {
                0 => ["18446744073709551616", "18446744073709551617", "340282366920938463463374607431768211456"][u.below(3)].to_string(),
                _ => dec(gen_account_index(&mut u)),
            },
        ),
    };
    let eq_form = u.ratio(1, 4);
    let entropy = u.bytes(elen);
    let phrase = bip39::encode_phrase(&entropy);
    // one case in twenty has the empty text as value; a third of the cases pass the value through the documented
    // environment variable instead of the flag ("behave identically to flags")
    let value = if u.ratio(1, 20) { String::new() } else { value };
    let inv = if u.ratio(1, 3) && !value.contains('\0') {
        Invocation::new(&["address", "--mnemonic", &phrase]).env(if mode == "hd-path" { "HD_PATH" } else { "ACCOUNT_INDEX" }, value.clone())
    } else {
        cli_invocation(&phrase, mode, &value, eq_form)
    };
    CliCase { phrase, mode: mode.into(), value, inv }
}

fn address_line(seed: &[u8], steps: &[Step]) -> Option<String> {
    let key = bip32::derive(seed, steps).ok()?;
    Some(format!("{}\n", eip55(&address_of(&secp::mul_g(&key)?))))
}

fn judge_cli(c: &CliCase, cls: &mut Classifier) -> Verdict {
    let Some(exe) = cli_path() else {
        return fail("path of the hdwallet executable", "none", "harness: CLI path not configured (--cli or HDV_CLI)");
    };
    if !matches!(c.mode.as_str(), "hd-path" | "account-index") {
        return fail("hd-path or account-index", c.mode.clone(), "bad replay case");
    }
    // the invocation must carry exactly the modelled value
    let a = &c.inv.args;
    let carried = a.len() >= 3
        && a[..3] == ["address".to_string(), "--mnemonic".to_string(), c.phrase.clone()]
        && ((c.inv.env.is_empty() && ((a.len() == 5 && a[3] == format!("--{}", c.mode) && a[4] == c.value) || (a.len() == 4 && a[3] == format!("--{}={}", c.mode, c.value))))
            || (a.len() == 3 && c.inv.env == vec![(if c.mode == "hd-path" { "HD_PATH" } else { "ACCOUNT_INDEX" }.to_string(), c.value.clone())]));
    let via_env = !c.inv.env.is_empty();
    if !carried {
        return fail("argv rendered from (phrase, mode, value)", format!("{a:?}"), "bad replay case");
    }
    if bip39::decode_phrase(&c.phrase).is_err() {
        return fail("valid phrase", c.phrase.clone(), "bad replay case");
    }
    // expectation
    enum Want {
        Address(String),
        Refused(String),
        NoPanic(&'static str),
    }
    let seed = bip39::seed_from_normalised(&c.phrase, "");
    let want = if c.mode == "hd-path" {
        match expectation(&analyse(&c.value)) {
            Expect::Valid(steps) => match address_line(&seed, &steps) {
                Some(a) => Want::Address(a),
                None => Want::Refused("BIP-32 declares a step invalid".into()),
            },
            Expect::MustErr(_, why) => Want::Refused(why),
            Expect::Unspecified(kind) => Want::NoPanic(kind),
        }
    } else {
        let canonical = !c.value.is_empty() && c.value.bytes().all(|b| b.is_ascii_digit()) && (c.value == "0" || !c.value.starts_with('0'));
        if !canonical {
            Want::NoPanic("account-index-spelling")
        } else {
            match c.value.parse::<u128>() {
                Ok(i) if i < LIMIT => match address_line(&seed, &bip32::default_path(i as u32)) {
                    Some(a) => Want::Address(a),
                    None => Want::Refused("BIP-32 declares a step invalid".into()),
                },
                _ => Want::Refused("account index is 2^31 or more".into()),
            }
        }
    };
    let out = cli::run(&exe, &c.inv, Duration::from_secs(30));
    if out.timed_out {
        cls.label("cli:timeout");
        return Ok(());
    }
    let what = if via_env { format!("`address` with {}={:?}", c.inv.env[0].0, truncate(&c.value, 200)) } else { format!("`address --{} {:?}`", c.mode, truncate(&c.value, 200)) };
    if out.panicked() {
        return fail("an address or an ordinary error exit", out.describe(), format!("{what} panicked / abnormal exit"));
    }
    if via_env {
        // the documented variable behaves identically to the flag: same success/refusal, same stdout
        let flag = cli::run(&exe, &cli_invocation(&c.phrase, &c.mode, &c.value, true), Duration::from_secs(30));
        if !flag.timed_out && (flag.ok(), &flag.stdout) != (out.ok(), &out.stdout) {
            return fail(format!("as with --{}={:?}: {}", c.mode, truncate(&c.value, 100), flag.describe()), out.describe(), format!("{what}: options taken from the environment behave identically to flags"));
        }
        cls.label("cli:via-env");
    }
    match want {
        Want::Address(line) => {
            if !out.ok() || out.stdout_str() != line {
                return fail(format!("exit 0, stdout {line:?}"), out.describe(), format!("{what}: address of the reference key along the requested path (phrase {:?})", c.phrase));
            }
            cls.label(&format!("cli:{}:address", c.mode));
            if !(c.mode == "account-index" && c.value == "0") && c.value != DEFAULT_ZERO {
                cls.nontrivial(&("cli", c.phrase.as_str(), c.mode.as_str(), c.value.as_str()));
                cls.sample(&format!("cli:{}:address", c.mode), || json!({"args": c.inv.args, "stdout": line}));
            }
        }
        Want::Refused(why) => {
            if !out.ordinary_error() || !out.stdout.is_empty() {
                return fail(format!("ordinary error exit (255 or 2) with empty stdout: {why}"), out.describe(), format!("{what} must be refused: {why}"));
            }
            cls.label(&format!("cli:{}:refused", c.mode));
            if out.code == Some(2) {
                cls.label("cli:refused-by-clap");
            }
            cls.nontrivial(&("cli-refused", c.mode.as_str(), c.value.as_str()));
            cls.sample(&format!("cli:{}:refused", c.mode), || json!({"args": c.inv.args[3..], "exit": out.code, "why": why}));
        }
        Want::NoPanic(kind) => {
            cls.unspecified(kind);
            cls.label("cli:unspecified");
        }
    }
    Ok(())
}

// ---------------------------------------------------------------- the same rules at the vanity options of `new`

/// `new --vanity-prefix 0x<d> -j 0 --vanity-hd-path P` / `--vanity-account-index I` with a P / I that must
/// be refused: the command must fail with an ordinary error and print nothing (it must not fall back to
/// another path and print a phrase).
#[derive(Clone, Debug, Serialize, Deserialize)]
pub struct VanityCliCase {
    /// "vanity-hd-path" or "vanity-account-index"
    pub mode: String,
    pub value: String,
    pub inv: Invocation,
}

fn gen_vanity_cli_case(tape: Vec<u8>) -> VanityCliCase {
    let base = gen_cli_case(tape.clone());
    let mut u = U::new(&tape);
    let refused = if base.mode == "hd-path" {
        matches!(expectation(&analyse(&base.value)), Expect::MustErr(..))
    } else {
        base.value.bytes().all(|b| b.is_ascii_digit()) && !base.value.is_empty() && base.value.parse::<u128>().map(|i| i >= LIMIT).unwrap_or(true)
    };
    let (mode, value) = if refused {
        (format!("vanity-{}", base.mode), base.value)
    } else if u.bool() {
        ("vanity-hd-path".to_string(), ["m/2147483648", "m/44'/60'/0'/0/4294967296", "44'/60'/0'/0/0", "m/0//1", "m/", "m/1h", "m/-1", "m/1.5", "m/0x10", "m/0''", "m0/1"][u.below(11)].to_string())
    } else {
        ("vanity-account-index".to_string(), ["2147483648", "4294967295", "4294967296", "4294967301", "9223372036854775808", "18446744073709551615"][u.below(6)].to_string())
    };
    let digit = format!("0x{:x}", u.below(16));
    let mut inv = Invocation::new(&["new", "--vanity-prefix", &digit, "-j"]).arg(["0", "1", "2"][u.below(3)]);
    inv = if value.starts_with('-') || u.ratio(1, 4) { inv.arg(format!("--{mode}={value}")) } else { inv.arg(format!("--{mode}")).arg(value.clone()) };
    VanityCliCase { mode, value, inv }
}

fn judge_vanity_cli(c: &VanityCliCase, cls: &mut Classifier) -> Verdict {
    let Some(exe) = cli_path() else {
        return fail("path of the hdwallet executable", "none", "harness: CLI path not configured (--cli or HDV_CLI)");
    };
    let must_err = match c.mode.as_str() {
        "vanity-hd-path" => matches!(expectation(&analyse(&c.value)), Expect::MustErr(..)),
        "vanity-account-index" => c.value.bytes().all(|b| b.is_ascii_digit()) && !c.value.is_empty() && c.value.parse::<u128>().map(|i| i >= LIMIT).unwrap_or(true),
        _ => return fail("vanity-hd-path or vanity-account-index", c.mode.clone(), "bad replay case"),
    };
    if !must_err {
        return fail("a value that must be refused", c.value.clone(), "bad replay case");
    }
    // the value must be refused before a search starts: a run that is still computing after 10 CPU-seconds is not refusing
    let out = cli::with_cpu_budget(10, || cli::run(&exe, &c.inv, Duration::from_secs(60)));
    if out.timed_out {
        cls.label("cli:timeout");
        return Ok(());
    }
    let what = format!("`new --vanity-prefix .. --{} {:?}`", c.mode, truncate(&c.value, 200));
    if out.panicked() {
        return fail("an ordinary error exit", out.describe(), format!("{what} panicked / abnormal exit"));
    }
    if !out.ordinary_error() || !out.stdout.is_empty() {
        return fail("ordinary error exit (255 or 2) with empty stdout", out.describe(), format!("{what}: a path / index that must be refused was not refused by the vanity search"));
    }
    cls.label(&format!("cli:{}:refused", c.mode));
    cls.nontrivial(&("cli-vanity", c.mode.as_str(), c.value.as_str(), c.inv.args.clone()));
    cls.sample(&format!("cli:{}:refused", c.mode), || json!({"args": c.inv.args, "exit": out.code}));
    Ok(())
}

// ---------------------------------------------------------------- run / replay

/// Generator-health floors are only meaningful for a run that was not cut
/// short by a violation (a failing shard stops generating).
fn floor(ctx: &mut Ctx, label: &str, of: u64, min_frac: f64) {
    if ctx.violations.is_empty() {
        ctx.floor(label, of, min_frac);
    }
}

fn floor_abs(ctx: &mut Ctx, label: &str, min: u64) {
    if ctx.violations.is_empty() {
        ctx.floor_abs(label, min);
    }
}

pub fn run(ctx: &mut Ctx) {
    ctx.rule = format!("Path text rendered from a component model: depth 1..12, hardened flags all/none/BIP-44-shaped/inverted/random, values from {{0,1,44,60,2^31-2,2^31-1,byte-order probes,small,uniform 31-bit}}; 45% of paths get 1-3 components replaced by an out-of-range value from {{2^31,2^31+1,2^32-1,2^32,2^32+1,2^63,2^64-1,2^64,2^64+1,2^31+k,2^32+k,2^64+k (aliasing/wrapping a valid k),uniform [2^31,2^32),uniform 33-bit,uniform 64/128-bit,2^128,2^256,10^40}}. Plus: an enumerated grid boundary value x hardened x position x depth 1..6; {} hand-written malformed strings; a non-component token embedded at a random position of a valid path; 1-3 random character edits of a valid path; '+'/leading-zero spellings; Path::for_index over the same value set (boundary sweep + random); a CLI sample (`address --hd-path P` / `--account-index i`, random valid phrase). Oracle: an own byte-level scanner of the canonical grammar m(/decimal['])+ classifies the TEXT as canonical (every value < 2^31, no sign, no leading zeros), must-be-refused (no root, non-numeric/empty component, value >= 2^31 in any spelling) or unspecified (bare 'm', leading '+', leading zeros with in-range values); for rendered cases the generator's model must agree with the scanner. Canonical: parse Ok, Display == text, key derived through the parsed path and through the re-parsed printed form == independent BIP-32 reference key for those indices and flags. Must-be-refused: Err, no panic. Unspecified: no panic; if accepted, the printed form parses and derives the same key. for_index(i): i < 2^31 prints m/44'/60'/0'/0/i and derives the reference key, i >= 2^31 is Err. CLI: stdout == EIP-55 address of the reference key, or ordinary error exit (255/2) with empty stdout, never a panic. Non-trivial: anything but m/44'/60'/0'/0/0 (index 0); distinct by (seed, text) for accepted paths and by text for refused ones.", FIXED.len());
    ctx.assumptions = vec![
        "the bare root 'm' (no component) is treated as unspecified: the property speaks of m/i1/i2/... and lists empty components and a missing root, not an absent component list".into(),
        "a value >= 2^31 written with a leading '+' or leading zeros must still be refused (either reason suffices)".into(),
        "white space, 'h'/'H' markers, upper-case 'M', non-ASCII digits and typographic apostrophes are non-numeric / non-standard and must be refused".into(),
        "for_index(i) and --account-index i with i >= 2^31 must be refused (no standard default path exists); indices that do not fit usize are clap usage errors (exit 2)".into(),
        "BIP-32-invalid steps are unreachable by generation (probability < 2^-127)".into(),
    ];
    if let Some(p) = ctx.cli.clone() {
        let _ = CLI.set(p);
    }
    // the fixed list and the token list must stay what they claim to be
    for s in FIXED {
        match expectation(&analyse(s)) {
            Expect::MustErr(..) => {}
            Expect::Unspecified("bare-root-m") if *s == "m" => {}
            _ => panic!("harness: fixed string {s:?} is not classified as must-be-refused"),
        }
    }
    for t in BAD_TOKENS {
        assert!(t.contains('/') || analyse_component(t.as_bytes()).is_none(), "harness: token {t:?} is a component");
    }
    ctx.replay_known_and_regressions(&replay_inner);
    let t = ctx.tier;

    // paths
    let n_paths = t.pick(20_000, 1_000_000);
    ctx.run_prop("paths", n_paths, || crate::gen::tape(256).prop_map(gen_paths_case), judge_text_case);
    let total = n_paths as u64;
    floor(ctx, "paths:accepted", total, 0.40);
    floor(ctx, "paths:rejected:out-of-range", total, 0.35);
    floor(ctx, "paths:accepted:mixed", total, 0.10);
    floor(ctx, "paths:accepted:all-normal", total, 0.04);
    floor(ctx, "paths:accepted:all-hardened", total, 0.04);
    floor(ctx, "paths:accepted:depth>=8", total, 0.10);
    floor(ctx, "paths:accepted:2^31-1-hardened", total, 0.05);
    floor(ctx, "paths:accepted:2^31-1-normal", total, 0.05);
    floor(ctx, "paths:oor:=2^31", total, 0.03);
    floor(ctx, "paths:oor:alias[2^31,2^32)", total, 0.10);
    floor(ctx, "paths:oor:wrap32[2^32,2^64)", total, 0.08);
    floor(ctx, "paths:oor:>=2^64", total, 0.05);
    floor(ctx, "paths:oor:only-hardened", total, 0.08);
    floor(ctx, "paths:oor:only-normal", total, 0.08);
    floor(ctx, "paths:oor:not-first", total, 0.15);
    floor(ctx, "paths:oor:only-last", total, 0.05);

    // boundary grid
    let grid = boundary_cases(ctx);
    ctx.run_cases("boundary", &grid, judge_text_case);
    ctx.exhaustive_parts.push(format!(
        "25 boundary values (2^31-2..2^31+2, 2^32-2..2^32+2, 2^32+2^31-1.., 2^33, 2^63+-1, 2^64-1..2^64+1, 2^64+2^31, 2^64+2^32, 2^128, 10^40) x hardened/normal x every position of every depth 1..=6 ({} paths, other components random)",
        grid.len()
    ));
    floor_abs(ctx, "boundary:accepted", 2 * 2 * 21);
    floor_abs(ctx, "boundary:rejected:out-of-range", 23 * 2 * 21);

    // fixed strings
    let mut p = Prng::new(ctx.sub_seed("fixed", 0));
    let fixed: Vec<TextCase> = FIXED
        .iter()
        .map(|s| TextCase { text: s.to_string(), seed_hex: hex_lower(&p.bytes(32)), origin: "fixed".into(), model: None, how: "hand-written".into() })
        .collect();
    ctx.run_cases("fixed", &fixed, judge_text_case);
    // every ASCII character 0x01..=0x7f in the places of a path text: after, before and inside a number, in place
    // of the root letter and of the separator (the scanner decides what each text is: only digits, one trailing
    // apostrophe and '/' have a meaning)
    let mut sweep = vec![];
    for b in 1u8..=0x7f {
        let c = b as char;
        for text in [format!("m/4{c}"), format!("m/{c}4"), format!("m/4{c}4"), format!("m/44'/6{c}0'/0'/0/0"), format!("{c}/0"), format!("m{c}0"), format!("m/0{c}/1"), format!("m/0'{c}")] {
            sweep.push(TextCase { text, seed_hex: hex_lower(&p.bytes(32)), origin: "fixed".into(), model: None, how: format!("ASCII sweep: {c:?}") });
        }
    }
    ctx.run_cases("fixed", &sweep, judge_text_case);
    ctx.exhaustive_parts.push("every ASCII character 0x01..0x7f at eight places of a short path text".into());
    ctx.exhaustive_parts.push(format!("{} hand-written malformed strings", FIXED.len()));
    floor_abs(ctx, "fixed:rejected", FIXED.len() as u64 - 1);

    // embedded tokens
    let n_emb = t.pick(4_000, 150_000);
    ctx.run_prop("embedded", n_emb, || crate::gen::tape(160).prop_map(gen_embedded_case), judge_text_case);
    floor(ctx, "embedded:rejected:malformed-component", n_emb as u64, 0.9);

    // random edits
    let n_mut = t.pick(8_000, 400_000);
    ctx.run_prop("mutated", n_mut, || crate::gen::tape(160).prop_map(gen_mutated_case), judge_text_case);
    floor(ctx, "mutated:rejected:malformed-component", n_mut as u64, 0.25);
    floor(ctx, "mutated:rejected:missing-root", n_mut as u64, 0.03);
    floor(ctx, "mutated:accepted", n_mut as u64, 0.05);

    // spellings
    let n_sp = t.pick(3_000, 100_000);
    ctx.run_prop("spelling", n_sp, || crate::gen::tape(200).prop_map(gen_spelling_case), judge_text_case);
    floor(ctx, "spelling:rejected:out-of-range", n_sp as u64, 0.15);
    let unspecified: u64 = ctx.cls.count("spelling:unspecified:accepted") + ctx.cls.count("spelling:unspecified:refused");
    if ctx.violations.is_empty() && (unspecified as f64) < n_sp as f64 * 0.5 {
        ctx.inconclusive(format!("generator health: only {unspecified} of {n_sp} spelling cases are unspecified spellings"));
    }

    // Path::for_index
    let sweep = index_sweep(ctx);
    ctx.run_cases("index", &sweep, judge_index);
    ctx.exhaustive_parts.push(format!("Path::for_index at 0..=64, 2^k-2..2^k+2 for k in {{8,16,24,31,32,33,53,63}}, 2^31+44, 2^31+60, 2^32+44, 2^64-2, 2^64-1 ({} indices)", sweep.len()));
    let n_idx = t.pick(6_000, 300_000);
    ctx.run_prop(
        "index",
        n_idx,
        || {
            crate::gen::tape(160).prop_map(|tape| {
                let mut u = U::new(&tape);
                let i = gen_account_index(&mut u);
                IndexCase { index: dec(i), seed_hex: gen_seed_hex(&mut u) }
            })
        },
        judge_index,
    );
    floor(ctx, "index:default-path", n_idx as u64, 0.4);
    floor(ctx, "index:=2^31-1", n_idx as u64, 0.04);
    floor(ctx, "index:>=2^24", n_idx as u64, 0.10);
    floor(ctx, "index:refused:[2^31,2^32)", n_idx as u64, 0.10);
    floor(ctx, "index:refused:>=2^32", n_idx as u64, 0.10);

    crate::fuzz::run_for(ctx);
    // CLI sample
    match cli_path() {
        Some(exe) if exe.is_file() => {
            let n_cli = t.pick(3_000, 40_000);
            ctx.run_prop("cli", n_cli, || crate::gen::tape(256).prop_map(gen_cli_case), judge_cli);
            ctx.run_prop("cli-vanity", t.pick(300, 5_000), || crate::gen::tape(256).prop_map(gen_vanity_cli_case), judge_vanity_cli);
            let timeouts = ctx.cls.count("cli:timeout");
            if timeouts > 0 {
                ctx.inconclusive(format!("{timeouts} CLI runs hit the watchdog"));
            }
            let n = n_cli as u64;
            floor(ctx, "cli:hd-path:address", n, 0.2);
            floor(ctx, "cli:hd-path:refused", n, 0.25);
            floor(ctx, "cli:account-index:address", n, 0.08);
            floor(ctx, "cli:account-index:refused", n, 0.08);
            floor(ctx, "cli:refused-by-clap", n, 0.01);
            floor_abs(ctx, "cli:vanity-hd-path:refused", 60);
            floor_abs(ctx, "cli:vanity-account-index:refused", 30);
        }
        _ => ctx.inconclusive("the hdwallet executable was not provided (--cli); CLI sample not run"),
    }
}

fn replay_inner(sub: &str, case: &Value) -> Option<Verdict> {
    match sub {
        "paths" | "boundary" | "fixed" | "embedded" | "mutated" | "spelling" | "text" => Some(replay_as::<TextCase>(case, judge_text_case)),
        "index" => Some(replay_as::<IndexCase>(case, judge_index)),
        "cli" => Some(replay_as::<CliCase>(case, judge_cli)),
        "cli-vanity" => Some(replay_as::<VanityCliCase>(case, judge_vanity_cli)),
        _ => None,
    }
}

pub fn replay(sub: &str, case: &Value, ctx: &Ctx) -> Option<Verdict> {
    if let Some(p) = ctx.cli.clone() {
        let _ = CLI.set(p);
    }
    replay_inner(sub, case)
}
