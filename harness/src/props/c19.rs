//! C19 — `hex encode` and `hex decode` are inverse; decoding is lenient only
//! about layout (white space, digit case, optional `0x`). CLI property: the
//! `cmd` module is bin-only, so every observation is a subprocess run.

use crate::cli::{self, CliOut};
use crate::engine::{fail, truncate, Classifier, Ctx, Prng, Verdict};
use crate::refimpl::{hex_lower, unhex};
use proptest::prelude::*;
use serde::{Deserialize, Serialize};
use serde_json::{json, Value};
use std::cell::Cell;
use std::ffi::OsString;
use std::path::PathBuf;
use std::sync::OnceLock;
use std::time::Duration;

static CLI: OnceLock<PathBuf> = OnceLock::new();
static ROOT: OnceLock<PathBuf> = OnceLock::new();

/// argv placeholder replaced by the path of a scratch file holding the input
const FILE_ARG: &str = "@FILE";
/// what the child finds on stdin when the input travels by file
const DECOY_STDIN: &[u8] = b"0x00";
const TIMEOUT: Duration = Duration::from_secs(30);
const TIMEOUT_LABEL: &str = "watchdog-timeout";
const MAX_LEN: usize = 4096;

fn cli_path() -> &'static PathBuf {
    CLI.get_or_init(|| PathBuf::from(std::env::var_os("HDV_CLI").unwrap_or_else(|| "hdwallet".into())))
}

fn root() -> &'static PathBuf {
    ROOT.get_or_init(|| PathBuf::from(std::env::var_os("HDV_ROOT").unwrap_or_else(|| ".".into())))
}

// ---------------------------------------------------------------- reference

/// What the property says about one `hex decode` input.
#[derive(Clone, Debug, PartialEq, Eq)]
pub enum Expect {
    /// success, stdout is exactly these bytes
    Bytes(Vec<u8>),
    /// error exit, empty stdout
    Reject(&'static str),
    /// the property does not decide; only "no panic" is required
    Unspecified(&'static str),
}

/// The four white-space characters the property decides.
fn decided_ws(c: char) -> bool {
    // the six ASCII white-space characters of C's isspace(): space, \t, \n, \v, \f, \r
    matches!(c, ' ' | '\t' | '\n' | '\r' | '\x0b' | '\x0c')
}

/// Anything some reasonable notion of "white space" covers (Unicode
/// White_Space, the ASCII separators Python/Java count, zero-width and BOM
/// characters). Outside the six decided ASCII characters this is unspecified.
fn ws_like(c: char) -> bool {
    c.is_whitespace()
        || matches!(c, '\u{1c}'..='\u{1f}' | '\u{180e}' | '\u{200b}'..='\u{200d}' | '\u{2060}' | '\u{feff}')
}

fn nibble(c: char) -> Option<u8> {
    match c {
        '0'..='9' => Some(c as u8 - b'0'),
        'a'..='f' => Some(c as u8 - b'a' + 10),
        'A'..='F' => Some(c as u8 - b'A' + 10),
        _ => None,
    }
}

/// Reference decoder written from the property text; shares nothing with
/// `permissive_hex` or the `hex` crate.
pub fn reference(input: &[u8]) -> Expect {
    let Ok(text) = std::str::from_utf8(input) else {
        return Expect::Reject("non-utf8");
    };
    if text.chars().any(|c| ws_like(c) && !decided_ws(c)) {
        return Expect::Unspecified("other-white-space");
    }
    // significant characters with their index in the character sequence
    let sig: Vec<(usize, char)> = text.chars().enumerate().filter(|(_, c)| !decided_ws(*c)).collect();
    let mut digits = &sig[..];
    if sig.len() >= 2 && sig[0].1 == '0' && matches!(sig[1].1, 'x' | 'X') {
        if sig[1].1 == 'X' {
            return Expect::Unspecified("upper-case-0X-prefix");
        }
        // White space between the 0 and the x: "decoding ignores whitespace anywhere" - it is ignored there too.
        // (First classed as undecided; two independent round-7 submissions broke exactly this spelling.)
        digits = &sig[2..];
    }
    let mut nibbles = Vec::with_capacity(digits.len());
    let mut bad = false;
    for (_, c) in digits {
        match nibble(*c) {
            Some(n) => nibbles.push(n),
            None => bad = true,
        }
    }
    match (bad, nibbles.len() % 2 == 1) {
        (true, true) => Expect::Reject("non-hex+odd"),
        (true, false) => Expect::Reject("non-hex"),
        (false, true) => Expect::Reject("odd"),
        (false, false) => Expect::Bytes(nibbles.chunks(2).map(|p| (p[0] << 4) | p[1]).collect()),
    }
}

// ---------------------------------------------------------------- subprocess

/// placeholder for a FIFO fed with the input
const FIFO_ARG: &str = "@FIFO";

fn run_cli(argv: &[String], input: &[u8]) -> CliOut {
    let mut file = None;
    let args: Vec<OsString> = argv
        .iter()
        .map(|a| {
            if a == FIFO_ARG {
                match cli::fifo_with(root(), input) {
                    Some(p) => {
                        let s = p.clone().into_os_string();
                        file = Some(p);
                        s
                    }
                    None => OsString::from("/nonexistent/fifo"),
                }
            } else if a == FILE_ARG {
                let p = cli::temp_file(root(), input);
                let s = p.clone().into_os_string();
                file = Some(p);
                s
            } else {
                OsString::from(a)
            }
        })
        .collect();
    let stdin: &[u8] = if file.is_some() { DECOY_STDIN } else { input };
    let out = cli::run_raw(cli_path(), &args, &[], stdin, TIMEOUT);
    if let Some(p) = file {
        let _ = std::fs::remove_file(p);
    }
    out
}

fn argv(op: &str, channel: u8) -> Vec<String> {
    let mut v = vec!["hex".to_string(), op.to_string()];
    match channel % 3 {
        0 => {}
        1 => v.push("-".into()),
        _ => v.push(FILE_ARG.into()),
    }
    v
}

fn channel_label(argv: &[String]) -> &'static str {
    match argv.last().map(String::as_str) {
        Some(FIFO_ARG) => "channel-fifo",
        Some("/dev/stdin") => "channel-dev-stdin",
        Some(FILE_ARG) => "channel-file",
        Some("-") => "channel-stdin-dash",
        _ => "channel-stdin-default",
    }
}

/// Readable, bounded rendering of arbitrary bytes for notes and samples.
fn preview(b: &[u8]) -> String {
    let esc: String = b.iter().take(160).flat_map(|c| std::ascii::escape_default(*c)).map(|c| c as char).collect();
    if b.len() > 160 {
        format!("{esc}…[{} bytes]", b.len())
    } else {
        esc
    }
}

fn observed(out: &CliOut) -> String {
    format!(
        "code={:?} signal={:?} stdout[{} bytes]=0x{} stderr={:?}",
        out.code,
        out.signal,
        out.stdout.len(),
        truncate(&hex_lower(&out.stdout), 200),
        truncate(&out.stderr_str(), 200)
    )
}

fn ascii_text(d: &[u8]) -> bool {
    d.iter().all(|b| matches!(b, 0x20..=0x7e | b'\t' | b'\n' | b'\r'))
}

// ---------------------------------------------------------------- (a) encode then decode

#[derive(Clone, Debug, Serialize, Deserialize)]
pub struct RoundTrip {
    pub data_hex: String,
    /// `@FILE` = path of a scratch file holding the data, otherwise the data is on stdin
    pub encode_argv: Vec<String>,
    /// the input of this run is the exact stdout of the encode run
    pub decode_argv: Vec<String>,
}

fn judge_roundtrip(c: &RoundTrip, cls: &mut Classifier) -> Verdict {
    let Some(data) = unhex(&c.data_hex) else {
        return fail("hex", c.data_hex.clone(), "bad replay case");
    };
    let enc = run_cli(&c.encode_argv, &data);
    if enc.timed_out {
        cls.label(TIMEOUT_LABEL);
        return Ok(());
    }
    let want = format!("0x{}\n", hex_lower(&data));
    if !enc.ok() || enc.stdout != want.as_bytes() {
        return fail(
            format!("exit 0, stdout = {:?}", truncate(&want, 300)),
            format!("code={:?} signal={:?} stdout={:?} stderr={:?}", enc.code, enc.signal, truncate(&enc.stdout_str(), 300), truncate(&enc.stderr_str(), 200)),
            format!("`{}` of {} bytes 0x{}: must print 0x, two lower-case digits per byte, newline", c.encode_argv.join(" "), data.len(), truncate(&c.data_hex, 120)),
        );
    }
    cls.eval();
    let dec = run_cli(&c.decode_argv, &enc.stdout);
    if dec.timed_out {
        cls.label(TIMEOUT_LABEL);
        return Ok(());
    }
    if !dec.ok() || dec.stdout != data {
        return fail(
            format!("exit 0, stdout[{} bytes]=0x{}", data.len(), truncate(&c.data_hex, 200)),
            observed(&dec),
            format!("`{}` applied to the output of `{}` must return the original {} bytes exactly", c.decode_argv.join(" "), c.encode_argv.join(" "), data.len()),
        );
    }
    cls.label(match data.len() {
        0 => "rt-len-0",
        1 => "rt-len-1",
        2..=255 => "rt-len-2..255",
        256..=4095 => "rt-len-256..4095",
        _ => "rt-len>=4096",
    });
    cls.label(&format!("rt-encode-{}", channel_label(&c.encode_argv)));
    cls.label(&format!("rt-decode-{}", channel_label(&c.decode_argv)));
    if std::str::from_utf8(&data).is_err() {
        cls.label("rt-data-not-utf8");
    }
    if data.iter().any(|b| matches!(b, b'\n' | b'\r' | b' ' | b'\t')) {
        cls.label("rt-data-contains-white-space-bytes");
    }
    if data.last() == Some(&b'\n') {
        cls.label("rt-data-ends-in-newline");
    }
    if !data.is_empty() && !ascii_text(&data) {
        cls.label("rt-binary");
        cls.nontrivial(&("rt", &data));
        cls.sample("roundtrip-binary", || json!({"data": truncate(&c.data_hex, 96), "len": data.len(), "encode_argv": c.encode_argv, "decode_argv": c.decode_argv}));
    } else {
        cls.label("rt-trivial(empty-or-ascii-text)");
        cls.sample("roundtrip-text", || json!({"data": preview(&data), "encode_argv": c.encode_argv, "decode_argv": c.decode_argv}));
    }
    Ok(())
}

// ---------------------------------------------------------------- (b) one decode run

#[derive(Clone, Debug, Default, Serialize, Deserialize)]
pub struct Model {
    /// bytes the text was rendered from (absent for hand-written inputs)
    pub data_hex: Option<String>,
    pub prefix: bool,
    pub case_mode: u8,
    pub ws_mode: u8,
    pub seed: u64,
    /// mutation applied after rendering (malformed / unspecified inputs)
    pub defect: Option<String>,
}

#[derive(Clone, Debug, Serialize, Deserialize)]
pub struct Decode {
    pub argv: Vec<String>,
    /// the exact input bytes (file content or stdin)
    pub input_hex: String,
    /// the same, escaped, for the reader
    pub input_preview: String,
    pub model: Model,
}

impl Decode {
    fn new(channel: u8, input: &[u8], model: Model) -> Decode {
        Decode { argv: argv("decode", channel), input_hex: hex_lower(input), input_preview: preview(input), model }
    }
}

/// Class labels describing the layout of an accepted spelling.
fn layout_labels(text: &str, cls: &mut Classifier) -> bool {
    let chars: Vec<char> = text.chars().collect();
    let sig: Vec<usize> = (0..chars.len()).filter(|i| !decided_ws(chars[*i])).collect();
    let has_prefix = sig.len() >= 2 && chars[sig[0]] == '0' && chars[sig[1]] == 'x';
    let digits = if has_prefix { &sig[2..] } else { &sig[..] };
    cls.label(if has_prefix { "layout-prefix" } else { "layout-no-prefix" });
    let up = digits.iter().any(|i| chars[*i].is_ascii_uppercase());
    let lo = digits.iter().any(|i| chars[*i].is_ascii_lowercase());
    cls.label(match (up, lo) {
        (true, true) => "layout-case-mixed",
        (true, false) => "layout-case-upper",
        (false, true) => "layout-case-lower",
        (false, false) => "layout-case-no-letters",
    });
    let any_ws = sig.len() != chars.len();
    let mut inner = false;
    let mut splits = false;
    for (k, w) in digits.windows(2).enumerate() {
        if w[1] != w[0] + 1 {
            inner = true;
            if k % 2 == 0 {
                splits = true;
            }
        }
    }
    if !any_ws {
        cls.label("layout-ws-none");
    }
    if inner {
        cls.label("layout-ws-between-digits");
    }
    if splits {
        cls.label("layout-ws-splits-a-byte");
    }
    if chars.first().map(|c| decided_ws(*c)).unwrap_or(false) {
        cls.label("layout-ws-leading");
    }
    if chars.last().map(|c| decided_ws(*c)).unwrap_or(false) {
        cls.label("layout-ws-trailing");
    }
    if has_prefix && !digits.is_empty() && digits[0] != sig[1] + 1 {
        cls.label("layout-ws-after-prefix");
    }
    if text.contains('\r') {
        cls.label("layout-ws-has-cr");
    }
    if text.contains('\t') {
        cls.label("layout-ws-has-tab");
    }
    any_ws || up || !has_prefix
}

fn judge_decode(c: &Decode, cls: &mut Classifier) -> Verdict {
    let Some(input) = unhex(&c.input_hex) else {
        return fail("hex", c.input_hex.clone(), "bad replay case");
    };
    let want = reference(&input);
    let out = run_cli(&c.argv, &input);
    if out.timed_out {
        cls.label(TIMEOUT_LABEL);
        return Ok(());
    }
    let cmd = c.argv.join(" ");
    let shown = preview(&input);
    match want {
        Expect::Unspecified(why) => {
            if out.panicked() {
                return fail("a result or an ordinary error", observed(&out), format!("`{cmd}` panicked on input \"{shown}\" (input class {why}, otherwise undecided)"));
            }
            cls.unspecified(why);
            cls.label("decode-unspecified(no-panic-only)");
            cls.sample(&format!("unspecified-{why}"), || json!({"input": shown, "argv": c.argv, "exit": out.code, "stdout": hex_lower(&out.stdout)}));
        }
        Expect::Bytes(bytes) => {
            if !out.ok() || out.stdout != bytes {
                return fail(
                    format!("exit 0, stdout[{} bytes]=0x{}", bytes.len(), truncate(&hex_lower(&bytes), 200)),
                    observed(&out),
                    format!("`{cmd}` on input \"{shown}\": white space, digit case and an optional 0x prefix must not change the decoded bytes"),
                );
            }
            cls.label("decode-accepted");
            cls.label(&format!("decode-{}", channel_label(&c.argv)));
            let text = std::str::from_utf8(&input).expect("reference accepted only UTF-8");
            let spelled = layout_labels(text, cls);
            if bytes.is_empty() {
                cls.label("layout-zero-digits");
            }
            if !bytes.is_empty() && !ascii_text(&bytes) && spelled {
                cls.nontrivial(&("dec", &input));
                cls.sample("decode-layout", || json!({"input": shown, "argv": c.argv, "bytes": truncate(&hex_lower(&bytes), 96)}));
            }
        }
        Expect::Reject(why) => {
            if out.panicked() {
                return fail("error exit (255) with empty stdout", observed(&out), format!("`{cmd}` panicked on malformed input ({why}) \"{shown}\""));
            }
            if !out.ordinary_error() {
                return fail("error exit (255) with empty stdout", observed(&out), format!("`{cmd}` accepted malformed input ({why}) \"{shown}\""));
            }
            if !out.stdout.is_empty() {
                return fail("error exit (255) with empty stdout", observed(&out), format!("`{cmd}` wrote output before rejecting malformed input ({why}) \"{shown}\""));
            }
            cls.label(&format!("rejected-{why}"));
            cls.label(&format!("rejected-{}", channel_label(&c.argv)));
            let digits = input.iter().filter(|b| b.is_ascii_hexdigit()).count();
            if digits >= 2 {
                cls.label("rejected-with>=2-digits");
                cls.nontrivial(&("rej", &input));
            }
            if input.starts_with(b"0x") {
                cls.label("rejected-with-prefix");
            }
            if input.iter().any(|b| decided_ws(*b as char)) {
                cls.label("rejected-with-white-space");
            }
            cls.sample(&format!("rejected-{why}"), || json!({"input": shown, "argv": c.argv, "exit": out.code, "stderr": truncate(&out.stderr_str(), 120)}));
        }
    }
    Ok(())
}

// ---------------------------------------------------------------- generators

fn special_data(class: u8, len: usize, seed: u64) -> Vec<u8> {
    let mut p = Prng::new(seed);
    let len = if seed & 1 == 1 { len % 48 } else { len };
    let from = |set: &[u8], p: &mut Prng| -> Vec<u8> { (0..len).map(|_| set[p.below(set.len() as u64) as usize]).collect() };
    match class % 10 {
        0 => vec![0u8; len],
        1 => vec![0xff; len],
        // every byte value in turn
        2 => (0..len).map(|i| (i as u64 + seed) as u8).collect(),
        // printable text (the trivial class)
        3 => from(b"abcdefghijklmnopqrstuvwxyz ABCXYZ0123456789.,:;!?-_/\n", &mut p),
        // data made of the very characters decode skips or interprets
        4 => from(b" \t\n\r", &mut p),
        5 => {
            let mut v = b"0x".to_vec();
            v.extend(from(b"0123456789abcdefABCDEF", &mut p));
            v.truncate(len.max(2));
            v
        }
        6 => {
            let mut s = String::new();
            let pool = ['\u{e9}', '\u{3b1}', '\u{4e2d}', '\u{1f600}', 'a', ' ', '\u{a0}', '\u{2028}'];
            while s.len() < len {
                s.push(pool[p.below(pool.len() as u64) as usize]);
            }
            s.into_bytes()
        }
        // trailing line ends must survive
        7 => {
            let mut v = p.bytes(len);
            v.extend_from_slice([&b"\n"[..], b"\r\n", b"\n\n", b" "][p.below(4) as usize]);
            v.truncate(MAX_LEN);
            v
        }
        8 => p.bytes(len).into_iter().map(|b| b | 0x80).collect(),
        // terminal/control bytes that text-mode handling would damage
        _ => from(&[0x00, 0x00, 0x04, 0x1a, 0x1b, 0x7f, 0x0a, 0x0d, 0xff, 0x30, 0x78], &mut p),
    }
}

fn data_strategy() -> impl Strategy<Value = Vec<u8>> {
    use proptest::collection::vec;
    prop_oneof![
        3 => vec(any::<u8>(), 0..=8usize),
        4 => vec(any::<u8>(), 0..=200usize),
        2 => vec(any::<u8>(), 0..=MAX_LEN),
        1 => vec(any::<u8>(), MAX_LEN - 3..=MAX_LEN),
        3 => (0u8..10, 0usize..=MAX_LEN, any::<u64>()).prop_map(|(c, l, s)| special_data(c, l, s)),
    ]
}

fn roundtrip_strategy() -> impl Strategy<Value = RoundTrip> {
    (data_strategy(), 0u8..3, 0u8..3).prop_map(|(d, e, c)| RoundTrip {
        data_hex: hex_lower(&d),
        encode_argv: argv("encode", e),
        decode_argv: argv("decode", c),
    })
}

#[derive(Clone, Debug, PartialEq, Eq)]
enum Tok {
    Prefix,
    Digit(u8),
    Ws(&'static str),
    Junk(Vec<u8>),
}

const WS: [&str; 13] = [" ", "\n", "\t", "\r", "\r\n", "  ", " \t", "\n\n", " \r\n\t ", "\t\t\n", "\x0b", "\x0c", " \x0b\x0c "];
const CASE_MODES: u8 = 4;
const WS_MODES: u8 = 11;

/// Renders `data` as hex digits with the chosen prefix, digit case and
/// white-space layout. White space is never put inside the prefix.
fn render(data: &[u8], m: &Model) -> Vec<Tok> {
    let mut p = Prng::new(m.seed);
    let plain = hex_lower(data).into_bytes();
    let n = plain.len();
    let digits: Vec<u8> = plain
        .iter()
        .enumerate()
        .map(|(i, d)| {
            let upper = match m.case_mode % CASE_MODES {
                0 => false,
                1 => true,
                2 => p.below(2) == 1,
                _ => i % 2 == 0,
            };
            if upper {
                d.to_ascii_uppercase()
            } else {
                *d
            }
        })
        .collect();
    let ws = |p: &mut Prng| Tok::Ws(WS[p.below(WS.len() as u64) as usize]);
    // gap[i] precedes digit i; gap[n] follows the last digit
    let mut gaps: Vec<Vec<Tok>> = vec![vec![]; n + 1];
    let mut lead: Vec<Tok> = vec![];
    match m.ws_mode % WS_MODES {
        0 => {}
        1 => gaps[n].push(Tok::Ws("\n")),
        2 => {
            lead.push(ws(&mut p));
            gaps[n].push(ws(&mut p));
        }
        // "de ad be ef"
        3 => (2..n).step_by(2).for_each(|i| gaps[i].push(Tok::Ws(" "))),
        // every digit on its own
        4 => (1..n).for_each(|i| gaps[i].push(ws(&mut p))),
        5 => (0..=n).for_each(|i| {
            if p.below(8) == 0 {
                gaps[i].push(ws(&mut p))
            }
        }),
        // wrapped lines, like `xxd -p` / openssl
        6 | 7 => {
            let eol = if m.ws_mode % WS_MODES == 6 { "\n" } else { "\r\n" };
            let width = [60usize, 64, 32, 2, 7][p.below(5) as usize];
            (width..n).step_by(width).for_each(|i| gaps[i].push(Tok::Ws(eol)));
            gaps[n].push(Tok::Ws(eol));
        }
        // a single break in the middle of one byte
        8 => {
            if n > 0 {
                let i = 1 + 2 * p.below((n / 2) as u64) as usize;
                gaps[i].push(ws(&mut p));
            }
        }
        9 => {
            lead.push(ws(&mut p));
            gaps[0].push(ws(&mut p));
        }
        _ => (0..=n).for_each(|i| {
            if p.below(2) == 0 {
                for _ in 0..1 + p.below(3) {
                    gaps[i].push(ws(&mut p))
                }
            }
        }),
    }
    let mut out = lead;
    if m.prefix {
        out.push(Tok::Prefix);
    }
    for (i, g) in gaps.into_iter().enumerate() {
        out.extend(g);
        if i < n {
            out.push(Tok::Digit(digits[i]));
        }
    }
    out
}

fn flatten(toks: &[Tok]) -> Vec<u8> {
    let mut v = vec![];
    for t in toks {
        match t {
            Tok::Prefix => v.extend_from_slice(b"0x"),
            Tok::Digit(d) => v.push(*d),
            Tok::Ws(s) => v.extend_from_slice(s.as_bytes()),
            Tok::Junk(j) => v.extend_from_slice(j),
        }
    }
    v
}

/// data for layout-type cases: mostly short (layouts multiply the size), all lengths reachable
fn layout_data() -> impl Strategy<Value = Vec<u8>> {
    use proptest::collection::vec;
    prop_oneof![
        4 => vec(any::<u8>(), 0..=6usize),
        5 => vec(any::<u8>(), 1..=80usize),
        1 => vec(any::<u8>(), 0..=MAX_LEN),
        1 => (0u8..10, 0usize..=300, any::<u64>()).prop_map(|(c, l, s)| special_data(c, l, s)),
    ]
}

fn model_strategy() -> impl Strategy<Value = (Vec<u8>, Model, u8)> {
    (layout_data(), any::<bool>(), 0..CASE_MODES, 0..WS_MODES, any::<u64>(), 0u8..3).prop_map(|(d, prefix, case_mode, ws_mode, seed, ch)| {
        let m = Model { data_hex: Some(hex_lower(&d)), prefix, case_mode, ws_mode, seed, defect: None };
        (d, m, ch)
    })
}

fn layout_strategy() -> impl Strategy<Value = Decode> {
    model_strategy().prop_map(|(d, m, ch)| {
        let input = flatten(&render(&d, &m));
        assert_eq!(reference(&input), Expect::Bytes(d), "harness: a rendered layout must decode to its data under the reference");
        Decode::new(ch, &input, m)
    })
}

const NON_HEX: &[&str] = &[
    "g", "G", "x", "X", "z", "o", "O", "l", "h", "H", "-", "+", "_", ".", ",", ":", ";", "/", "\\", "#", "$", "%", "\"", "'", "=", "@", "`", "|", "~", "*",
    "\0", "\x01", "\x7f", "\u{e9}", "\u{ff10}", "\u{ff41}", "\u{660}", "\u{1f600}", "0x", "\u{430}",
];

const NOT_UTF8: &[&[u8]] = &[b"\xff", b"\xfe", b"\xc0\xaf", b"\x80", b"\xc3", b"\xed\xa0\x80", b"\xf8\x88\x80\x80\x80", b"\xe2\x82", b"\xf4\x90\x80\x80"];

const DEFECTS: &[&str] = &[
    "odd-drop-digit",
    "odd-add-digit",
    "non-hex-inserted",
    "non-hex-replaces-digit",
    "non-hex-at-end",
    "non-hex-before-everything",
    "second-prefix",
    "prefix-not-at-start",
    "not-utf8",
];

fn digit_positions(t: &[Tok]) -> Vec<usize> {
    (0..t.len()).filter(|i| matches!(t[*i], Tok::Digit(_))).collect()
}

/// Applies one defect to a well-formed token list.
fn corrupt(mut t: Vec<Tok>, defect: &str, p: &mut Prng) -> Vec<Tok> {
    let dp = digit_positions(&t);
    // index in `t` of a gap among the digits (never before the prefix)
    let first = t.iter().position(|k| *k == Tok::Prefix).map(|i| i + 1).unwrap_or(0);
    let gap = |p: &mut Prng| -> usize {
        if dp.is_empty() {
            first
        } else {
            let k = p.below(dp.len() as u64 + 1) as usize;
            if k == dp.len() {
                dp[k - 1] + 1
            } else {
                dp[k]
            }
        }
    };
    let junk = |p: &mut Prng| Tok::Junk(NON_HEX[p.below(NON_HEX.len() as u64) as usize].as_bytes().to_vec());
    let some_digit = |p: &mut Prng| Tok::Digit(b"0123456789abcdefABCDEF"[p.below(22) as usize]);
    match defect {
        "odd-drop-digit" if !dp.is_empty() => {
            let i = dp[p.below(dp.len() as u64) as usize];
            t.remove(i);
        }
        "odd-drop-digit" | "odd-add-digit" => {
            let i = gap(p);
            let d = some_digit(p);
            t.insert(i, d);
        }
        "non-hex-replaces-digit" if !dp.is_empty() => {
            let i = dp[p.below(dp.len() as u64) as usize];
            t[i] = junk(p);
        }
        "non-hex-inserted" | "non-hex-replaces-digit" => {
            let i = gap(p);
            let j = junk(p);
            t.insert(i, j);
        }
        "non-hex-at-end" => {
            let j = junk(p);
            match p.below(2) {
                0 => t.push(j),
                _ => {
                    let i = dp.last().map(|i| i + 1).unwrap_or(t.len());
                    t.insert(i, j)
                }
            }
        }
        "non-hex-before-everything" => {
            let j = junk(p);
            t.insert(0, j);
        }
        "second-prefix" => {
            let i = match p.below(3) {
                0 => first,
                1 => 0,
                _ => gap(p),
            };
            if !t.contains(&Tok::Prefix) {
                t.insert(0, Tok::Prefix);
                t.insert(i.max(1), Tok::Junk(b"0x".to_vec()));
            } else {
                t.insert(i, Tok::Junk(b"0x".to_vec()));
            }
        }
        "prefix-not-at-start" => {
            t.retain(|k| *k != Tok::Prefix);
            let dp = digit_positions(&t);
            // at the very end, or in front of a digit other than the first
            let i = if dp.len() < 2 || p.below(3) == 0 { t.len() } else { dp[1 + p.below(dp.len() as u64 - 1) as usize] };
            t.insert(i, Tok::Junk([&b"0x"[..], b"x", b"0X"][p.below(3) as usize].to_vec()));
            if !matches!(reference(&flatten(&t)), Expect::Reject(_)) {
                // the moved prefix ended up where a prefix may stand: put a digit pair in front
                t.insert(0, Tok::Digit(b'1'));
                t.insert(1, Tok::Digit(b'2'));
            }
        }
        _ => {
            let i = p.below(t.len() as u64 + 1) as usize;
            t.insert(i, Tok::Junk(NOT_UTF8[p.below(NOT_UTF8.len() as u64) as usize].to_vec()));
        }
    }
    t
}

fn malformed_strategy() -> impl Strategy<Value = Decode> {
    (model_strategy(), 0usize..DEFECTS.len()).prop_map(|((d, mut m, ch), k)| {
        let base = render(&d, &m);
        let defect = DEFECTS[k];
        m.defect = Some(defect.to_string());
        // a junk character can by accident complete a prefix ("0" + "x"); retry with the next draw
        for attempt in 0..16u64 {
            let mut p = Prng::new(m.seed ^ attempt.wrapping_mul(0x9e3779b97f4a7c15));
            let input = flatten(&corrupt(base.clone(), defect, &mut p));
            if matches!(reference(&input), Expect::Reject(_)) {
                if attempt > 0 {
                    m.defect = Some(format!("{defect}#{attempt}"));
                }
                return Decode::new(ch, &input, m);
            }
        }
        let mut input = flatten(&base);
        input.push(b'g');
        assert!(matches!(reference(&input), Expect::Reject(_)), "harness: fallback malformed input");
        m.defect = Some("non-hex-at-end(fallback)".into());
        Decode::new(ch, &input, m)
    })
}

const OTHER_WS: &[char] = &[
    '\u{85}', '\u{a0}', '\u{1680}', '\u{2003}', '\u{2009}', '\u{2028}', '\u{2029}', '\u{202f}', '\u{205f}', '\u{3000}', '\u{200b}', '\u{feff}',
    '\u{1f}', '\u{1c}',
];

/// Inputs the property leaves open: other white space, white space inside
/// the prefix, `0X`. Digits may or may not be well formed.
fn unspecified_strategy() -> impl Strategy<Value = Decode> {
    (model_strategy(), 0u8..3, any::<bool>()).prop_map(|((d, mut m, ch), kind, also_broken)| {
        let mut p = Prng::new(m.seed ^ 0x5eed);
        let mut t = render(&d, &m);
        if also_broken {
            t = corrupt(t, DEFECTS[p.below(5) as usize], &mut p);
        }
        let name = match kind {
            0 => {
                let c = OTHER_WS[p.below(OTHER_WS.len() as u64) as usize];
                let i = p.below(t.len() as u64 + 1) as usize;
                t.insert(i, Tok::Junk(c.to_string().into_bytes()));
                "other-white-space"
            }
            1 => {
                t.retain(|k| *k != Tok::Prefix);
                let mut pre = vec![Tok::Junk(b"0".to_vec()), Tok::Ws(WS[p.below(WS.len() as u64) as usize]), Tok::Junk(b"x".to_vec())];
                pre.append(&mut t);
                t = pre;
                "white-space-inside-prefix"
            }
            _ => {
                t.retain(|k| *k != Tok::Prefix);
                let at = t.iter().position(|k| !matches!(k, Tok::Ws(_))).unwrap_or(t.len());
                t.insert(at, Tok::Junk(b"0X".to_vec()));
                "upper-case-0X-prefix"
            }
        };
        m.defect = Some(format!("unspecified:{name}{}", if also_broken { "+defect" } else { "" }));
        let mut input = flatten(&t);
        if !matches!(reference(&input), Expect::Unspecified(_)) {
            input.extend_from_slice("\u{a0}".as_bytes());
        }
        assert!(matches!(reference(&input), Expect::Unspecified(_)), "harness: the unspecified generator produced a decided input {:?}", preview(&input));
        Decode::new(ch, &input, m)
    })
}

// ---------------------------------------------------------------- at a terminal

/// The same commands with a pseudo-terminal as standard output or standard input (a user at a shell prompt):
/// the bytes written and the bytes taken from the input are the same as through a pipe.
#[derive(Clone, Debug, Serialize, Deserialize)]
pub struct TtyCase {
    /// encode | decode
    pub op: String,
    pub data_hex: String,
    pub stdout_tty: bool,
    /// the input is typed at a terminal (text lines only)
    pub stdin_tty: bool,
}

fn judge_tty(c: &TtyCase, cls: &mut Classifier) -> Verdict {
    let Some(data) = unhex(&c.data_hex) else { return fail("hex", c.data_hex.clone(), "bad replay case") };
    let (input, want): (Vec<u8>, Vec<u8>) = if c.op == "encode" { (data.clone(), format!("0x{}\n", hex_lower(&data)).into_bytes()) } else { (format!("0x{}\n", hex_lower(&data)).into_bytes(), data.clone()) };
    let args = ["hex", c.op.as_str(), "-"];
    let Some(out) = cli::run_tty(cli_path(), &args, &input, c.stdin_tty, c.stdout_tty) else {
        cls.label("tty-not-available-or-timeout");
        return Ok(());
    };
    let how = format!("`hdwallet hex {} -` with standard {} a terminal on {} input bytes", c.op, match (c.stdin_tty, c.stdout_tty) { (true, true) => "input and output", (true, false) => "input", _ => "output" }, input.len());
    if out.panicked() {
        return fail("a result", observed(&out), how);
    }
    if !out.ok() || out.stdout != want {
        return fail(format!("exit 0, stdout[{} bytes]={:?}", want.len(), preview(&want)), observed(&out), format!("{how}: the same bytes as through a pipe"));
    }
    cls.label("terminal");
    cls.label(if c.stdin_tty { "terminal-stdin" } else { "terminal-stdout" });
    cls.nontrivial(&("tty", c.op.as_str(), c.data_hex.as_str(), c.stdin_tty, c.stdout_tty));
    Ok(())
}

fn tty_cases(seed: u64, n: usize) -> Vec<TtyCase> {
    let mut p = Prng::new(seed);
    let mut v = vec![];
    for i in 0..n {
        let text: Vec<u8> = {
            // typed text: printable ASCII lines, mostly ending in a line feed
            let lines = 1 + p.below(3) as usize;
            let mut t = vec![];
            for _ in 0..lines {
                let len = p.below(40) as usize;
                t.extend((0..len).map(|_| 0x20 + p.below(0x5f) as u8));
                t.push(b'\n');
            }
            if i % 5 == 4 {
                t.pop();
            }
            t
        };
        let binary = p.bytes([0usize, 1, 2, 33, 255, 4096][i % 6]);
        match i % 4 {
            0 => v.push(TtyCase { op: "encode".into(), data_hex: hex_lower(&binary), stdout_tty: true, stdin_tty: false }),
            1 => v.push(TtyCase { op: "decode".into(), data_hex: hex_lower(&binary), stdout_tty: true, stdin_tty: false }),
            2 => v.push(TtyCase { op: "encode".into(), data_hex: hex_lower(&text), stdout_tty: false, stdin_tty: true }),
            _ => v.push(TtyCase { op: "decode".into(), data_hex: hex_lower(&text), stdout_tty: true, stdin_tty: false }),
        }
    }
    v
}

// ---------------------------------------------------------------- white space is ignored ANYWHERE

/// One character (decided or other white space, or a character that is no white space at all) inserted into the
/// same long digit string at two different offsets. "Decoding ignores whitespace anywhere": whatever the tool
/// takes for white space, where it stands cannot matter, so both inputs must have the same outcome. Offset A
/// makes the character's bytes straddle (or touch) a multiple of 4096 in the input - where an implementation
/// that reads in chunks changes buffers -, offset B is near the start or the end.
#[derive(Clone, Debug, Serialize, Deserialize)]
pub struct WsMove {
    pub argv: Vec<String>,
    pub data_len: usize,
    pub seed: u64,
    pub prefix: bool,
    pub ch: String,
    pub offset_a: usize,
    pub offset_b: usize,
}

fn ws_move_cases(n: usize, seed0: u64) -> Vec<WsMove> {
    const CHARS: [&str; 14] = [" ", "\n", "\r\n", "\t", "\u{a0}", "\u{85}", "\u{2003}", "\u{3000}", "\u{2028}", "\u{1680}", "\u{205f}", "\u{200b}", "\u{feff}", "\u{1f600}"];
    let mut v = vec![];
    for i in 0..n {
        let mut p = Prng::new(seed0 ^ (i as u64).wrapping_mul(0x9e3779b97f4a7c15));
        let data_len = [4096usize, 4097, 5000, 8192, 8193, 12_000, 33_000][p.below(7) as usize];
        let prefix = p.below(2) == 0;
        let text_len = 2 * data_len + if prefix { 2 } else { 0 };
        let ch = CHARS[i % CHARS.len()];
        let l = ch.len();
        let boundaries: Vec<usize> = [4096usize, 8192, 12_288, 16_384, 32_768, 65_536].into_iter().filter(|b| *b + 4 < text_len).collect();
        let b = boundaries[p.below(boundaries.len() as u64) as usize];
        // bytes [o, o+l) with o < b < o+l for multi-byte characters; for one-byte characters just before / at b
        let o = if l > 1 { b - 1 - p.below(l as u64 - 1) as usize } else { b - p.below(2) as usize };
        let lo = if prefix { 2 } else { 0 };
        let offset_b = match p.below(3) {
            0 => lo,
            1 => text_len,
            _ => lo + 1 + p.below(64) as usize,
        };
        v.push(WsMove { argv: argv("decode", (i / CHARS.len()) as u8), data_len, seed: p.next_u64(), prefix, ch: ch.to_string(), offset_a: o.max(lo), offset_b });
    }
    v
}

fn judge_ws_move(c: &WsMove, cls: &mut Classifier) -> Verdict {
    let data = Prng::new(c.seed).bytes(c.data_len);
    let mut text = String::with_capacity(2 * c.data_len + 8);
    if c.prefix {
        text.push_str("0x");
    }
    text.push_str(&hex_lower(&data));
    let place = |at: usize| -> Vec<u8> {
        let at = at.min(text.len());
        let mut s = text.clone();
        s.insert_str(at, &c.ch);
        s.into_bytes()
    };
    let (a, b) = (place(c.offset_a), place(c.offset_b));
    let (oa, ob) = (run_cli(&c.argv, &a), run_cli(&c.argv, &b));
    if oa.timed_out || ob.timed_out {
        cls.label(TIMEOUT_LABEL);
        return Ok(());
    }
    let cmd = c.argv.join(" ");
    let what = format!("U+{:04X}", c.ch.chars().next().map(|x| x as u32).unwrap_or(0));
    for o in [&oa, &ob] {
        if o.panicked() {
            return fail("a result or an ordinary error", observed(o), format!("`{cmd}` panicked on {} digits with {what} inserted", 2 * c.data_len));
        }
    }
    let class = |o: &CliOut| (o.ok(), o.stdout.clone());
    if class(&oa) != class(&ob) {
        return fail(
            format!("the same outcome as with the character at offset {}: {}", c.offset_b, observed(&ob)),
            observed(&oa),
            format!("`{cmd}` on {} digits{}: {what} at byte offset {} (bytes straddling or touching a multiple of 4096) vs at offset {}: white space is ignored anywhere, so where a character stands cannot change the outcome", 2 * c.data_len, if c.prefix { " after 0x" } else { "" }, c.offset_a, c.offset_b),
        );
    }
    // a decided white-space character must simply be ignored
    if c.ch.chars().all(decided_ws) && (!oa.ok() || oa.stdout != data) {
        return fail(format!("exit 0 and the {} original bytes", data.len()), observed(&oa), format!("`{cmd}` on {} digits with {what} at offset {}", 2 * c.data_len, c.offset_a));
    }
    cls.label(if oa.ok() { "ws-move-accepted" } else { "ws-move-refused" });
    if c.ch.len() > 1 {
        cls.label("ws-move-multibyte-straddles-4096-multiple");
    }
    cls.nontrivial(&("ws-move", c.data_len, c.seed, c.ch.as_str(), c.offset_a, c.offset_b));
    cls.sample("ws-move", || json!({"char": what, "digits": 2 * c.data_len, "offset_a": c.offset_a, "offset_b": c.offset_b, "accepted": oa.ok()}));
    Ok(())
}

// ---------------------------------------------------------------- fixed tables and sweeps

/// Hand-written spellings with the bytes they denote. Doubles as a self-test
/// of `reference` (asserted before anything is run).
const FIXED_VALID: &[(&str, &[u8])] = &[
    ("", b""),
    ("0x", b""),
    ("\n", b""),
    ("0x\n", b""),
    (" \t\r\n", b""),
    ("  0x  ", b""),
    ("00", &[0]),
    ("0x00", &[0]),
    ("0x0a", b"\n"),
    ("0x0D0a", b"\r\n"),
    ("0x20", b" "),
    ("ff", &[0xff]),
    ("FF", &[0xff]),
    ("fF", &[0xff]),
    ("0xDeAdBeEf\n", &[0xde, 0xad, 0xbe, 0xef]),
    ("de ad\tbe\nef\r\n", &[0xde, 0xad, 0xbe, 0xef]),
    ("d e a d b e e f", &[0xde, 0xad, 0xbe, 0xef]),
    ("\n\n0x\nd\ne\n", &[0xde]),
    ("0x3078", b"0x"),
    ("0x30783030", b"0x00"),
    ("0000", &[0, 0]),
    ("00\x0b11", &[0x00, 0x11]),
    ("\x0c0x\x0bff\x0c", &[0xff]),
    ("0x0123456789abcdefABCDEF", &[0x01, 0x23, 0x45, 0x67, 0x89, 0xab, 0xcd, 0xef, 0xab, 0xcd, 0xef]),
];

const FIXED_MALFORMED: &[&[u8]] = &[
    b"0", b"f", b"0x0", b"0xf", b"0x0\n", b"x", b"0xx", b"0x0x", b"0x0x00", b"00 0x", b"000x", b"x00", b"g", b"0g", b"g0", b"0xg0", b"0x0g", b"zz", b"0x zz",
    b"--", b"0x-1", b"-0x01", b"+1", b"0x1 ", b"1 2 3", b"0x\n1", b"abc", b"0xabc", b"12 34 5", b"0h", b"1_0", b"0x12,34", b"0x12;", b"12:34", b"0o17", b"#ff", b"\\x41",
    b"0x12\0", b"\0", b"\xff", b"12\xff", b"\xc3", b"0x\xc3\x28", b"12\xed\xa0\x8034",
];

const FIXED_UNSPECIFIED: &[&str] = &["0X00", "0X", "00\u{a0}11", "\u{feff}0x00", "0 X0", "0\u{a0}x00"];

/// (c) every byte value at six positions: as a lone input, next to one
/// digit, inside and after a prefixed pair, between two pairs.
fn char_sweep() -> Vec<Decode> {
    let mut v = vec![];
    for b in 0..=255u8 {
        let forms: [Vec<u8>; 6] =
            [vec![b], vec![b, b'4'], vec![b'4', b], vec![b'0', b'x', b, b'4'], vec![b'0', b'x', b'4', b], vec![b'1', b'2', b, b'3', b'4']];
        for (k, f) in forms.iter().enumerate() {
            v.push(Decode::new((b as usize + k) as u8, f, Model { defect: Some(format!("byte-{b:#04x}-form-{k}")), ..Model::default() }));
        }
    }
    v
}

/// (d) all 22 x 22 two-digit spellings
fn pair_sweep() -> Vec<Decode> {
    let d = b"0123456789abcdefABCDEF";
    let mut v = vec![];
    for (i, a) in d.iter().enumerate() {
        for (j, b) in d.iter().enumerate() {
            let k = i * 22 + j;
            let mut input = if k % 2 == 0 { b"0x".to_vec() } else { vec![] };
            input.extend_from_slice(&[*a, *b]);
            if k % 3 == 0 {
                input.push(b'\n');
            }
            v.push(Decode::new(k as u8, &input, Model { prefix: k % 2 == 0, ..Model::default() }));
        }
    }
    v
}

// ---------------------------------------------------------------- run

fn setup(ctx: &Ctx) {
    if let Some(c) = &ctx.cli {
        let _ = CLI.set(c.clone());
    }
    let _ = ROOT.set(ctx.root.clone());
}

pub fn run(ctx: &mut Ctx) {
    setup(ctx);
    ctx.rule = "CLI subprocess runs of the overflow-checked build, input by stdin (default and explicit `-`), by file (with decoy stdin), and - in a fixed table of lengths 0..70000 and malformed texts - by paths that are not regular files (/dev/stdin, a FIFO). (a) byte strings of length 0..=4096 (uniform bytes; all-0, all-ff, every byte value in turn, text, white-space bytes, hex-looking text, UTF-8, trailing line ends, bytes >= 0x80, control bytes; every single byte value and every length of a range as sweeps): `hex encode` must print exactly 0x + lower-case digits + newline and `hex decode` of that very output must return the bytes. (b) the digits of such strings re-spelled: 0x present/absent, digit case lower/upper/random/alternating, 11 white-space layouts over the six ASCII white-space characters {space, tab, LF, VT, FF, CR} (ends, between bytes, between the two digits of a byte, wrapped lines, after the prefix, dense runs): must decode to the same bytes. (c) malformed inputs made from a well-formed spelling by one defect (digit dropped/added, non-hex character inserted/replacing a digit/at either end, second or misplaced prefix, bytes that are not UTF-8), every byte value at six positions, all 484 two-digit spellings, hand-written tables: error exit and empty stdout. Oracle: a reference decoder written from the property text (own nibble table; decides the six ASCII white-space characters - also between the 0 and the x of the prefix - and the lower-case 0x). Undecided inputs (other white space, 0X) are only required not to panic. (e) at a terminal: encode/decode with a pseudo-terminal as standard output (binary and text data) and typed text on a pseudo-terminal as standard input must give the same bytes as through a pipe. (d) position independence: one character (ASCII or other white space, zero-width characters, an emoji) inserted into the same 8192..66000-digit string once so that its bytes straddle or touch a multiple of 4096 and once near an end: both inputs must have the same outcome (and a decided white-space character must be ignored). Non-trivial: data non-empty and not ASCII text (round trip: distinct by data; layouts: spelling differs from the canonical one, distinct by input text), malformed inputs with at least two hex digits (distinct by input).".into();
    ctx.assumptions = vec![
        "exit 255 or 2 without panic text is an ordinary error; nothing is required of stderr".into(),
        "white space other than the six ASCII characters space, tab, LF, VT, FF, CR (that is, non-ASCII Unicode white space, zero-width characters, 0x1c-0x1f) and an upper-case 0X prefix are not decided by the property (checked for absence of panic only)".into(),
        "the observed executable is the overflow-checked release build".into(),
    ];
    for (text, bytes) in FIXED_VALID {
        assert_eq!(reference(text.as_bytes()), Expect::Bytes(bytes.to_vec()), "harness: reference on {text:?}");
    }
    for m in FIXED_MALFORMED.iter().copied() {
        assert!(matches!(reference(m), Expect::Reject(_)), "harness: reference on {:?}", preview(m));
    }
    for u in FIXED_UNSPECIFIED {
        assert!(matches!(reference(u.as_bytes()), Expect::Unspecified(_)), "harness: reference on {u:?}");
    }

    let timed_out = Cell::new(false);
    ctx.replay_known_and_regressions(&|sub, case| {
        let (v, t) = replay_inner(sub, case);
        if t {
            timed_out.set(true);
        }
        v
    });
    if timed_out.get() {
        ctx.inconclusive("watchdog timeout while replaying a regression case");
    }
    let t = ctx.tier;

    // (a)
    ctx.run_prop("roundtrip", t.pick(800, 30_000), roundtrip_strategy, judge_roundtrip);
    let singles: Vec<RoundTrip> = (0..=255u8)
        .map(|b| RoundTrip { data_hex: hex_lower(&[b]), encode_argv: argv("encode", b), decode_argv: argv("decode", b / 3) })
        .collect();
    ctx.run_cases("roundtrip-single-byte", &singles, judge_roundtrip);
    ctx.exhaustive_parts.push("round trip of all 256 one-byte strings".into());
    let step = t.pick(8, 1);
    let mut lens: Vec<usize> = (0..=MAX_LEN).filter(|l| *l <= 300 || l % step == 0 || *l >= MAX_LEN - 2).collect();
    lens.dedup();
    let by_len: Vec<RoundTrip> = lens
        .iter()
        .map(|l| {
            let mut p = Prng::new(ctx.sub_seed("roundtrip-length", *l as u64));
            RoundTrip { data_hex: hex_lower(&p.bytes(*l)), encode_argv: argv("encode", p.below(3) as u8), decode_argv: argv("decode", p.below(3) as u8) }
        })
        .collect();
    ctx.run_cases("roundtrip-length", &by_len, judge_roundtrip);
    ctx.exhaustive_parts.push(format!("round trip at every length 0..=300 and every {step}th length up to 4096 (random content)"));

    // input paths that are not regular files: /dev/stdin and a FIFO (their size is reported as 0)
    let special = |op: &str, path: &str| vec!["hex".to_string(), op.to_string(), path.to_string()];
    let mut sp_rt = vec![];
    let mut sp_dec = vec![];
    for (i, len) in [0usize, 1, 2, 3, 33, 100, 1023, 1024, 1025, 4096, 5000, 70_000].iter().enumerate() {
        let mut p = Prng::new(ctx.sub_seed("special-paths", *len as u64));
        let mut data = p.bytes(*len);
        if *len >= 3 {
            data[len / 2] = b'\n';
        }
        for (e, dch) in [("/dev/stdin", FIFO_ARG), (FIFO_ARG, "/dev/stdin"), (FIFO_ARG, FIFO_ARG), ("/dev/stdin", "/dev/stdin")] {
            if (i + e.len() + dch.len()) % 2 == 0 || *len <= 3 {
                sp_rt.push(RoundTrip { data_hex: hex_lower(&data), encode_argv: special("encode", e), decode_argv: special("decode", dch) });
            }
        }
    }
    for path in ["/dev/stdin", FIFO_ARG] {
        for m in [&b"0x123"[..], b"0xzz", b"f", b"0x00 0", b"12 3g"] {
            sp_dec.push(Decode { argv: special("decode", path), input_hex: hex_lower(m), input_preview: preview(m), model: Model::default() });
        }
        for (text, bytes) in [("0x00ff", &[0x00u8, 0xff][..]), ("de ad\nbe ef\n", &[0xde, 0xad, 0xbe, 0xef][..]), ("", &[][..])] {
            sp_dec.push(Decode { argv: special("decode", path), input_hex: hex_lower(text.as_bytes()), input_preview: preview(text.as_bytes()), model: Model { data_hex: Some(hex_lower(bytes)), ..Model::default() } });
        }
    }
    ctx.run_cases("special-paths", &sp_rt, judge_roundtrip);
    ctx.run_cases("special-paths-decode", &sp_dec, judge_decode);

    // (b)
    ctx.run_prop("layout", t.pick(1500, 40_000), layout_strategy, judge_decode);
    let fixed: Vec<Decode> = FIXED_VALID
        .iter()
        .enumerate()
        .map(|(i, (text, bytes))| Decode::new(i as u8, text.as_bytes(), Model { data_hex: Some(hex_lower(bytes)), ..Model::default() }))
        .collect();
    ctx.run_cases("layout-fixed", &fixed, judge_decode);
    ctx.run_cases("pair-sweep", &pair_sweep(), judge_decode);
    // white space inside the prefix itself
    let mut split = vec![];
    for (wi, ws) in WS.iter().enumerate() {
        for (li, len) in [0usize, 1, 2, 33].iter().enumerate() {
            let data = Prng::new(ctx.sub_seed("prefix-split", (wi * 10 + li) as u64)).bytes(*len);
            let digits = if wi % 2 == 0 { hex_lower(&data) } else { hex_lower(&data).to_uppercase() };
            let lead = if li % 2 == 1 { *ws } else { "" };
            let text = format!("{lead}0{ws}x{}{digits}", if li == 3 { *ws } else { "" });
            split.push(Decode::new((wi + li) as u8, text.as_bytes(), Model { data_hex: Some(hex_lower(&data)), prefix: true, defect: Some("white-space-inside-prefix".into()), ..Model::default() }));
        }
    }
    ctx.run_cases("layout-fixed", &split, judge_decode);
    ctx.exhaustive_parts.push("all 484 two-digit spellings over [0-9a-fA-F]".into());

    // (c)
    ctx.run_prop("malformed", t.pick(1200, 30_000), malformed_strategy, judge_decode);
    let mut fixed: Vec<Decode> = vec![];
    for ch in 0..3u8 {
        for m in FIXED_MALFORMED {
            fixed.push(Decode::new(ch, m, Model::default()));
        }
    }
    ctx.run_cases("malformed-fixed", &fixed, judge_decode);
    ctx.run_cases("char-sweep", &char_sweep(), judge_decode);
    ctx.exhaustive_parts.push("every byte value 0..=255 at six positions of a short input (alone, before/after a digit, inside/after a prefixed pair, between two pairs)".into());

    // at a terminal
    let tty = tty_cases(ctx.sub_seed("tty", 0), t.pick(48, 600));
    ctx.run_cases("terminal", &tty, judge_tty);
    if ctx.cls.count("tty-not-available-or-timeout") > 0 {
        ctx.inconclusive(format!("{} terminal runs could not be made (no pseudo-terminal or time-out)", ctx.cls.count("tty-not-available-or-timeout")));
    }

    // position independence of white space in long inputs
    let moves = ws_move_cases(t.pick(140, 4200), ctx.sub_seed("ws-move", 0));
    ctx.run_cases("ws-move", &moves, judge_ws_move);

    // undecided inputs: no panic
    ctx.run_prop("unspecified", t.pick(300, 6000), unspecified_strategy, judge_decode);
    let fixed: Vec<Decode> = FIXED_UNSPECIFIED.iter().enumerate().map(|(i, u)| Decode::new(i as u8, u.as_bytes(), Model::default())).collect();
    ctx.run_cases("unspecified-fixed", &fixed, judge_decode);

    let timeouts = ctx.cls.count(TIMEOUT_LABEL);
    if timeouts > 0 {
        ctx.inconclusive(format!("{timeouts} CLI runs hit the {} s watchdog", TIMEOUT.as_secs()));
    }

    // generator health (labels are put on judged-good cases only, so the
    // counts mean nothing once a violation has been reported)
    if !ctx.violations.is_empty() {
        return;
    }
    let rt = t.pick(800, 30_000) as u64;
    ctx.floor("rt-binary", rt, 0.6);
    ctx.floor_abs("rt-len-0", 3);
    ctx.floor_abs("rt-len-1", 256);
    ctx.floor_abs("rt-len>=4096", 4);
    ctx.floor("rt-len-256..4095", rt, 0.1);
    ctx.floor("rt-data-not-utf8", rt, 0.4);
    ctx.floor("rt-data-ends-in-newline", rt, 0.005);
    for ch in ["channel-file", "channel-stdin-dash", "channel-stdin-default"] {
        ctx.floor(&format!("rt-encode-{ch}"), rt, 0.2);
        ctx.floor(&format!("rt-decode-{ch}"), rt, 0.2);
        ctx.floor(&format!("decode-{ch}"), rt, 0.2);
        ctx.floor(&format!("rejected-{ch}"), rt, 0.2);
    }
    let lay = t.pick(1500, 40_000) as u64;
    for (l, f) in [
        ("layout-prefix", 0.3),
        ("layout-no-prefix", 0.3),
        ("layout-case-mixed", 0.2),
        ("layout-case-upper", 0.1),
        ("layout-case-lower", 0.1),
        ("layout-ws-none", 0.05),
        ("layout-ws-between-digits", 0.3),
        ("layout-ws-splits-a-byte", 0.2),
        ("layout-ws-leading", 0.1),
        ("layout-ws-trailing", 0.2),
        ("layout-ws-after-prefix", 0.03),
        ("layout-ws-has-cr", 0.1),
        ("layout-ws-has-tab", 0.1),
        ("layout-zero-digits", 0.005),
    ] {
        ctx.floor(l, lay, f);
    }
    let mal = t.pick(1200, 30_000) as u64;
    for (l, f) in [
        ("rejected-odd", 0.15),
        ("rejected-non-hex", 0.2),
        ("rejected-non-hex+odd", 0.05),
        ("rejected-non-utf8", 0.05),
        ("rejected-with>=2-digits", 0.6),
        ("rejected-with-prefix", 0.2),
        ("rejected-with-white-space", 0.3),
    ] {
        ctx.floor(l, mal, f);
    }
    ctx.floor_abs("ws-move-multibyte-straddles-4096-multiple", t.pick(80, 2400));
    ctx.floor("decode-unspecified(no-panic-only)", t.pick(300, 6000) as u64, 0.9);
}

fn replay_inner(sub: &str, case: &Value) -> (Option<Verdict>, bool) {
    let mut cls = Classifier::default();
    let bad = |e: serde_json::Error| fail("a case of this sub-check's type", format!("{e}"), "replay file does not match the sub-check's case type");
    let v = match sub {
        "roundtrip" | "roundtrip-single-byte" | "roundtrip-length" | "special-paths" => match serde_json::from_value::<RoundTrip>(case.clone()) {
            Ok(c) => judge_roundtrip(&c, &mut cls),
            Err(e) => bad(e),
        },
        "layout" | "layout-fixed" | "pair-sweep" | "malformed" | "malformed-fixed" | "char-sweep" | "unspecified" | "unspecified-fixed" | "decode" | "special-paths-decode" => {
            match serde_json::from_value::<Decode>(case.clone()) {
                Ok(c) => judge_decode(&c, &mut cls),
                Err(e) => bad(e),
            }
        }
        "terminal" => match serde_json::from_value::<TtyCase>(case.clone()) {
            Ok(c) => judge_tty(&c, &mut cls),
            Err(e) => bad(e),
        },
        "ws-move" => match serde_json::from_value::<WsMove>(case.clone()) {
            Ok(c) => judge_ws_move(&c, &mut cls),
            Err(e) => bad(e),
        },
        _ => return (None, false),
    };
    (Some(v), cls.count(TIMEOUT_LABEL) > 0)
}

pub fn replay(sub: &str, case: &Value, ctx: &Ctx) -> Option<Verdict> {
    setup(ctx);
    let (v, timed_out) = replay_inner(sub, case);
    if timed_out {
        // a watchdog expiry is never a verdict
        println!("INCONCLUSIVE property=C19 the CLI run hit the {} s watchdog during replay", TIMEOUT.as_secs());
        cli::cleanup(&ctx.root);
        std::process::exit(2);
    }
    v
}
