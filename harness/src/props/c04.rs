//! C04 — public key and address are the secp256k1 / Keccak-256 images of the secret.

use crate::engine::{catch, fail, replay_as, Classifier, Ctx, Verdict};
use crate::gen::U;
use crate::refimpl::{address_of, eip55, hex_lower, secp, unhex};
use hdwallet::account::PrivateKey;
use proptest::prelude::*;
use serde::{Deserialize, Serialize};
use serde_json::{json, Value};

#[derive(Clone, Debug, Serialize, Deserialize)]
pub struct Case {
    pub secret_hex: String,
}

const GANACHE: &str = "4f3edf983ac636a65a842ce7c78d9aa706d3b113bce9c46f30d7d21715b23b1d";

fn b32(v: u128) -> [u8; 32] {
    let mut o = [0u8; 32];
    o[16..].copy_from_slice(&v.to_be_bytes());
    o
}

fn sub_small(a: &[u8; 32], k: u8) -> [u8; 32] {
    // a - k for small k (a >= k)
    let mut o = *a;
    let mut borrow = k as i32;
    for i in (0..32).rev() {
        let v = o[i] as i32 - borrow;
        if v < 0 {
            o[i] = (v + 256) as u8;
            borrow = 1;
        } else {
            o[i] = v as u8;
            borrow = 0;
        }
        if borrow == 0 {
            break;
        }
    }
    o
}

fn add_small(a: &[u8; 32], k: u8) -> [u8; 32] {
    let mut o = *a;
    let mut carry = k as u32;
    for i in (0..32).rev() {
        let v = o[i] as u32 + carry;
        o[i] = v as u8;
        carry = v >> 8;
        if carry == 0 {
            break;
        }
    }
    o
}

/// a scalar in [1, n-1] from the boundary strategy
pub fn gen_valid_scalar(u: &mut U) -> [u8; 32] {
    loop {
        let k = match u.below(10) {
            0 => b32([1u128, 2, 3][u.below(3)]),
            1 => sub_small(&secp::N, [1u8, 2, 3][u.below(3)]),
            2 => secp::HALF_N,
            3 => add_small(&secp::HALF_N, 1),
            4 => {
                let k = u.range(1, 255);
                let mut o = [0u8; 32];
                o[31 - k / 8] = 1 << (k % 8);
                match u.below(3) {
                    0 => sub_small(&o, 1),
                    1 => o,
                    _ => add_small(&o, 1),
                }
            }
            5 => {
                // short scalars: leading zero bytes
                let z = u.range(1, 31);
                let mut o = [0u8; 32];
                o[z..].copy_from_slice(&u.bytes(32 - z));
                o
            }
            _ => u.bytes(32).try_into().unwrap(),
        };
        if secp::is_valid_secret(&k) {
            return k;
        }
    }
}

fn judge(c: &Case, cls: &mut Classifier) -> Verdict {
    let input = unhex(&c.secret_hex).unwrap_or_default();
    let got = catch(|| {
        PrivateKey::new(&input).map(|k| (k.secret(), k.public().encode_uncompressed(), *k.address(), k.address().to_string())).map_err(|e| e.to_string())
    });
    let got = match got {
        Ok(g) => g,
        Err(p) => return fail("key or error", p, format!("PrivateKey::new panicked on {} bytes {}", input.len(), c.secret_hex)),
    };
    // the integer the input denotes, if it fits 32 bytes
    let lead = input.len().saturating_sub(32);
    let as_int: Option<[u8; 32]> = if input[..lead].iter().all(|b| *b == 0) {
        let mut o = [0u8; 32];
        let tail = &input[lead..];
        o[32 - tail.len()..].copy_from_slice(tail);
        Some(o)
    } else {
        None
    };
    if input.len() == 32 {
        let k: [u8; 32] = input.clone().try_into().unwrap();
        if !secp::is_valid_secret(&k) {
            cls.label("out-of-range-32");
            cls.nontrivial(&c.secret_hex);
            cls.sample("out-of-range", || json!(c.secret_hex));
            return match got {
                Err(_) => Ok(()),
                Ok((s, ..)) => fail("Err", format!("key with secret {}", hex_lower(&s)), format!("32-byte secret {} is zero or not below the group order but was accepted", c.secret_hex)),
            };
        }
    }
    match got {
        Err(e) => {
            if input.len() == 32 {
                return fail("accepted", format!("Err({e})"), format!("valid 32-byte secret {} refused", c.secret_hex));
            }
            cls.label("other-length-rejected");
            Ok(())
        }
        Ok((secret, public, addr, addr_text)) => {
            let Some(k) = as_int else {
                return fail("Err", hex_lower(&secret), format!("{}-byte input {} exceeds 256 bits but was accepted", input.len(), c.secret_hex));
            };
            if secret != k {
                return fail(hex_lower(&k), hex_lower(&secret), format!("secret() for a {}-byte input: must be the same big-endian integer", input.len()));
            }
            if !secp::is_valid_secret(&k) {
                return fail("Err", hex_lower(&secret), "input denotes zero or a value not below the group order but was accepted");
            }
            let p = secp::mul_g(&k).expect("valid scalar");
            if public != secp::uncompressed(&p) {
                return fail(hex_lower(&secp::uncompressed(&p)), hex_lower(&public), format!("uncompressed public key of secret {}", hex_lower(&k)));
            }
            let a = address_of(&p);
            if addr != a {
                return fail(hex_lower(&a), hex_lower(&addr), format!("address of secret {}", hex_lower(&k)));
            }
            if addr_text != eip55(&a) {
                return fail(eip55(&a), addr_text, "EIP-55 rendering of the address");
            }
            cls.label(if input.len() == 32 { "valid-32" } else { "other-length-accepted" });
            if c.secret_hex != GANACHE {
                cls.nontrivial(&k);
                cls.sample(if input.len() == 32 { "valid-32" } else { "other-length" }, || json!({"secret": c.secret_hex, "address": eip55(&a)}));
            }
            Ok(())
        }
    }
}

// ---------------------------------------------------------------- CLI sample: printed key material

#[derive(Clone, Debug, Serialize, Deserialize)]
pub struct CliCase {
    pub entropy_hex: String,
    pub account_index: u32,
}

fn judge_cli(c: &CliCase, cls: &mut Classifier) -> Verdict {
    use crate::cli::Invocation;
    use crate::refimpl::{bip32, bip39};
    let Some(e) = unhex(&c.entropy_hex).filter(|e| matches!(e.len(), 16 | 20 | 24 | 28 | 32)) else { return fail("entropy", c.entropy_hex.clone(), "bad case") };
    let phrase = bip39::encode_phrase(&e);
    let seed = bip39::seed_from_normalised(&phrase, "");
    let key = bip32::derive(&seed, &bip32::default_path(c.account_index)).expect("reference key");
    let p = secp::mul_g(&key).expect("valid");
    let idx = c.account_index.to_string();
    for (sub, want) in [
        ("public-key", format!("0x{}\n", hex_lower(&secp::uncompressed(&p)))),
        ("address", format!("{}\n", eip55(&address_of(&p)))),
        ("export", format!("0x{}\n", hex_lower(&key))),
    ] {
        let inv = Invocation::new(&[sub, "--mnemonic", &phrase, "--account-index", &idx]);
        let Some(out) = crate::cli::run_global(&inv) else { return fail("cli", "not configured", "CLI not available") };
        if out.timed_out {
            cls.label("timed-out");
            return Ok(());
        }
        if !out.ok() || out.stdout_str() != want {
            return fail(want, out.describe(), format!("`hdwallet {sub} --account-index {idx}` for mnemonic {phrase:?} (secret {})", hex_lower(&key)));
        }
    }
    cls.label("cli-keys");
    if p.x[0] >> 4 == 0 {
        cls.label("cli-x-leading-zero-nibble");
    }
    if p.y[0] >> 4 == 0 {
        cls.label("cli-y-leading-zero-nibble");
    }
    if key[0] >> 4 == 0 {
        cls.label("cli-secret-leading-zero-nibble");
    }
    if address_of(&p)[0] >> 4 == 0 {
        cls.label("cli-address-leading-zero-nibble");
    }
    cls.nontrivial(&(c.entropy_hex.as_str(), c.account_index));
    Ok(())
}

/// account indices (0..64) of a mnemonic whose X, Y, secret or address start with a zero nibble
fn interesting_indices(entropy: &[u8]) -> Vec<u32> {
    use crate::refimpl::{bip32, bip39};
    let seed = bip39::seed_from_normalised(&bip39::encode_phrase(entropy), "");
    let mut out = vec![];
    for i in 0..64u32 {
        let key = bip32::derive(&seed, &bip32::default_path(i)).expect("reference key");
        let p = secp::mul_g(&key).expect("valid");
        if p.x[0] >> 4 == 0 || p.y[0] >> 4 == 0 || key[0] >> 4 == 0 || address_of(&p)[0] >> 4 == 0 {
            out.push(i);
        }
    }
    out
}

// ---------------------------------------------------------------- other encodings of a valid key, histories

/// Byte strings that are some OTHER encoding of a valid key (hex text with and without prefix, base64,
/// SEC1 / PKCS#8 DER, WIF-like, padded) or raw secrets that happen to start with such a marker: each must be
/// rejected or taken as the same big-endian integer - never decoded into the embedded key.
fn encodings_of(k: &[u8; 32]) -> Vec<(String, Vec<u8>)> {
    let hex = hex_lower(k);
    let mut v: Vec<(String, Vec<u8>)> = vec![];
    v.push(("hex-text".into(), hex.as_bytes().to_vec()));
    v.push(("hex-text-upper".into(), hex.to_uppercase().into_bytes()));
    v.push(("0x-hex-text".into(), format!("0x{hex}").into_bytes()));
    let mut p34 = b"0x".to_vec();
    p34.extend_from_slice(k);
    v.push(("0x-then-raw".into(), p34));
    let mut raw0x = *k;
    raw0x[0] = b'0';
    raw0x[1] = b'x';
    v.push(("raw-starting-with-0x".into(), raw0x.to_vec()));
    let mut raw_hexlike = [0u8; 32];
    for (i, b) in raw_hexlike.iter_mut().enumerate() {
        *b = hex.as_bytes()[i];
    }
    v.push(("raw-32-ascii-hex-digits".into(), raw_hexlike.to_vec()));
    // SEC1 ECPrivateKey DER: 30 25 02 01 01 04 20 <key>, and with the secp256k1 OID parameters
    let mut der = vec![0x30, 0x25, 0x02, 0x01, 0x01, 0x04, 0x20];
    der.extend_from_slice(k);
    v.push(("sec1-der-39".into(), der));
    let mut der2 = vec![0x30, 0x2e, 0x02, 0x01, 0x01, 0x04, 0x20];
    der2.extend_from_slice(k);
    der2.extend_from_slice(&[0xa0, 0x07, 0x06, 0x05, 0x2b, 0x81, 0x04, 0x00, 0x0a]);
    v.push(("sec1-der-48-with-oid".into(), der2));
    // PKCS#8 wrapping of the SEC1 structure
    let mut p8 = vec![0x30, 0x3e, 0x02, 0x01, 0x00, 0x30, 0x10, 0x06, 0x07, 0x2a, 0x86, 0x48, 0xce, 0x3d, 0x02, 0x01, 0x06, 0x05, 0x2b, 0x81, 0x04, 0x00, 0x0a, 0x04, 0x27, 0x30, 0x25, 0x02, 0x01, 0x01, 0x04, 0x20];
    p8.extend_from_slice(k);
    v.push(("pkcs8-der".into(), p8));
    // WIF-like payload: 0x80 || key || 0x01
    let mut wif = vec![0x80];
    wif.extend_from_slice(k);
    wif.push(0x01);
    v.push(("wif-payload-34".into(), wif));
    // right-padded and both-sides padded
    let mut rp = k.to_vec();
    rp.push(0);
    v.push(("right-padded-33".into(), rp));
    let mut lp = vec![0u8];
    lp.extend_from_slice(k);
    v.push(("left-padded-33".into(), lp));
    // base64 text of the key (44 characters)
    const B64: &[u8; 64] = b"ABCDEFGHIJKLMNOPQRSTUVWXYZabcdefghijklmnopqrstuvwxyz0123456789+/";
    let mut b64 = vec![];
    for c in k.chunks(3) {
        let n = (c[0] as u32) << 16 | (*c.get(1).unwrap_or(&0) as u32) << 8 | *c.get(2).unwrap_or(&0) as u32;
        b64.push(B64[(n >> 18) as usize & 63]);
        b64.push(B64[(n >> 12) as usize & 63]);
        b64.push(if c.len() > 1 { B64[(n >> 6) as usize & 63] } else { b'=' });
        b64.push(if c.len() > 2 { B64[n as usize & 63] } else { b'=' });
    }
    v.push(("base64-text".into(), b64));
    // the key twice, and the key followed by its public x coordinate (64 bytes)
    let mut twice = k.to_vec();
    twice.extend_from_slice(k);
    v.push(("key-twice-64".into(), twice));
    v
}

/// A history of PrivateKey::new calls on one thread (the oracle is history-independent).
#[derive(Clone, Debug, Serialize, Deserialize)]
pub struct History {
    pub inputs_hex: Vec<String>,
}

fn gen_history(tape: Vec<u8>) -> History {
    let mut u = U::new(&tape);
    let n = u.range(2, 7);
    let mut inputs = vec![];
    for _ in 0..n {
        let v: Vec<u8> = match u.below(8) {
            0 => secp::N.to_vec(),
            1 => vec![0xff; 32],
            2 => {
                let mut k = [0xffu8; 32];
                k[16..].copy_from_slice(&u.bytes(16));
                k.to_vec()
            }
            3 => vec![0u8; 32],
            4 => {
                // short secret 1..31 bytes
                let l = u.range(1, 31);
                let mut b = u.bytes(l);
                if b.iter().all(|x| *x == 0) {
                    b[l - 1] = 1;
                }
                b
            }
            5 => {
                let l = u.range(33, 64);
                u.bytes(l)
            }
            _ => gen_valid_scalar(&mut u).to_vec(),
        };
        inputs.push(hex_lower(&v));
    }
    History { inputs_hex: inputs }
}

fn judge_history(h: &History, cls: &mut Classifier) -> Verdict {
    for (i, x) in h.inputs_hex.iter().enumerate() {
        if i > 0 {
            cls.eval();
        }
        let mut scratch = Classifier::default();
        judge(&Case { secret_hex: x.clone() }, &mut scratch).map_err(|mut e| {
            e.note = format!("call #{i} of a history on one thread (earlier inputs: {}): {}", h.inputs_hex[..i].join(", "), e.note);
            e
        })?;
    }
    cls.label("history");
    let short_after_rejected = h.inputs_hex.windows(2).any(|w| {
        let a = unhex(&w[0]).unwrap_or_default();
        let b = unhex(&w[1]).unwrap_or_default();
        a.len() == 32 && a.try_into().map(|k: [u8; 32]| !secp::is_valid_secret(&k) && k != [0u8; 32]).unwrap_or(false) && b.len() < 32 && !b.is_empty()
    });
    if short_after_rejected {
        cls.label("history-short-after-rejected");
    }
    cls.nontrivial(&h.inputs_hex);
    cls.sample("history", || json!(h.inputs_hex));
    Ok(())
}

pub fn run(ctx: &mut Ctx) {
    ctx.rule = "(i) 32-byte scalars in [1,n-1] from {1,2,3,n-1..n-3,(n-1)/2,(n+1)/2,2^k-1,2^k,2^k+1,leading-zero,uniform}; (ii) out-of-range 32-byte values {0,n,n+1,n+2,2^256-1,uniform in [n,2^256)}; (iii) every length 0..=64 with zero-padded / random / all-zero / all-0xff content; (iv) other encodings of valid keys (hex text with/without 0x, base64, SEC1 and PKCS#8 DER, WIF payload, padded, raw secrets starting with ASCII '0x' or made of ASCII hex digits); (v) histories of 2..7 calls on one thread mixing rejected out-of-range values, short, long and valid secrets. Oracle: independent secp256k1 scalar multiplication, sha3 Keccak, own EIP-55. CLI sample: `public-key`, `address` and `export` for the accounts (indices 0..64 of generated mnemonics) whose X, Y, secret or address start with a zero nibble must print the reference values in full width. Non-trivial: not the Ganache test key; distinct by scalar.".into();
    ctx.assumptions = vec!["reference secp256k1 agrees with k256 on the selftest sample (two independent implementations)".into()];
    ctx.replay_known_and_regressions(&replay);
    let n = ctx.tier.pick(50_000, 500_000);
    ctx.run_prop(
        "valid",
        n,
        || crate::gen::tape(48).prop_map(|t| Case { secret_hex: hex_lower(&gen_valid_scalar(&mut U::new(&t))) }),
        judge,
    );
    // (ii)
    let mut oor = vec![[0u8; 32], secp::N, add_small(&secp::N, 1), add_small(&secp::N, 2), [0xff; 32]];
    let mut p = crate::engine::Prng::new(ctx.sub_seed("oor", 0));
    for _ in 0..ctx.tier.pick(200, 5000) {
        let mut k = [0xffu8; 32];
        // uniform in [n, 2^256): top 128 bits all ones, then >= n's lower half with high probability
        let low = p.bytes(16);
        k[16..].copy_from_slice(&low);
        if !secp::is_valid_secret(&k) {
            oor.push(k);
        }
    }
    let oor: Vec<Case> = oor.iter().map(|k| Case { secret_hex: hex_lower(k) }).collect();
    ctx.run_cases("out-of-range", &oor, judge);
    // (iii)
    let mut lens = vec![];
    for len in 0..=64usize {
        for content in 0..8 {
            let mut b = p.bytes(len);
            match content {
                0 => b.iter_mut().for_each(|x| *x = 0),
                1 => b.iter_mut().for_each(|x| *x = 0xff),
                2 | 3 => {
                    // a valid scalar, zero-padded on the left (or truncated to its low bytes)
                    let k = p.bytes(32);
                    if len >= 32 {
                        b.iter_mut().for_each(|x| *x = 0);
                        b[len - 32..].copy_from_slice(&k);
                        if content == 3 {
                            b[len - 32] = 0;
                        }
                    }
                }
                4 => {
                    if len > 0 {
                        b.iter_mut().for_each(|x| *x = 0);
                        b[len - 1] = 1;
                    }
                }
                5 => {
                    if len > 0 {
                        b[0] = 0;
                    }
                }
                _ => {}
            }
            lens.push(Case { secret_hex: hex_lower(&b) });
        }
    }
    ctx.run_cases("lengths", &lens, judge);
    ctx.exhaustive_parts.push("input lengths 0..=64 (8 contents each)".into());
    // other encodings of valid keys
    let mut enc = vec![];
    for i in 0..ctx.tier.pick(40, 1000) as u64 {
        let tape = p.bytes(48);
        let k = if i == 0 { b32(1) } else { gen_valid_scalar(&mut U::new(&tape)) };
        for (name, bytes) in encodings_of(&k) {
            let _ = name;
            enc.push(Case { secret_hex: hex_lower(&bytes) });
        }
    }
    ctx.run_cases("encodings", &enc, judge);
    ctx.run_prop("history", ctx.tier.pick(20_000, 200_000), || crate::gen::tape(300).prop_map(gen_history), judge_history);
    ctx.floor_abs("history-short-after-rejected", 500);
    if crate::cli::global_cli().is_some() {
        let mut cc = vec![];
        for m in 0..ctx.tier.pick(2, 20) as u64 {
            let e = crate::engine::Prng::new(ctx.sub_seed("cli", m)).bytes(16);
            for i in interesting_indices(&e) {
                cc.push(CliCase { entropy_hex: hex_lower(&e), account_index: i });
            }
            cc.push(CliCase { entropy_hex: hex_lower(&e), account_index: 0 });
        }
        ctx.run_cases("cli-keys", &cc, judge_cli);
        if ctx.cls.count("timed-out") > 0 {
            ctx.inconclusive("CLI watchdog expired");
        }
        ctx.floor_abs("cli-x-leading-zero-nibble", 3);
        ctx.floor_abs("cli-y-leading-zero-nibble", 3);
        ctx.floor_abs("cli-secret-leading-zero-nibble", 3);
    } else {
        ctx.inconclusive("CLI executable not available for the printed-key sample");
    }
    ctx.floor_abs("out-of-range-32", 5);
    ctx.floor_abs("valid-32", n as u64 / 2);
}

pub fn replay(sub: &str, case: &Value) -> Option<Verdict> {
    match sub {
        "valid" | "out-of-range" | "lengths" | "encodings" => Some(replay_as::<Case>(case, judge)),
        "history" => Some(replay_as::<History>(case, judge_history)),
        "cli-keys" => Some(replay_as::<CliCase>(case, judge_cli)),
        _ => None,
    }
}
