//! C13 — transaction JSON numbers mean exactly the integer written or are rejected.

use crate::engine::{catch, fail, fail_known, replay_as, Classifier, Ctx, Verdict};
use crate::gen::json::J;
use crate::gen::num::{spell, u256_boundary, ALL_SPELLINGS};
use crate::gen::txgen::{self, Shape, SHAPES};
use crate::gen::U;
use crate::refimpl::tx::{c_max, Kind, TxModel};
use crate::refimpl::u256::Big;
use crate::refimpl::{hex0x, hex_lower, jsonnum};
use hdwallet::account::Signature;
use hdwallet::transaction::Transaction;
use proptest::prelude::*;
use serde::{Deserialize, Serialize};
use serde_json::{json, Value};

pub const KNOWN_ROUNDED: &str = "json-float-literal-rounded";

#[derive(Clone, Debug, Serialize, Deserialize)]
pub struct Case {
    pub doc: String,
    /// the model with the field under test set to `value` (when one is expected)
    pub model: TxModel,
    pub field: String,
    /// the JSON fragment written for the field ("<absent>" when the key is left out)
    pub fragment: String,
    /// wellformed | lenient | malformed | literal | unspecified
    pub class: String,
    pub label: String,
}

pub const NUMERIC_FIELDS: [&str; 7] = ["nonce", "gasPrice", "maxPriorityFeePerGas", "maxFeePerGas", "gas", "value", "chainId"];

pub fn fields_of(shape: Shape) -> Vec<&'static str> {
    match shape {
        Shape::LegacyNoChain => vec!["nonce", "gasPrice", "gas", "value"],
        Shape::LegacyChain => vec!["nonce", "gasPrice", "gas", "value", "chainId"],
        Shape::Eip2930 => vec!["nonce", "gasPrice", "gas", "value", "chainId"],
        _ => vec!["nonce", "maxPriorityFeePerGas", "maxFeePerGas", "gas", "value", "chainId"],
    }
}

pub fn set_field(m: &mut TxModel, field: &str, x: Big) {
    match field {
        "nonce" => m.nonce = x,
        "gasPrice" => m.gas_price = x,
        "maxPriorityFeePerGas" => m.max_priority_fee = x,
        "maxFeePerGas" => m.max_fee = x,
        "gas" => m.gas = x,
        "value" => m.value = x,
        "chainId" => m.chain_id = Some(x),
        _ => panic!("unknown numeric field {field}"),
    }
}

fn fixed_sig() -> ([u8; 32], [u8; 32]) {
    let mut r = [0x23u8; 32];
    r[0] = 0x01;
    let mut s = [0x45u8; 32];
    s[0] = 0x02;
    (r, s)
}

/// What hdwallet made of the document: digest and encodings under a fixed signature with both parities.
fn observe(doc: &str) -> Result<Result<([u8; 32], Option<Vec<u8>>, Option<Vec<u8>>), String>, String> {
    if VIA_CLI.with(|v| v.get()) {
        return observe_cli(doc);
    }
    crate::isolate::inflight("transaction", doc.as_bytes(), "generated", || observe_inner(doc))
}

thread_local! {
    /// the judges observe through the executable (`hash transaction`) instead of the library
    static VIA_CLI: std::cell::Cell<bool> = const { std::cell::Cell::new(false) };
    static CLI_TIMED_OUT: std::cell::Cell<bool> = const { std::cell::Cell::new(false) };
}

/// `hdwallet hash transaction` (document on stdin or in a file, alternating): the signing digest or the refusal.
/// Outer Err = panic / abnormal end / success with unparsable output.
fn observe_cli(doc: &str) -> Result<Result<([u8; 32], Option<Vec<u8>>, Option<Vec<u8>>), String>, String> {
    let root = crate::cli::global_root();
    let by_file = crate::engine::stable_hash(&doc) % 2 == 0;
    let (inv, file) = if by_file {
        let f = crate::cli::temp_file(&root, doc.as_bytes());
        (crate::cli::Invocation::new(&["hash", "transaction", &f.to_string_lossy()]), Some(f))
    } else {
        (crate::cli::Invocation::new(&["hash", "transaction", "-"]).stdin(doc.as_bytes()), None)
    };
    let out = crate::cli::run_global(&inv);
    if let Some(f) = file {
        let _ = std::fs::remove_file(f);
    }
    let Some(out) = out else { return Err("harness: CLI not configured".into()) };
    if out.timed_out {
        CLI_TIMED_OUT.with(|t| t.set(true));
        return Ok(Err("watchdog".into()));
    }
    if out.ok() {
        let s = out.stdout_str();
        let d = s.strip_suffix('\n').and_then(|l| l.strip_prefix("0x")).and_then(crate::refimpl::unhex).filter(|d| d.len() == 32);
        return match d {
            Some(d) => Ok(Ok((d.try_into().unwrap(), None, None))),
            None => Err(format!("`hdwallet hash transaction` exit 0 without a digest line: {}", out.describe())),
        };
    }
    if out.ordinary_error() && out.stdout.is_empty() && !out.stderr.is_empty() {
        return Ok(Err(crate::engine::truncate(&out.stderr_str(), 200)));
    }
    Err(format!("`hdwallet hash transaction`: neither a digest nor an ordinary error with empty stdout: {}", out.describe()))
}

fn via_cli<C>(c: &C, cls: &mut Classifier, judge: fn(&C, &mut Classifier) -> Verdict) -> Verdict {
    VIA_CLI.with(|v| v.set(true));
    CLI_TIMED_OUT.with(|t| t.set(false));
    let mut scratch = Classifier::default();
    let r = judge(c, &mut scratch);
    VIA_CLI.with(|v| v.set(false));
    if CLI_TIMED_OUT.with(|t| t.get()) {
        cls.label("cli-timed-out");
        return Ok(());
    }
    if r.is_ok() {
        cls.label("cli-sample");
    }
    r
}

fn judge_cli(c: &Case, cls: &mut Classifier) -> Verdict {
    let r = via_cli(c, cls, judge);
    if r.is_ok() {
        cls.label(&format!("cli-class-{}", c.class));
        cls.nontrivial(&(c.doc.as_str(), "cli"));
    }
    r
}

fn judge_bytes_cli(c: &BytesCase, cls: &mut Classifier) -> Verdict {
    let r = via_cli(c, cls, judge_bytes);
    if r.is_ok() {
        cls.label("cli-bytes");
        cls.nontrivial(&(c.doc.as_str(), "cli"));
    }
    r
}

fn observe_inner(doc: &str) -> Result<Result<([u8; 32], Option<Vec<u8>>, Option<Vec<u8>>), String>, String> {
    catch(|| {
        let tx = serde_json::from_str::<Transaction>(doc).map_err(|e| e.to_string())?;
        let d = tx.signing_message().0;
        let (r, s) = fixed_sig();
        // v overflows for legacy chain ids above c_max (C11's subject): do not encode those here
        let skip_encode = matches!(&tx, Transaction::Legacy(l) if l.chain_id.map(|c| c > (ethnum::U256::MAX - 36) / 2).unwrap_or(false));
        if skip_encode {
            return Ok((d, None, None));
        }
        let e0 = tx.encode(Signature::from_parts(ethnum::U256::from_be_bytes(r), ethnum::U256::from_be_bytes(s), 0));
        let e1 = tx.encode(Signature::from_parts(ethnum::U256::from_be_bytes(r), ethnum::U256::from_be_bytes(s), 1));
        Ok((d, Some(e0), Some(e1)))
    })
}

fn matches_model(obs: &([u8; 32], Option<Vec<u8>>, Option<Vec<u8>>), m: &TxModel) -> bool {
    let (r, s) = fixed_sig();
    obs.0 == m.digest()
        && obs.1.as_ref().map(|e| Some(e) == m.signed_payload(&r, &s, false).as_ref()).unwrap_or(true)
        && obs.2.as_ref().map(|e| Some(e) == m.signed_payload(&r, &s, true).as_ref()).unwrap_or(true)
}

fn judge(c: &Case, cls: &mut Classifier) -> Verdict {
    let docs = crate::engine::truncate(&c.doc, 500);
    let obs = match observe(&c.doc) {
        Ok(o) => o,
        Err(p) => return fail("result or error", p, format!("transaction handling panicked: {docs}")),
    };
    let where_ = format!("field {} written as {} in {docs}", c.field, crate::engine::truncate(&c.fragment, 120));
    match c.class.as_str() {
        "wellformed" => match &obs {
            Err(e) => {
                if let Some(k) = rounded_predicate_refusal(&c.fragment) {
                    return fail_known(k, "accepted", format!("Err({e})"), format!("well-formed number refused; {where_}"));
                }
                return fail("accepted", format!("Err({e})"), format!("well-formed number refused; {where_}"));
            }
            Ok(o) => {
                if !matches_model(o, &c.model) {
                    if let Some(k) = rounded_predicate(&c.fragment, o, &c.model, &c.field) {
                        return fail_known(k, "the integer written", "its f64 rounding", format!("well-formed number mis-valued; {where_}"));
                    }
                    return fail(hex_lower(&c.model.digest()), hex_lower(&o.0), format!("digest/encoding differs from the reference encoding of the integer written; {where_}"));
                }
            }
        },
        "lenient" => match &obs {
            Err(_) => cls.unspecified(&format!("{}-refused", c.label)),
            Ok(o) => {
                if !matches_model(o, &c.model) {
                    return fail(hex_lower(&c.model.digest()), hex_lower(&o.0), format!("non-canonical but legal spelling accepted with another value; {where_}"));
                }
            }
        },
        "malformed" => {
            if let Ok(o) = &obs {
                if let Some(k) = rounded_predicate(&c.fragment, o, &c.model, &c.field) {
                    return fail_known(k, "Err", "accepted as its f64 rounding", format!("malformed number accepted; {where_}"));
                }
                return fail("Err", format!("accepted, digest {}", hex_lower(&o.0)), format!("malformed value accepted ({}); {where_}", c.label));
            }
        }
        "literal" => {
            // exact-or-refuse: a number literal is taken at its exact mathematical value or refused
            let exact = jsonnum::as_u256(&c.fragment);
            if let Ok(o) = &obs {
                let mut ok = false;
                if let Some(v) = &exact {
                    let mut m = c.model.clone();
                    set_field(&mut m, &c.field, v.clone());
                    ok = matches_model(o, &m);
                }
                if !ok {
                    if let Some(k) = rounded_predicate(&c.fragment, o, &c.model, &c.field) {
                        return fail_known(k, "exact value or Err", "accepted as its f64 rounding", format!("number literal rounded; {where_}"));
                    }
                    return fail(
                        match &exact {
                            Some(v) => format!("exactly {} or Err", v.to_dec()),
                            None => "Err (the literal is not an integer in [0, 2^256))".to_string(),
                        },
                        format!("accepted, digest {}", hex_lower(&o.0)),
                        format!("number literal neither taken at its exact value nor refused; {where_}"),
                    );
                }
                cls.label("literal-accepted-exact");
            } else {
                cls.label("literal-refused");
            }
        }
        _ => {
            cls.unspecified(&c.label);
        }
    }
    cls.label(&format!("{}/{}", c.field, c.label));
    cls.label(&format!("class-{}", c.class));
    let plain = c.class == "wellformed" && c.label == "JsonInt" && c.model.value.bit_len() <= 64;
    if !plain {
        cls.nontrivial(&(c.doc.as_str(),));
        cls.sample(&format!("{}-{}", c.class, c.label), || json!({"field": c.field, "fragment": crate::engine::truncate(&c.fragment, 120), "accepted": obs.is_ok()}));
    }
    Ok(())
}

/// Known root cause D12: serde_json converts a number literal to f64 before hdwallet sees it.
/// Exact predicate: the literal uses float syntax (or overflows u64), its exact value differs from the
/// correctly rounded f64 of the literal, that f64 is an integer in [0, 2^53), and what was accepted is
/// exactly that integer.
fn rounded_predicate(fragment: &str, obs: &([u8; 32], Option<Vec<u8>>, Option<Vec<u8>>), model: &TxModel, field: &str) -> Option<&'static str> {
    let e = jsonnum::parse(fragment)?;
    if !e.float_syntax {
        return None;
    }
    let f: f64 = fragment.parse().ok()?;
    if !(f >= 0.0 && f < 9007199254740992.0 && f.fract() == 0.0) {
        return None;
    }
    let rounded = Big::from_u128(f as u128);
    if e.integer.as_ref() == Some(&rounded) && !(e.negative && !e.is_zero) {
        return None; // exact: not this root cause
    }
    let mut m = model.clone();
    set_field(&mut m, field, rounded);
    matches_model(obs, &m).then_some(KNOWN_ROUNDED)
}

fn rounded_predicate_refusal(_fragment: &str) -> Option<&'static str> {
    None
}

// ------------------------------------------------------------- generation

fn malformed_fragment(u: &mut U, x: &Big, field_is_not_chain_id: bool) -> (String, &'static str) {
    let d = x.to_dec();
    let xs = if x.is_zero() { "1".to_string() } else { d.clone() };
    match u.below(36) {
        0 if x.bit_len() <= 63 => (format!("-{xs}"), "negative-int"),
        1 if x.bit_len() <= 53 => (format!("-{xs}.0"), "negative-float"),
        2 => (format!("\"-{xs}\""), "negative-dec-string"),
        3 => (format!("\"-0x{}\"", if x.is_zero() { "1".into() } else { x.to_hex() }), "negative-hex-string"),
        4 => (["1.5", "0.1", "1e-1", "0.5", "2.25", "1e-5", "123.456"][u.below(7)].to_string(), "fraction"),
        5 => (["\"1.5\"", "\"0.1\"", "\"1e-1\"", "\"1,5\""][u.below(4)].to_string(), "fraction-string"),
        6 if x.bit_len() <= 50 => (format!("{d}.5"), "fraction"),
        7 => (["4503599627370496.25", "1.0000000000000000001", "1e-400", "0.99999999999999999999", "2.0000000000000000000000001", "1e-30", "4503599627370495.6"][u.below(7)].to_string(), "inexact-literal"),
        8 if x.bit_len() <= 40 => (format!("{d}.0000000000000000000{}", 1 + u.below(9)), "inexact-literal"),
        9 => (["1e78", "1e400", "2e77", "1.2e77", "115792089237316195423570985008687907853269984665640564039457584007913129639936", "1e1000"][u.below(6)].to_string(), "too-large-literal"),
        10 => (format!("\"{}\"", Big::pow2(256).add(&Big::from_u128(u.below(1000) as u128)).to_dec()), "too-large-dec-string"),
        11 => (format!("\"0x{}\"", Big::pow2(256).add(&Big::from_u128(u.below(1000) as u128)).to_hex()), "too-large-hex-string"),
        12 => (format!("\"1{}\"", "0".repeat(78 + u.below(40))), "too-large-dec-string"),
        13 => (format!("\"0x1{}\"", "0".repeat(64 + u.below(40))), "too-large-hex-string"),
        14 => ("\"\"".into(), "empty-string"),
        15 => ("\"0x\"".into(), "empty-hex"),
        16 => ([format!("\" {d}\""), format!("\"{d} \""), format!("\"\\t{d}\""), format!("\"{d}\\n\"")][u.below(4)].clone(), "whitespace-in-string"),
        17 => (["\"1_000\"", "\"1,000\"", "\"0x_1\"", "\"0x1_0\""][u.below(4)].to_string(), "digit-separators"),
        18 => (["\"0xg\"", "\"0x1g\"", "\"12a\"", "\"abc\"", "\"0xx1\"", "\"x10\""][u.below(6)].to_string(), "bad-digit"),
        19 => (["\"\u{ff11}\u{ff12}\"", "\"0x\u{ff11}\"", "\"\u{0661}\u{0662}\""][u.below(3)].to_string(), "unicode-digits"),
        20 => (["true", "false"][u.below(2)].to_string(), "bool"),
        21 => (["[]", "[1]", "[\"1\"]"][u.below(3)].to_string(), "array"),
        22 => (["{}", "{\"value\":1}"][u.below(2)].to_string(), "object"),
        23 => ("<absent>".into(), "absent"),
        24 => ("null".into(), "null"),
        25 => (["\"NaN\"", "\"Infinity\"", "\"-Infinity\"", "\"inf\""][u.below(4)].to_string(), "nan-inf"),
        26 => (["\"0x-1\"", "\"--1\"", "\"-\"", "\"0x-\"", "\"0x+1\"", "\"0x+ff\"", "\"0x+\"", "\"0x 1\"", "\"0x0x1\"", "\"0x0xff\"", "\"00x1\""][u.below(11)].to_string(), "bad-sign"),
        27 => (["-1e0", "-1.5", "-1e30", "-0.5"][u.below(4)].to_string(), "negative-float"),
        28 => (["-9223372036854775808", "-9223372036854775809", "-18446744073709551616"][u.below(3)].to_string(), "negative-int"),
        29..=31 => {
            // every ASCII character that is not a digit of the radix, in a digit position of a short string
            // (control characters included: a hand-written digit decoder that folds case with `c | 0x20` maps
            // 0x10..0x19 onto the digits)
            let hex = u.bool();
            let c = loop {
                let c = (1 + u.below(127)) as u8 as char;
                let is_digit = if hex { c.is_ascii_hexdigit() } else { c.is_ascii_digit() };
                if !is_digit && !matches!(c, 'e' | 'E' | '+') {
                    break c;
                }
            };
            let mut esc = String::new();
            crate::gen::json::escape(&c.to_string(), &mut esc);
            let esc = esc[1..esc.len() - 1].to_string(); // without the surrounding quotes
            let body = match u.below(3) {
                0 => format!("1{esc}"),
                1 => format!("{esc}1"),
                _ => format!("1{esc}1"),
            };
            (format!("\"{}{body}\"", if hex { "0x" } else { "" }), if hex { "char-sweep-hex" } else { "char-sweep-dec" })
        }
        34 | 35 if field_is_not_chain_id => {
            // a number behind a scheme-like prefix or with a type suffix of another language: not a number
            let pool = ["eip155:7", "eip155:0x10", "chain:1", "dec:10", "hex:ff", "u256:1", "#10", "$10", "10n", "10u64", "1_u256", "10L", "0d10", "0h10", "h10", "10 wei?", "=10", "'10'", "(10)"];
            (format!("\"{}\"", pool[u.below(pool.len())]), "scheme-prefix-or-type-suffix")
        }
        32 => {
            // a decimal string with an exponent whose value is 2^256 or more: whatever a tool makes of exponent
            // notation inside strings, this one is not below 2^256
            let m = ["1", "2", "7", "12", "1.5", "115792089237316195423570985008687907853269984665640564039457584007913129639936"][u.below(6)];
            let k = ["78", "79", "100", "255", "256", "300", "1000", "4294967295", "4294967296", "18446744073709551616"][u.below(10)];
            (format!("\"{m}{}{k}\"", ["e", "E", "e+"][u.below(3)]), "exponent-string-overflow")
        }
        33 => {
            // an amount with a unit suffix (cast / Brownie style) worth 2^256 wei or more
            const UNITS: [(&str, usize); 8] = [("wei", 0), ("kwei", 3), ("mwei", 6), ("gwei", 9), ("szabo", 12), ("finney", 15), ("ether", 18), ("eth", 18)];
            let (unit, d) = UNITS[u.below(UNITS.len())];
            // smallest q with q * 10^d >= 2^256, plus a little
            let mut q = Big::pow2(256);
            for _ in 0..d {
                q = q.divrem_small(10).0;
            }
            let q = q.add_small(1 + u.below(1000) as u32);
            (format!("\"{}{}{unit}\"", q.to_dec(), if u.bool() { " " } else { "" }), "unit-suffix-overflow")
        }
        _ => (format!("\"-{xs}\""), "negative-dec-string"),
    }
}

/// Notations the property does not list (an exponent inside a decimal string, an amount with a unit suffix) with
/// a value below 2^256: exact if accepted, refusal allowed. Returns (fragment, label, value).
fn foreign_notation(u: &mut U) -> (String, &'static str, Big) {
    let pow10 = |k: usize| Big::from_dec(&format!("1{}", "0".repeat(k))).expect("decimal");
    if u.bool() {
        let k = [0usize, 1, 9, 18, 19, 30, 60, 76, 77][u.below(9)];
        let m = [1u32, 2, 9, 11, 115][u.below(5)];
        let x = pow10(k).mul_small(m);
        let x = if x.fits_256() { x } else { pow10(18) };
        let (m, k) = if x.fits_256() && x == pow10(k).mul_small(m) { (m, k) } else { (1, 18) };
        (format!("\"{m}{}{k}\"", ["e", "E", "e+"][u.below(3)]), "exponent-string-exact", x)
    } else {
        const UNITS: [(&str, usize); 8] = [("wei", 0), ("kwei", 3), ("mwei", 6), ("gwei", 9), ("szabo", 12), ("finney", 15), ("ether", 18), ("eth", 18)];
        let (unit, d) = UNITS[u.below(UNITS.len())];
        let q = [1u32, 2, 20, 1337, 1_000_000][u.below(5)];
        let x = pow10(d).mul_small(q);
        (format!("\"{q}{}{unit}\"", if u.bool() { " " } else { "" }), "unit-suffix-exact", x)
    }
}

fn literal_fragment(u: &mut U) -> (String, &'static str) {
    let pool = [
        "1e30", "18446744073709551616", "9007199254740993.0", "9007199254740993", "1e77", "12345678901234567890123", "9007199254740992.0", "1e20",
        "3.0e25", "115792089237316195423570985008687907853269984665640564039457584007913129639935", "18446744073709551615.0", "1e53", "9007199254740991e0",
        "9007199254740991.0", "90071992547409910e-1", "9.007199254740991e15", "4503599627370497.0", "72057594037927935.0", "1152921504606846975e0",
        "123456789012345678.0", "1.8446744073709551615e19",
    ];
    if u.ratio(2, 3) {
        (pool[u.below(pool.len())].to_string(), "big-or-edge-literal")
    } else {
        // integral literal with 16..25 significant digits in float syntax
        let n = u.range(16, 25);
        let mut s: String = (0..n).map(|i| (b'0' + if i == 0 { 1 + u.below(9) } else { u.below(10) } as u8) as char).collect();
        match u.below(3) {
            0 => s.push_str(".0"),
            1 => s.push_str("e0"),
            _ => {
                s.insert(1, '.');
                s.push_str(&format!("e{}", n - 1));
            }
        }
        (s, "long-integral-float")
    }
}

fn unspecified_fragment(u: &mut U, x: &Big) -> (String, &'static str) {
    let d = x.to_dec();
    match u.below(7) {
        0 => ([format!("\"+{d}\""), format!("\"+0x{}\"", x.to_hex())][u.below(2)].clone(), "leading-plus"),
        1 => (["\"0b101\"", "\"0o17\""][u.below(2)].to_string(), "binary-octal-string"),
        2 => (format!("\"0X{}\"", x.to_hex()), "upper-case-0X"),
        3 => (["-0", "-0.0", "-0e0"][u.below(3)].to_string(), "minus-zero"),
        4 => (format!("\"{d}e0\""), "exponent-string"),
        5 => (format!("\"{d}.0\""), "float-string"),
        _ => ("\"-0\"".into(), "minus-zero-string"),
    }
}

fn render(model: &TxModel, shape: Shape, to_form: &str, field: &str, fragment: &str, u: &mut U) -> String {
    let j = txgen::render_with(model, shape, to_form, u, &mut |f, x, u| {
        if f == field {
            J::Raw(fragment.to_string())
        } else {
            txgen::plain_number(x, u)
        }
    });
    if fragment == "<absent>" {
        if let J::Obj(mut kv) = j {
            kv.retain(|(k, _)| k != field);
            let style = u.u64();
            return J::Obj(kv).render_styled(style);
        }
        unreachable!()
    }
    let style = u.u64();
    j.render_styled(style)
}

fn gen_case(tape: Vec<u8>) -> Case {
    let mut u = U::new(&tape);
    let shape = SHAPES[u.below(5)];
    let (mut model, to_form) = txgen::gen_model(&mut u, shape, 40);
    let fields = fields_of(shape);
    let field = fields[u.below(fields.len())];
    let mut x = u256_boundary(&mut u);
    if field == "chainId" && model.kind == Kind::Legacy && x > c_max() {
        x = c_max();
    }
    let (fragment, class, label): (String, &str, String) = match u.below(10) {
        0..=4 => {
            let start = u.below(ALL_SPELLINGS.len());
            let salt = u.u64();
            let mut out = None;
            for k in 0..ALL_SPELLINGS.len() {
                let sp = ALL_SPELLINGS[(start + k) % ALL_SPELLINGS.len()];
                if let Some(s) = spell(&x, sp, salt) {
                    out = Some((s, format!("{sp:?}")));
                    break;
                }
            }
            let (s, l) = out.unwrap();
            // redundant leading zeros are a legal but non-canonical spelling: exact if accepted, refusal allowed
            let class = if l == "DecStringLeadingZeros" || l == "HexLeadingZeros" { "lenient" } else { "wellformed" };
            (s, class, l)
        }
        5..=7 => {
            let (f, l) = malformed_fragment(&mut u, &x, field != "chainId");
            // leaving out chainId of a legacy transaction / giving it as null is allowed, and removing a fee
            // field of an EIP-1559 transaction may change the kind: keep "absent"/"null" to fields where the
            // document stays the same kind and the field is required
            let optional = field == "chainId" && model.kind == Kind::Legacy;
            let kind_changing = matches!(field, "maxPriorityFeePerGas" | "maxFeePerGas");
            if (l == "absent" || l == "null") && optional {
                (f, "unspecified", format!("legacy-chainId-{l}"))
            } else if l == "absent" && kind_changing {
                ("true".into(), "malformed", "bool".into())
            } else {
                (f, "malformed", l.to_string())
            }
        }
        8 => {
            let (f, l) = literal_fragment(&mut u);
            (f, "literal", l.to_string())
        }
        _ if u.ratio(1, 3) => {
            let (f, l, v) = foreign_notation(&mut u);
            x = v;
            (f, "lenient", l.to_string())
        }
        _ => {
            let (f, l) = unspecified_fragment(&mut u, &x);
            (f, "unspecified", l.to_string())
        }
    };
    if class == "wellformed" || class == "lenient" {
        set_field(&mut model, field, x);
    }
    let mut doc = render(&model, shape, &to_form, field, &fragment, &mut u);
    let mut label = label;
    if class == "malformed" && matches!(shape, Shape::Eip1559 | Shape::Eip1559NoList) && u.ratio(1, 3) {
        // next to the malformed value everything another kind's reading would need (a redundant gasPrice, an
        // access list): a parser that tries the kinds one after the other must not fall back to one that
        // ignores the malformed field
        if let Some(i) = doc.find('{') {
            let extra = if shape == Shape::Eip1559NoList { "\"gasPrice\":\"0x3b9aca00\",\"accessList\":[]," } else { "\"gasPrice\":1000000000," };
            doc.insert_str(i + 1, extra);
            label = format!("{label}+other-kind-complete");
        }
    }
    Case { doc, model, field: field.to_string(), fragment, class: class.to_string(), label }
}

/// A fee-market member whose value is null (or not a number) while the other one is absent, next to everything
/// a legacy / EIP-2930 reading needs: the member is there, so the document is a fee-market transaction with a
/// value that is not a number - refused, not signed as another kind with the member dropped.
fn gen_null_fee_case(tape: Vec<u8>) -> Case {
    let mut u = U::new(&tape);
    let shape = [Shape::Eip2930, Shape::LegacyChain, Shape::LegacyNoChain][u.below(3)];
    let (model, to_form) = txgen::gen_model(&mut u, shape, 40);
    let mut doc = txgen::render_with(&model, shape, &to_form, &mut u, &mut |_, x, u| txgen::plain_number(x, u)).render();
    let field = ["maxFeePerGas", "maxPriorityFeePerGas"][u.below(2)];
    let fragment = ["null", "null", "null", "\"\"", "false", "[]", "{}"][u.below(7)];
    let both = u.ratio(1, 3);
    if let Some(i) = doc.find('{') {
        let other = if field == "maxFeePerGas" { "maxPriorityFeePerGas" } else { "maxFeePerGas" };
        let extra = if both { format!("\"{field}\":{fragment},\"{other}\":null,") } else { format!("\"{field}\":{fragment},") };
        doc.insert_str(i + 1, &extra);
    }
    Case { doc, model, field: field.to_string(), fragment: fragment.to_string(), class: "malformed".into(), label: format!("fee-member-not-a-number{}+other-kind-complete", if both { "-both" } else { "" }) }
}

// ------------------------------------------------------------- byte fields and addresses

#[derive(Clone, Debug, Serialize, Deserialize)]
pub struct BytesCase {
    pub doc: String,
    pub model: TxModel,
    pub what: String,
    pub expect_ok: Option<bool>,
}

fn gen_bytes_case(tape: Vec<u8>) -> BytesCase {
    let mut u = U::new(&tape);
    let shape = [Shape::LegacyChain, Shape::Eip2930, Shape::Eip1559][u.below(3)];
    let (mut model, _) = txgen::gen_model(&mut u, shape, 40);
    model.to = Some(txgen::gen_address(&mut u));
    if shape != Shape::LegacyChain && model.access_list.is_empty() {
        model.access_list = vec![(txgen::gen_address(&mut u), vec![[7u8; 32]])];
    }
    let base = txgen::render_with(&model, shape, "address", &mut u, &mut |_, x, u| txgen::plain_number(x, u));
    let J::Obj(mut kv) = base else { unreachable!() };
    let data_hex = hex_lower(&model.data);
    let to_hex = hex_lower(&model.to.unwrap());
    let n = if shape == Shape::LegacyChain { 17 } else { 27 };
    if u.ratio(1, 5) {
        // the text has the length of a well-formed value but its first two characters are not the prefix
        // (a parser that checks the length and skips two characters would take it)
        let fields: &[&str] = if shape == Shape::LegacyChain { &["data", "to"] } else { &["data", "to", "al-address", "al-slot"] };
        let field = fields[u.below(fields.len())];
        let (a0, slots0) = model.access_list.first().cloned().unwrap_or(([0u8; 20], vec![]));
        let s0 = slots0.first().copied().unwrap_or([0u8; 32]);
        let digits = match field {
            "data" => data_hex.clone(),
            "to" => to_hex.clone(),
            "al-address" => hex_lower(&a0),
            _ => hex_lower(&s0),
        };
        let (text, kind, expect): (String, &str, Option<bool>) = match u.below(14) {
            9..=13 if !digits.is_empty() => {
                // one digit replaced by an ASCII character that is not a hex digit (0x01..0x7f, control characters
                // and white space included): same length, right prefix
                let c = loop {
                    let c = (1 + u.below(127)) as u8 as char;
                    if !c.is_ascii_hexdigit() {
                        break c;
                    }
                };
                let at = match u.below(3) {
                    0 => 0,
                    1 => digits.len() - 1,
                    _ => u.below(digits.len()),
                };
                let mut d: Vec<char> = digits.chars().collect();
                d[at] = c;
                (format!("0x{}", d.into_iter().collect::<String>()), "digit-replaced-by-ascii-non-hex", Some(false))
            }
            0 => (format!("x0{digits}"), "x0", Some(false)),
            1 => (format!("  {digits}"), "two-blanks", Some(false)),
            2 => (format!("{}{digits}", hex_lower(&u.bytes(1))), "two-more-digits-no-prefix", Some(false)),
            3 => (format!("0y{digits}"), "0y", Some(false)),
            4 => (format!("1x{digits}"), "1x", Some(false)),
            5 => (format!("\u{ff10}x{}", digits.get(1..).unwrap_or("")), "fullwidth-zero", Some(false)),
            6 => (format!("#x{digits}"), "hash-sign", Some(false)),
            7 => (format!("0X{digits}"), "0X", None),
            8 => (format!("0\u{445}{}", digits.get(1..).unwrap_or("")), "cyrillic-x", Some(false)),
            _ => (format!("x0{digits}"), "x0", Some(false)),
        };
        let what: String = format!("{field}-same-length-prefix-{kind}");
        match field {
            "data" | "to" => {
                for (k, v) in kv.iter_mut() {
                    if k == field {
                        *v = J::Str(text.clone());
                    }
                }
            }
            _ => {
                let (addr, slot) = if field == "al-address" { (text.clone(), hex0x(&s0)) } else { (hex0x(&a0), text.clone()) };
                let mut entries: Vec<J> = vec![J::Arr(vec![J::Str(addr), J::Arr(vec![J::Str(slot)])])];
                for (a2, s2) in model.access_list.iter().skip(1) {
                    entries.push(J::Arr(vec![J::Str(hex0x(a2)), J::Arr(s2.iter().map(|s| J::Str(hex0x(s))).collect())]));
                }
                model.access_list[0].1 = vec![s0];
                for (k, v) in kv.iter_mut() {
                    if k == "accessList" {
                        *v = J::Arr(entries.clone());
                    }
                }
            }
        }
        return BytesCase { doc: J::Obj(kv).render(), model, what, expect_ok: expect };
    }
    let (key, val, what, expect): (&str, J, &str, Option<bool>) = match u.below(n) {
        0 => ("data", J::Str(data_hex.clone()), "data-no-prefix", Some(false)),
        1 => ("data", J::Str(format!("0x{data_hex}a")), "data-odd-length", Some(false)),
        2 => ("data", J::Str(format!("0x{data_hex}zz")), "data-non-hex", Some(false)),
        3 => ("data", J::Str(format!("0x{}", data_hex.to_uppercase())), "data-upper-case-digits", Some(true)),
        4 => ("data", J::Str(format!("0X{data_hex}")), "data-upper-case-0X", None),
        5 => ("data", [J::Null, J::Num("0".into()), J::Arr(vec![]), J::Bool(false)][u.below(4)].clone(), "data-wrong-kind", Some(false)),
        6 => ("to", J::Str(format!("0x{}", &to_hex[2..])), "to-19-bytes", Some(false)),
        7 => ("to", J::Str(format!("0x{to_hex}00")), "to-21-bytes", Some(false)),
        8 => ("to", J::Str(to_hex.clone()), "to-no-prefix", Some(false)),
        9 => ("to", J::Str(format!("0x{}zz", &to_hex[2..])), "to-non-hex", Some(false)),
        10 => ("to", J::Str(format!("0x{}", to_hex.to_uppercase())), "to-all-upper-case", Some(true)),
        11 => ("to", J::Str(format!("0x{}", &to_hex[1..])), "to-odd-length", Some(false)),
        12 => ("to", J::Str(format!(" 0x{to_hex}")), "to-leading-space", Some(false)),
        13 => ("to", [J::Num("0".into()), J::Arr(vec![]), J::Bool(false), J::Str(String::new())][u.below(4)].clone(), "to-wrong-kind", Some(false)),
        14 => ("data", J::Str(format!("0x0x{data_hex}")), "data-doubled-prefix", Some(false)),
        15 => ("to", J::Str(format!("0x0x{to_hex}")), "to-doubled-prefix", Some(false)),
        16 if u.ratio(1, 3) => ("to", J::Str(["0x", "", "0x0", "0x00", " ", "0x "][u.below(6)].to_string()), "to-empty-or-too-short", Some(false)),
        16 if u.bool() => {
            // something before a colon, then a well-formed address (malformed account identifiers of other
            // conventions): not 0x + 40 hex digits
            let pre = [":", "::", "0x12:", "eip155:", "1:", "x:", " :"][u.below(7)];
            let text = if u.ratio(1, 6) { format!("0x{to_hex}:0x{to_hex}") } else { format!("{pre}0x{to_hex}") };
            ("to", J::Str(text), "to-colon-prefixed", Some(false))
        }
        16 => ("data", J::Str(format!("0x+{data_hex}")), "data-plus-after-prefix", Some(false)),
        k => {
            let (a, slots) = model.access_list[0].clone();
            let ah = hex_lower(&a);
            let sh = slots.first().map(|s| hex_lower(s)).unwrap_or_else(|| "00".repeat(32));
            let (addr, slot, what, expect): (String, String, &str, Option<bool>) = match k - 3 {
                22 => (format!("0x0x{ah}"), format!("0x{sh}"), "al-address-doubled-prefix", Some(false)),
                23 => (format!("0x{ah}"), format!("0x0x{sh}"), "al-slot-doubled-prefix", Some(false)),
                14 => (format!("0x{}", &ah[2..]), format!("0x{sh}"), "al-address-19-bytes", Some(false)),
                15 => (format!("0x{ah}11"), format!("0x{sh}"), "al-address-21-bytes", Some(false)),
                16 => (ah.clone(), format!("0x{sh}"), "al-address-no-prefix", Some(false)),
                17 => (format!("0x{ah}"), format!("0x{}", &sh[2..]), "al-slot-31-bytes", Some(false)),
                18 => (format!("0x{ah}"), format!("0x{sh}22"), "al-slot-33-bytes", Some(false)),
                19 => (format!("0x{ah}"), sh.clone(), "al-slot-no-prefix", Some(false)),
                20 => (format!("0x{ah}"), format!("0x{}zz", &sh[2..]), "al-slot-non-hex", Some(false)),
                _ => (format!("0x{ah}"), format!("0x{}", &sh[1..]), "al-slot-odd-length", Some(false)),
            };
            let mut entries: Vec<J> = vec![J::Arr(vec![J::Str(addr), J::Arr(vec![J::Str(slot)])])];
            for (a2, s2) in model.access_list.iter().skip(1) {
                entries.push(J::Arr(vec![J::Str(hex0x(a2)), J::Arr(s2.iter().map(|s| J::Str(hex0x(s))).collect())]));
            }
            // the mutated first entry always carries exactly one slot
            model.access_list[0].1.truncate(1);
            if model.access_list[0].1.is_empty() {
                model.access_list[0].1.push([0u8; 32]);
            }
            ("accessList", J::Arr(entries), what, expect)
        }
    };
    for (k, v) in kv.iter_mut() {
        if k == key {
            *v = val.clone();
        }
    }
    BytesCase { doc: J::Obj(kv).render(), model, what: what.to_string(), expect_ok: expect }
}

fn judge_bytes(c: &BytesCase, cls: &mut Classifier) -> Verdict {
    let docs = crate::engine::truncate(&c.doc, 500);
    let obs = match observe(&c.doc) {
        Ok(o) => o,
        Err(p) => return fail("result or error", p, format!("transaction handling panicked: {docs}")),
    };
    match (c.expect_ok, &obs) {
        (Some(false), Ok(o)) => return fail("Err", format!("accepted, digest {}", hex_lower(&o.0)), format!("malformed byte field accepted ({}): {docs}", c.what)),
        (Some(true), Err(e)) => return fail("accepted", format!("Err({e})"), format!("well-formed byte field refused ({}): {docs}", c.what)),
        (Some(true), Ok(o)) => {
            if !matches_model(o, &c.model) {
                return fail(hex_lower(&c.model.digest()), hex_lower(&o.0), format!("byte field ({}) changes the encoding: {docs}", c.what));
            }
        }
        (None, Ok(o)) => {
            cls.unspecified(&c.what);
            if !matches_model(o, &c.model) {
                return fail(hex_lower(&c.model.digest()), hex_lower(&o.0), format!("unspecified spelling ({}) accepted but not self-consistent: {docs}", c.what));
            }
        }
        (None, Err(_)) => cls.unspecified(&c.what),
        _ => {}
    }
    cls.label(&format!("bytes/{}", c.what));
    cls.nontrivial(&c.doc);
    cls.sample(&format!("bytes-{}", c.what), || json!({"what": c.what, "doc": docs, "accepted": obs.is_ok()}));
    Ok(())
}

pub fn run(ctx: &mut Ctx) {
    ctx.rule = "for each of the five document shapes and each numeric field: a boundary-strategy value in a well-formed spelling (JSON integer, integral floats x.0 / xe0 / d.ddde+k / x0e-1, decimal string with/without leading zeros, 0x-hex in lower/upper/mixed case and with leading zeros), a malformed spelling (negative numbers and strings, fractions, inexact or too-large literals, 2^256 and above, empty, white space, separators, bad digits, Unicode digits, bool/array/object/null/absent for required fields), an exact-or-refuse literal (integral literals f64 cannot carry), or an unspecified spelling (+, 0b/0o, 0X, -0). Oracle: well-formed -> accepted and digest + both-parity encodings equal the reference encoding of the integer; malformed -> Err; literal -> refused or exactly its arbitrary-precision value (jsonnum). Byte fields/addresses/storage keys: prefix, even length, hex digits, exact sizes (also texts of the right length whose first two characters are not the prefix). CLI channel: the same generators and oracle observed through `hdwallet hash transaction` (file and stdin): digest line or ordinary error with empty stdout. Non-trivial: spelling other than a plain JSON integer or value >= 2^64; distinct by document.".into();
    ctx.assumptions = vec!["Rust's str::parse::<f64> is correctly rounded (used only inside the known-finding predicate)".into()];
    ctx.replay_known_and_regressions(&replay);
    let n = ctx.tier.pick(300_000, 5_000_000);
    ctx.run_prop("numbers", n, || crate::gen::tape(400).prop_map(gen_case), judge);
    ctx.run_prop("numbers", ctx.tier.pick(6000, 100_000), || crate::gen::tape(400).prop_map(gen_null_fee_case), judge);
    ctx.run_prop("bytes", ctx.tier.pick(50_000, 500_000), || crate::gen::tape(400).prop_map(gen_bytes_case), judge_bytes);
    if crate::cli::global_cli().is_some() {
        // the same cases through the executable: whatever the command does with the document before the
        // library sees it (reading, re-parsing, defaults) is part of what the user gets
        ctx.shrink_iters = 150;
        ctx.run_prop("cli", ctx.tier.pick(2000, 40_000), || crate::gen::tape(400).prop_map(gen_case), judge_cli);
        ctx.run_prop("cli-bytes", ctx.tier.pick(300, 5000), || crate::gen::tape(400).prop_map(gen_bytes_case), judge_bytes_cli);
        if ctx.cls.count("cli-timed-out") > 0 {
            ctx.inconclusive("CLI watchdog expired");
        }
        for cl in ["wellformed", "malformed", "literal"] {
            ctx.floor_abs(&format!("cli-class-{cl}"), 60);
        }
        ctx.floor_abs("cli-bytes", 200);
    } else {
        ctx.inconclusive("CLI executable not available for the CLI channel");
    }
    crate::fuzz::run_for(ctx);
    // every field x well-formed spelling cell must have been hit
    for f in NUMERIC_FIELDS {
        for sp in ALL_SPELLINGS {
            ctx.floor_abs(&format!("{f}/{sp:?}"), 5);
        }
        for l in ["negative-int", "negative-dec-string", "fraction", "inexact-literal", "too-large-dec-string", "too-large-hex-string", "empty-string", "bool", "null"] {
            ctx.floor_abs(&format!("{f}/{l}"), 3);
        }
    }
    ctx.floor_abs("class-literal", n as u64 / 20);
    ctx.floor_abs("bytes/al-slot-31-bytes", 20);
    ctx.floor_abs("bytes/al-slot-same-length-prefix-two-more-digits-no-prefix", 20);
    ctx.floor_abs("bytes/to-same-length-prefix-x0", 20);
    ctx.floor_abs("bytes/to-19-bytes", 20);
}

pub fn replay(sub: &str, case: &Value) -> Option<Verdict> {
    match sub {
        "numbers" => Some(replay_as::<Case>(case, judge)),
        "bytes" => Some(replay_as::<BytesCase>(case, judge_bytes)),
        "cli" => Some(replay_as::<Case>(case, judge_cli)),
        "cli-bytes" => Some(replay_as::<BytesCase>(case, judge_bytes_cli)),
        _ => None,
    }
}

pub fn gen_case_pub(tape: Vec<u8>) -> Case {
    gen_case(tape)
}
