//! C03 — derived keys equal BIP-32 CKDpriv along the whole path.

use crate::engine::{catch, fail, replay_as, Classifier, Ctx, Verdict};
use crate::gen::U;
use crate::refimpl::bip32::{self, Step};
use crate::refimpl::hex_lower;
use hdwallet::hdk;
use proptest::prelude::*;
use serde::{Deserialize, Serialize};
use serde_json::{json, Value};

#[derive(Clone, Debug, Serialize, Deserialize)]
pub struct Case {
    pub seed_hex: String,
    pub path: Vec<Step>,
}

pub fn gen_index(u: &mut U) -> u32 {
    match u.below(12) {
        0 => 0,
        1 => 1,
        2 => 0x7fff_ffff,
        3 => 0x7fff_fffe,
        4 => 0x0102_0304,
        5 => 0x00ff_ffff,
        6 => 0x0100_0000,
        7 => 44,
        8 => 60,
        9 => u.below(1000) as u32,
        _ => u.u32() & 0x7fff_ffff,
    }
}

pub fn gen_path(u: &mut U, max_depth: usize) -> Vec<Step> {
    let depth = u.range(1, max_depth);
    gen_path_of_depth(u, depth)
}

pub fn gen_path_of_depth(u: &mut U, depth: usize) -> Vec<Step> {
    let style = u.below(5);
    (0..depth)
        .map(|i| Step {
            index: gen_index(u),
            hardened: match style {
                0 => true,
                1 => false,
                2 => i < depth / 2, // hardened then normal (BIP-44 shape)
                3 => i >= depth / 2, // normal then hardened
                _ => u.bool(),
            },
        })
        .collect()
}

pub fn gen_seed(u: &mut U) -> Vec<u8> {
    let len = match u.below(10) {
        0..=1 => 16,
        2..=3 => 32,
        4..=6 => 64,
        7 => [0usize, 1, 15, 17, 31, 33, 63, 65, 127, 128, 129, 255, 256, 257, 512, 1024][u.below(16)],
        _ => u.range(1, 128),
    };
    match u.below(6) {
        0 => vec![0u8; len],
        1 => vec![0xff; len],
        2 => (0..len).map(|i| i as u8).collect(),
        _ => u.bytes(len),
    }
}

fn gen_case(tape: Vec<u8>) -> Case {
    let mut u = U::new(&tape);
    let seed = gen_seed(&mut u);
    let path = if u.ratio(1, 400) {
        // very deep paths (beyond a byte-sized depth counter)
        let depth = [64usize, 255, 256, 257, 300, 1000][u.below(6)];
        gen_path_of_depth(&mut u, depth)
    } else {
        gen_path(&mut u, 12)
    };
    Case { seed_hex: hex_lower(&seed), path }
}

/// A history: several derivations on ONE seed, judged in sequence on one thread, whose paths are related
/// (same indices with other hardened flags, siblings, prefixes, extensions, repeats) - the oracle is
/// history-independent, so state carried between calls shows as a wrong key.
#[derive(Clone, Debug, Serialize, Deserialize)]
pub struct Family {
    pub seed_hex: String,
    pub paths: Vec<Vec<Step>>,
}

fn gen_family(tape: Vec<u8>) -> Family {
    let mut u = U::new(&tape);
    let seed = gen_seed(&mut u);
    let base = gen_path(&mut u, 7);
    let mut paths = vec![base.clone()];
    let n = u.range(2, 6);
    for _ in 0..n {
        let prev = paths[u.below(paths.len())].clone();
        let mut p = prev.clone();
        match u.below(7) {
            0 => {
                // flip the hardened flag of one component
                let i = u.below(p.len());
                p[i].hardened = !p[i].hardened;
            }
            1 => {
                // sibling: other last index
                let l = p.len() - 1;
                p[l].index = gen_index(&mut u);
            }
            2 => {
                // flip the flag of a PARENT component and change the last index
                if p.len() >= 2 {
                    let i = u.below(p.len() - 1);
                    p[i].hardened = !p[i].hardened;
                }
                let l = p.len() - 1;
                p[l].index = p[l].index.wrapping_add(1) & 0x7fff_ffff;
            }
            3 => {
                p.pop();
                if p.is_empty() {
                    p = prev.clone();
                }
            }
            4 => p.push(Step { index: gen_index(&mut u), hardened: u.bool() }),
            5 => {} // the same path again
            _ => {
                // all flags inverted
                p.iter_mut().for_each(|s| s.hardened = !s.hardened);
            }
        }
        paths.push(p);
    }
    Family { seed_hex: hex_lower(&seed), paths }
}

fn judge_family(f: &Family, cls: &mut Classifier) -> Verdict {
    for (i, p) in f.paths.iter().enumerate() {
        if i > 0 {
            cls.eval();
        }
        let mut scratch = Classifier::default();
        judge(&Case { seed_hex: f.seed_hex.clone(), path: p.clone() }, &mut scratch).map_err(|mut e| {
            e.note = format!("derivation #{i} of a history on one seed (earlier paths: {}): {}", f.paths[..i].iter().map(|q| bip32::render(q)).collect::<Vec<_>>().join(", "), e.note);
            e
        })?;
    }
    cls.label("history");
    if f.paths.windows(2).any(|w| w[0].len() == w[1].len() && w[0].iter().zip(w[1].iter()).all(|(a, b)| a.index == b.index) && w[0] != w[1]) {
        cls.label("history-same-indices-other-flags");
    }
    cls.nontrivial(&(f.seed_hex.as_str(), f.paths.clone()));
    cls.sample("history", || json!({"seed": f.seed_hex, "paths": f.paths.iter().map(|p| bip32::render(p)).collect::<Vec<_>>()}));
    Ok(())
}

fn judge(c: &Case, cls: &mut Classifier) -> Verdict {
    let seed = crate::refimpl::unhex(&c.seed_hex).unwrap_or_default();
    if c.path.iter().any(|s| s.index >= 0x8000_0000) {
        return fail("indices below 2^31", "replay case with larger index", "C03 only covers indices below 2^31 (C14 covers the rest)");
    }
    let text = bip32::render(&c.path);
    let want = bip32::derive(&seed, &c.path);
    let got = catch(|| {
        let path = text.parse::<hdk::Path>().map_err(|e| format!("path parse: {e}"))?;
        hdk::derive(&seed, &path).map(|k| k.secret()).map_err(|e| format!("derive: {e}"))
    });
    let got = match got {
        Ok(g) => g,
        Err(p) => return fail("key or error", p, format!("derivation panicked for seed {} path {text}", c.seed_hex)),
    };
    match (want, got) {
        (Ok(w), Ok(g)) => {
            if w != g {
                return fail(hex_lower(&w), hex_lower(&g), format!("BIP-32 key for seed {} ({} bytes) at {text}", c.seed_hex, seed.len()));
            }
        }
        (Err(_), Err(_)) => cls.label("bip32-invalid-step"),
        (Err(e), Ok(g)) => return fail(format!("error {e:?}"), hex_lower(&g), "BIP-32 declares this step invalid but a key was returned"),
        (Ok(w), Err(e)) => return fail(hex_lower(&w), format!("Err({e})"), format!("derivation failed for seed {} at {text}", c.seed_hex)),
    }
    let depth = c.path.len();
    let any_h = c.path.iter().any(|s| s.hardened);
    let any_n = c.path.iter().any(|s| !s.hardened);
    cls.label(match (any_h, any_n) {
        (true, true) => "mixed",
        (true, false) => "all-hardened",
        _ => "all-normal",
    });
    if c.path.windows(2).any(|w| !w[0].hardened && w[1].hardened) {
        cls.label("hardened-below-normal");
    }
    if c.path.iter().any(|s| s.index >= 1 << 24) {
        cls.label("index>=2^24");
    }
    if c.path.iter().any(|s| s.index == 0x7fff_ffff) {
        cls.label("index=2^31-1");
    }
    if depth >= 8 {
        cls.label("depth>=8");
    }
    if depth >= 256 {
        cls.label("depth>=256");
    }
    cls.label(&format!("seedlen-{}", match seed.len() { 16 => "16", 32 => "32", 64 => "64", _ => "other" }));
    if depth != 5 || c.path.iter().any(|s| s.index != 0) {
        cls.nontrivial(&(c.seed_hex.as_str(), text.as_str()));
        cls.sample(if depth >= 8 { "deep" } else { "shallow" }, || json!({"seed": c.seed_hex, "path": text}));
    }
    Ok(())
}

pub fn run(ctx: &mut Ctx) {
    ctx.rule = "seed of 16/32/64 bytes (70%) or any length 1..128, uniform or structured; path of depth 1..12 with indices from {0,1,2^31-1,2^31-2,byte-order probes,small,uniform 31-bit}, hardened flags all/none/BIP-44-shaped/inverted/random; rendered to text and parsed (the only public constructor); one case in 400 has depth 64..1000; a second sub-check derives histories of 3..7 related paths (flags flipped, siblings, prefixes, extensions, repeats) on one seed in sequence on one thread. Oracle: BIP-32 written from the BIP over an independent secp256k1 (cross-checked against k256 in selftest). Non-trivial: some index != 0 or depth != 5; distinct by (seed, path).".into();
    ctx.assumptions = vec!["hmac/sha2 primitives are correct".into(), "BIP-32-invalid steps (I_L >= n, zero child) are unreachable by generation (probability < 2^-127)".into()];
    ctx.replay_known_and_regressions(&replay);
    let n = ctx.tier.pick(100_000, 1_000_000);
    ctx.run_prop("derive", n, || crate::gen::tape(160).prop_map(gen_case), judge);
    let total = ctx.cls.evaluations;
    ctx.run_prop("history", ctx.tier.pick(8000, 100_000), || crate::gen::tape(200).prop_map(gen_family), judge_family);
    ctx.floor_abs("history-same-indices-other-flags", 500);
    ctx.floor_abs("depth>=256", 20);
    ctx.floor("mixed", total, 0.2);
    ctx.floor("all-normal", total, 0.05);
    ctx.floor("hardened-below-normal", total, 0.1);
    ctx.floor("index>=2^24", total, 0.2);
    ctx.floor("depth>=8", total, 0.15);
}

pub fn replay(sub: &str, case: &Value) -> Option<Verdict> {
    match sub {
        "derive" => Some(replay_as::<Case>(case, judge)),
        "history" => Some(replay_as::<Family>(case, judge_family)),
        _ => None,
    }
}
