//! C20 — only well-formed EIP-712 domain types are accepted.

use crate::engine::{catch, fail, replay_as, Classifier, Ctx, Verdict};
use crate::gen::json::J;
use crate::gen::td::{self, TdModel, ValGen};
use crate::gen::U;
use crate::refimpl::eip712::{domain_well_formed, standard_domain_fields, StructDef, Ty, TypeGraph, Val};
use crate::refimpl::hex_lower;
use hdwallet::typeddata::TypedData;
use proptest::prelude::*;
use serde::{Deserialize, Serialize};
use serde_json::{json, Value};

#[derive(Clone, Debug, Serialize, Deserialize)]
pub struct Case {
    pub doc: String,
    /// the EIP712Domain member list as written (None: no EIP712Domain entry at all)
    pub members: Option<Vec<(String, Ty)>>,
    /// Some(model) when the domain is well-formed and the message valid: digests must match
    pub model: Option<TdModel>,
    /// what the rest of the document looks like: "valid", "malformed-message", "primary-is-domain"
    pub variant: String,
    pub family: String,
}

fn foo() -> StructDef {
    StructDef { name: "Foo".into(), members: vec![("x".into(), Ty::Bool)] }
}

fn msg_def() -> StructDef {
    StructDef { name: "Msg".into(), members: vec![("text".into(), Ty::String), ("n".into(), Ty::Uint(64))] }
}

/// Builds a document around the given domain member list.
pub fn build(members: Option<&[(String, Ty)]>, variant: &str, family: &str, seed: u64) -> Case {
    build_ext(members, None, variant, family, seed)
}

/// `values_for`: the members the domain VALUE carries (default: one per declared member). Used for a document
/// without a domain type whose domain value is filled in all the same, and for an ill-formed domain type whose
/// value leaves out the offending members (either way the document is refused: the type decides).
pub fn build_ext(members: Option<&[(String, Ty)]>, values_for: Option<&[(String, Ty)]>, variant: &str, family: &str, seed: u64) -> Case {
    let tape = crate::engine::Prng::new(seed).bytes(256);
    let mut u = U::new(&tape);
    let mut graph = TypeGraph { structs: vec![msg_def(), foo()] };
    let mut dom_vals: Vec<(String, Val)> = vec![];
    if let Some(ms) = members {
        graph.structs.push(StructDef { name: "EIP712Domain".into(), members: ms.to_vec() });
    }
    if let Some(ms) = values_for.or(members) {
        for (n, t) in ms {
            if dom_vals.iter().any(|(k, _)| k == n) {
                continue; // a repeated name can only carry one JSON value
            }
            let g2 = graph.clone();
            let mut vg = ValGen { graph: &g2, nodes: 0, node_limit: 20 };
            let undefined = matches!(t, Ty::Struct(name) if g2.get(name).is_none());
            if undefined {
                // a raw, undefined type name: give the value a user would give for the standard field
                let std_ty = standard_domain_fields().iter().find(|(sn, _)| sn == n).map(|(_, st)| st.clone()).unwrap_or(Ty::String);
                dom_vals.push((n.clone(), vg.val(&mut u, &std_ty, 1)));
            } else {
                dom_vals.push((n.clone(), vg.val(&mut u, t, 1)));
            }
        }
    }
    let domain = Val::Struct(dom_vals);
    let message = Val::Struct(vec![("text".into(), Val::Str("hello".into())), ("n".into(), Val::Uint(crate::refimpl::u256::Big::from_u128(7)))]);
    // render: types (declaration order kept for the domain members; entry order shuffled), domain, message
    let mut types = vec![];
    for s in &graph.structs {
        types.push((
            s.name.clone(),
            J::Arr(s.members.iter().map(|(n, t)| J::Obj(vec![("name".into(), J::Str(n.clone())), ("type".into(), J::Str(t.name()))])).collect()),
        ));
    }
    u.shuffle(&mut types);
    let dom_j = match &domain {
        Val::Struct(f) => J::Obj(
            f.iter()
                .map(|(n, v)| {
                    let mut t = values_for.or(members).and_then(|ms| ms.iter().find(|(mn, _)| mn == n)).map(|(_, t)| t.clone()).unwrap_or(Ty::String);
                    if matches!(&t, Ty::Struct(name) if graph.get(name).is_none()) {
                        t = standard_domain_fields().iter().find(|(sn, _)| sn == n).map(|(_, st)| st.clone()).unwrap_or(Ty::String);
                    }
                    (n.clone(), td::render_val(&t, v, &graph, &mut u))
                })
                .collect(),
        ),
        _ => unreachable!(),
    };
    let (primary, msg_j): (&str, J) = match variant {
        "malformed-message" => ("Msg", J::Obj(vec![("text".into(), J::Num("5".into()))])),
        "primary-is-domain" => ("EIP712Domain", dom_j.clone()),
        _ => ("Msg", J::Obj(vec![("text".into(), J::Str("hello".into())), ("n".into(), J::Num("7".into()))])),
    };
    let mut top = vec![
        ("types".to_string(), J::Obj(types)),
        ("primaryType".to_string(), J::Str(primary.into())),
        ("domain".to_string(), dom_j),
        ("message".to_string(), msg_j),
    ];
    u.shuffle(&mut top);
    let well = members.map(domain_well_formed).unwrap_or(false);
    let model = if well && variant != "malformed-message" {
        Some(TdModel {
            graph: graph.clone(),
            primary: primary.to_string(),
            message: if variant == "primary-is-domain" { domain.clone() } else { message },
            domain: domain.clone(),
        })
    } else {
        None
    };
    let style = u.u64();
    Case { doc: J::Obj(top).render_styled(style), members: members.map(|m| m.to_vec()), model, variant: variant.into(), family: family.into() }
}

fn judge(c: &Case, cls: &mut Classifier) -> Verdict {
    let docs = crate::engine::truncate(&c.doc, 900);
    let well = c.members.as_deref().map(domain_well_formed).unwrap_or(false);
    let shown: Vec<String> = c.members.as_deref().unwrap_or(&[]).iter().map(|(n, t)| format!("{} {}", t.name(), n)).collect();
    let got = crate::isolate::inflight("typeddata", c.doc.as_bytes(), "generated", || {
        catch(|| serde_json::from_str::<TypedData>(&c.doc).map(|t| (t.domain_separator().0, t.message_hash().0, t.signing_message().0)).map_err(|e| e.to_string()))
    });
    let got = match got {
        Ok(g) => g,
        Err(p) => return fail("result or error", p, format!("typed-data handling panicked for domain type ({}): {docs}", shown.join(","))),
    };
    match (well, c.variant.as_str(), got) {
        (false, _, Ok((ds, ..))) => {
            return fail("Err", format!("accepted, domain separator {}", hex_lower(&ds)), format!("ill-formed domain type EIP712Domain({}) accepted [{} / {}]: {docs}", shown.join(","), c.family, c.variant));
        }
        (false, _, Err(_)) => cls.label("refused-ill-formed"),
        (true, "malformed-message", Ok(_)) => return fail("Err", "accepted", format!("malformed message accepted: {docs}")),
        (true, "malformed-message", Err(_)) => cls.label("well-formed-domain-malformed-message"),
        (true, _, Err(e)) => return fail("accepted", format!("Err({e})"), format!("well-formed domain type EIP712Domain({}) refused: {docs}", shown.join(","))),
        (true, _, Ok((ds, mh, dg))) => {
            let m = c.model.as_ref().expect("model for well-formed case");
            let Some((wds, wmh, wdg)) = td::expected(m) else {
                return fail("conforming model", "reference refuses", "harness: C20 model");
            };
            if ds != wds {
                return fail(hex_lower(&wds), hex_lower(&ds), format!("domain separator for EIP712Domain({}): {docs}", shown.join(",")));
            }
            if (mh, dg) != (wmh, wdg) {
                return fail(hex_lower(&wdg), hex_lower(&dg), format!("digests for {docs}"));
            }
            cls.label("accepted-well-formed");
        }
    }
    cls.label(&format!("family-{}", c.family));
    cls.label(&format!("variant-{}", c.variant));
    cls.nontrivial(&c.doc);
    cls.sample(&format!("{}-{}", c.family, if well { "ok" } else { "refused" }), || json!({"domain_type": shown, "variant": c.variant, "well_formed": well, "doc": crate::engine::truncate(&c.doc, 500)}));
    Ok(())
}

pub fn near_miss_types() -> Vec<Ty> {
    vec![
        Ty::Uint(8),
        Ty::Uint(128),
        Ty::Uint(248),
        Ty::Int(256),
        Ty::Bytes,
        Ty::BytesN(31),
        Ty::BytesN(32),
        Ty::BytesN(1),
        Ty::Array(Box::new(Ty::BytesN(32)), None),
        Ty::Array(Box::new(Ty::String), None),
        Ty::Array(Box::new(Ty::Address), Some(1)),
        Ty::Array(Box::new(Ty::Uint(256)), Some(1)),
        Ty::Bool,
        Ty::String,
        Ty::Address,
        Ty::Uint(256),
        Ty::Struct("Foo".into()),
        // raw type strings that are NOT the standard type (rendered verbatim; none of them is a defined struct)
        Ty::Struct("uint".into()),
        Ty::Struct("int".into()),
        Ty::Struct("byte".into()),
        Ty::Struct("bytes32 ".into()),
        Ty::Struct(" string".into()),
        Ty::Struct("String".into()),
        Ty::Struct("Address".into()),
        Ty::Struct("address payable".into()),
        Ty::Struct("uint0256".into()),
        Ty::Struct("uint 256".into()),
        Ty::Struct("UINT256".into()),
        Ty::Struct("bytes032".into()),
        Ty::Struct("bytes".to_string() + "32\u{0}"),
        Ty::Struct("uint256[0]".into()),
        Ty::Struct("string memory".into()),
        // widths that equal the standard one only after wrapping to 8, 16, 32 or 64 bits
        Ty::Struct("uint4294967552".into()),
        Ty::Struct("uint65792".into()),
        Ty::Struct("uint18446744073709551872".into()),
        Ty::Struct("bytes288".into()),
        Ty::Struct("bytes65568".into()),
        Ty::Struct("bytes4294967328".into()),
        Ty::Struct("bytes18446744073709551648".into()),
    ]
}

const FOREIGN: [&str; 30] = [
    "description",
    "Name",
    "chainid",
    "salt ",
    "",
    "NAME",
    "chain_id",
    "verifyingcontract",
    "version2",
    " name",
    // names that embed the text of type-string syntax (an implementation that checks the rendered
    // encodeType string instead of the member list can be fooled by them)
    "name,string version",
    "chainId,address verifyingContract",
    "version,uint256 chainId",
    "name)",
    "(name",
    "name string",
    "version,",
    ",",
    "salt)EIP712Domain(string name",
    "name\u{0}",
    // names that become a standard name under a Unicode normalisation, case folding or removal of ignorable characters
    "\u{ff4e}\u{ff41}\u{ff4d}\u{ff45}",
    "\u{17f}alt",
    "\u{ff56}\u{ff45}\u{ff52}\u{ff53}\u{ff49}\u{ff4f}\u{ff4e}",
    "chain\u{ff29}d",
    "\u{ff53}\u{ff41}\u{ff4c}\u{ff54}",
    "na\u{ad}me",
    "name\u{200b}",
    "\u{feff}salt",
    "verifyingContract\u{200d}",
    "ver\u{17f}ion",
];

/// names that are not a standard name but become one under NFKC/NFKD, case folding, trimming or removal of
/// ignorable characters; with the index of that standard field
const LOOKALIKE: [(&str, usize); 22] = [
    ("\u{ff4e}\u{ff41}\u{ff4d}\u{ff45}", 0),
    ("Name", 0),
    ("NAME", 0),
    (" name", 0),
    ("name\u{200b}", 0),
    ("na\u{ad}me", 0),
    ("\u{ff56}\u{ff45}\u{ff52}\u{ff53}\u{ff49}\u{ff4f}\u{ff4e}", 1),
    ("ver\u{17f}ion", 1),
    ("Version", 1),
    ("version ", 1),
    ("chain\u{ff29}d", 2),
    ("chainid", 2),
    ("chainID", 2),
    ("chain_id", 2),
    ("\u{ff43}hainId", 2),
    ("verifyingcontract", 3),
    ("verifying_contract", 3),
    ("veri\u{fb01}yingContract", 3),
    ("verifyingContract\u{200d}", 3),
    ("\u{17f}alt", 4),
    ("\u{ff53}\u{ff41}\u{ff4c}\u{ff54}", 4),
    ("\u{feff}salt", 4),
];

fn enumerate(seed: u64) -> Vec<Case> {
    let std = standard_domain_fields();
    let stdm: Vec<(String, Ty)> = std.iter().map(|(n, t)| (n.to_string(), t.clone())).collect();
    let mut out = vec![];
    let mut k = 0u64;
    let mut next = || {
        k += 1;
        crate::engine::derive_seed(seed, &["c20"], k)
    };
    // (i) all duplicate-free orderings of subsets (326 incl. the empty one)
    fn perms(items: &[usize], cur: &mut Vec<usize>, out: &mut Vec<Vec<usize>>) {
        out.push(cur.clone());
        for i in items {
            if !cur.contains(i) {
                cur.push(*i);
                perms(items, cur, out);
                cur.pop();
            }
        }
    }
    let mut orderings = vec![];
    perms(&[0, 1, 2, 3, 4], &mut vec![], &mut orderings);
    assert_eq!(orderings.len(), 326);
    for o in &orderings {
        let ms: Vec<(String, Ty)> = o.iter().map(|i| stdm[*i].clone()).collect();
        out.push(build(Some(&ms), "valid", "orderings", next()));
        out.push(build(Some(&ms), "malformed-message", "orderings", next()));
        if !ms.is_empty() {
            out.push(build(Some(&ms), "primary-is-domain", "orderings", next()));
        }
    }
    // (ii) all sequences of length 1..=5 with repetition (3905)
    let mut count = 0;
    for len in 1..=5usize {
        let total = 5usize.pow(len as u32);
        for code in 0..total {
            let mut c = code;
            let mut ms = vec![];
            for _ in 0..len {
                ms.push(stdm[c % 5].clone());
                c /= 5;
            }
            out.push(build(Some(&ms), "valid", "sequences", next()));
            count += 1;
        }
    }
    assert_eq!(count, 3905);
    // (iii) each well-formed domain with one field's type replaced by each near-miss type
    for mask in 1u8..32 {
        let base: Vec<(String, Ty)> = (0..5).filter(|i| mask & (1 << i) != 0).map(|i| stdm[i].clone()).collect();
        for fi in 0..base.len() {
            for t in near_miss_types() {
                let mut ms = base.clone();
                ms[fi].1 = t;
                out.push(build(Some(&ms), "valid", "type-substitution", next()));
            }
        }
        // (iv) a foreign field at every position
        for pos in 0..=base.len() {
            for f in FOREIGN {
                let mut ms = base.clone();
                ms.insert(pos, (f.to_string(), [Ty::String, Ty::Uint(256), Ty::Bool][pos % 3].clone()));
                out.push(build(Some(&ms), "valid", "foreign-field", next()));
            }
        }
    }
    // (viii) a look-alike of a standard name, with that field's standard type, at that field's standard place
    for mask in 0u8..32 {
        for (name, si) in LOOKALIKE {
            if mask & (1 << si) != 0 {
                continue;
            }
            let mut ms: Vec<(String, Ty)> = vec![];
            for i in 0..5 {
                if i == si {
                    ms.push((name.to_string(), stdm[i].1.clone()));
                } else if mask & (1 << i) != 0 {
                    ms.push(stdm[i].clone());
                }
            }
            out.push(build(Some(&ms), "valid", "lookalike-field", next()));
            // ... and with the domain VALUE spelled with the standard names
            let vals: Vec<(String, Ty)> = (0..5).filter(|i| *i == si || mask & (1 << i) != 0).map(|i| stdm[i].clone()).collect();
            out.push(build_ext(Some(&ms), Some(&vals), "valid", "lookalike-field", next()));
        }
    }
    // (v) no EIP712Domain entry at all: with an empty domain value, and with a domain value that carries the
    // standard fields all the same (what libraries that derive the type from the value are given)
    for v in ["valid", "malformed-message"] {
        out.push(build(None, v, "no-domain-type", next()));
    }
    for mask in 1u8..32 {
        let vals: Vec<(String, Ty)> = (0..5).filter(|i| mask & (1 << i) != 0).map(|i| stdm[i].clone()).collect();
        out.push(build_ext(None, Some(&vals), "valid", "no-domain-type", next()));
    }
    // (vii) ill-formed domain types whose VALUE leaves out the offending members and keeps the well-formed ones
    let ill: Vec<Vec<(String, Ty)>> = out.iter().filter(|c| matches!(c.family.as_str(), "type-substitution" | "foreign-field")).filter_map(|c| c.members.clone()).step_by(3).collect();
    for ms in ill {
        let keep = well_formed_part(&ms);
        if !keep.is_empty() && keep.len() < ms.len() {
            out.push(build_ext(Some(&ms), Some(&keep), "valid", "value-omits-offending-members", next()));
        }
    }
    out
}

/// the members of a list that are standard (name, type) pairs, first occurrence each
fn well_formed_part(ms: &[(String, Ty)]) -> Vec<(String, Ty)> {
    let std = standard_domain_fields();
    let mut keep: Vec<(String, Ty)> = vec![];
    for (n, t) in ms {
        if std.iter().any(|(sn, st)| sn == n && st == t) && !keep.iter().any(|(k, _)| k == n) {
            keep.push((n.clone(), t.clone()));
        }
    }
    keep
}

fn gen_mixture(tape: Vec<u8>) -> Case {
    let mut u = U::new(&tape);
    let std = standard_domain_fields();
    let len = u.below(7);
    let pool = near_miss_types();
    let mut ms = vec![];
    // start from a standard-order subset, then perturb
    let mut idx: Vec<usize> = (0..5).filter(|_| u.bool()).collect();
    if u.ratio(1, 3) {
        u.shuffle(&mut idx);
    }
    for i in idx {
        ms.push((std[i].0.to_string(), std[i].1.clone()));
    }
    for _ in 0..len.min(3) {
        match u.below(4) {
            0 if !ms.is_empty() => {
                let i = u.below(ms.len());
                ms[i].1 = pool[u.below(pool.len())].clone();
            }
            1 => {
                let i = u.below(ms.len() + 1);
                ms.insert(i, (FOREIGN[u.below(FOREIGN.len())].to_string(), pool[u.below(pool.len())].clone()));
            }
            2 if !ms.is_empty() => {
                let i = u.below(ms.len());
                let d = ms[i].clone();
                let j = u.below(ms.len() + 1);
                ms.insert(j, d);
            }
            _ => {}
        }
    }
    let variant = ["valid", "valid", "malformed-message", "primary-is-domain"][u.below(4)];
    let variant = if variant == "primary-is-domain" && ms.is_empty() { "valid" } else { variant };
    if variant == "valid" && !domain_well_formed(&ms) && u.ratio(1, 3) {
        let keep = well_formed_part(&ms);
        if !keep.is_empty() && keep.len() < ms.len() {
            return build_ext(Some(&ms), Some(&keep), "valid", "mixture", u.u64());
        }
    }
    build(Some(&ms), variant, "mixture", u.u64())
}

// ---------------------------------------------------------------- CLI sample

fn judge_cli(c: &Case, cls: &mut Classifier) -> Verdict {
    use crate::cli::Invocation;
    let well = c.members.as_deref().map(domain_well_formed).unwrap_or(false);
    let root = crate::cli::global_root();
    let phrase = crate::refimpl::bip39::encode_phrase(&[0x21u8; 16]);
    let file = crate::cli::temp_file(&root, c.doc.as_bytes());
    let f = file.to_string_lossy().to_string();
    let shown: Vec<String> = c.members.as_deref().unwrap_or(&[]).iter().map(|(n, t)| format!("{} {}", t.name(), n)).collect();
    let expected = c.model.as_ref().and_then(td::expected);
    let runs: [(Invocation, Option<[u8; 32]>); 4] = [
        (Invocation::new(&["hash", "typeddata", &f]), expected.map(|e| e.2)),
        (Invocation::new(&["hash", "typeddata", "--message-hash", &f]), expected.map(|e| e.1)),
        (Invocation::new(&["hash", "typeddata", "-m", "-"]).stdin(c.doc.as_bytes()), expected.map(|e| e.1)),
        (Invocation::new(&["sign", "--mnemonic", &phrase, "typeddata", &f]), None),
    ];
    for (inv, want) in runs {
        let Some(out) = crate::cli::run_global(&inv) else { return fail("cli", "not configured", "CLI not available") };
        if out.timed_out {
            cls.label("timed-out");
            continue;
        }
        let cmd = inv.args.iter().take(4).cloned().collect::<Vec<_>>().join(" ");
        if well && c.variant != "malformed-message" {
            if !out.ok() {
                return fail("success", out.describe(), format!("`hdwallet {cmd}` on a document with the well-formed domain type EIP712Domain({})", shown.join(",")));
            }
            if let Some(w) = want {
                if out.stdout_str().trim_end() != format!("0x{}", hex_lower(&w)) {
                    return fail(format!("0x{}", hex_lower(&w)), out.describe(), format!("`hdwallet {cmd}` digest for EIP712Domain({})", shown.join(",")));
                }
            }
        } else if !out.ordinary_error() || !out.stdout.is_empty() {
            return fail(
                "error exit with empty stdout",
                out.describe(),
                format!("`hdwallet {cmd}` on a document whose domain type EIP712Domain({}) is {} [{} / {}]", shown.join(","), if well { "well-formed but whose message is malformed" } else { "ill-formed" }, c.family, c.variant),
            );
        }
    }
    let _ = std::fs::remove_file(file);
    cls.label(if well { "cli-well-formed" } else { "cli-ill-formed" });
    cls.nontrivial(&(c.doc.as_str(), "cli"));
    Ok(())
}

pub fn run(ctx: &mut Ctx) {
    ctx.rule = "EIP712Domain member lists: (i) all 326 duplicate-free orderings of subsets of the five standard fields, each with a valid message, a malformed message and with EIP712Domain as primaryType; (ii) all 3905 sequences of length 1..5 over the five names with repetition; (iii) each of the 31 well-formed domains with one field's type replaced by each of 39 near-miss types (17 other EIP-712 types and 22 raw type strings such as uint, int, String, 'bytes32 ', uint0256, and widths that equal 256 or 32 only after wrapping to 8/16/32/64 bits); (iv) a foreign field (30 names, incl. look-alikes under Unicode normalisation and names embedding type-string syntax such as 'name,string version') inserted at every position of each well-formed domain; (v) no EIP712Domain entry, with an empty domain value and with each of the 31 standard-field selections as domain value; (vi) generated mixtures; (vii) ill-formed domain types whose value leaves out the offending members and keeps the well-formed ones; (viii) 22 look-alikes of a standard name (full-width and ligature forms, long s, other letter case, snake case, trailing/leading blank, zero-width and soft-hyphen insertions) with that field's standard type at that field's standard place, beside every selection of the other four, the domain value spelled once with the look-alike and once with the standard name. Otherwise domain values are generated to match the declared members so the domain type is the only variable. Oracle: truth table accepted <=> non-empty, standard (name,type) pairs, no repeats, standard relative order; accepted documents must hash to the reference domain separator/digest; refused ones are Err whatever the message is; a CLI sample runs `hash typeddata`, `hash typeddata --message-hash` (file and stdin) and `sign typeddata` on every well-formed domain and a stride of the ill-formed ones: all commands must apply the same rule (digests equal the reference / error exit with empty stdout). Non-trivial: all; distinct by document.".into();
    ctx.assumptions = vec![];
    ctx.replay_known_and_regressions(&replay);
    let cases = enumerate(ctx.seed);
    ctx.run_cases("enumerated", &cases, judge);
    ctx.exhaustive_parts.push("326 orderings; 3905 sequences with repetition; 31 x fields x 39 type substitutions; 22 look-alike names x 16 selections; foreign field at every position; missing domain type".into());
    let n = ctx.tier.pick(50_000, 500_000);
    ctx.run_prop("mixture", n, || crate::gen::tape(300).prop_map(gen_mixture), judge);
    // CLI sample: every command that reads typed data must apply the same domain-type rule
    if crate::cli::global_cli().is_some() {
        let step = ctx.tier.pick(37, 5);
        let sample: Vec<Case> = cases.iter().enumerate().filter(|(i, c)| i % step == 0 || c.family == "no-domain-type" || (c.family == "orderings" && c.model.is_some() && c.variant == "valid")).map(|(_, c)| c.clone()).collect();
        ctx.run_cases("cli", &sample, judge_cli);
        if ctx.cls.count("timed-out") > 0 {
            ctx.inconclusive("CLI watchdog expired");
        }
        ctx.floor_abs("cli-well-formed", 31);
        ctx.floor_abs("cli-ill-formed", 150);
    } else {
        ctx.inconclusive("CLI executable not available for the domain-type CLI sample");
    }
    ctx.floor_abs("accepted-well-formed", 31 * 2);
    ctx.floor_abs("refused-ill-formed", 4000);
    ctx.floor_abs("well-formed-domain-malformed-message", 31);
    ctx.floor_abs("variant-primary-is-domain", 300);
}

pub fn replay(sub: &str, case: &Value) -> Option<Verdict> {
    match sub {
        "enumerated" | "mixture" => Some(replay_as::<Case>(case, judge)),
        "cli" => Some(replay_as::<Case>(case, judge_cli)),
        _ => None,
    }
}
