//! C15 — printed signatures parse back; `sign transaction --signature-only`
//! feeds `hash transaction --signature`.
//!
//! In-process sub-checks drive `Signature`'s `Display`/`FromStr`; the oracle is
//! `read_text`, an independent reading of signature text written from the
//! property statement (it never calls hdwallet). CLI sub-checks drive the
//! built executable.

use crate::cli::{self, CliOut, Invocation};
use crate::engine::{catch, fail, replay_as, truncate, Classifier, Ctx, Failure, Prng, Verdict};
use crate::gen::txgen::{self, TxCase};
use crate::gen::U;
use crate::refimpl::tx::{Kind, TxModel};
use crate::refimpl::{bip39, hex_lower, keccak, rlp, secp, unhex};
use ethdigest::Digest;
use ethnum::U256;
use hdwallet::account::{PrivateKey, Signature};
use proptest::prelude::*;
use serde::{Deserialize, Serialize};
use serde_json::{json, Value};
use std::cmp::Ordering;
use std::path::PathBuf;
use std::sync::{Mutex, OnceLock};
use std::time::Duration;

type B32 = [u8; 32];

static CLI: OnceLock<PathBuf> = OnceLock::new();
static ROOT: OnceLock<PathBuf> = OnceLock::new();
/// watchdog expiries seen by CLI judges (drained into ctx.inconclusive by run)
static TIMEOUTS: Mutex<Vec<String>> = Mutex::new(Vec::new());

fn cli_path() -> Option<PathBuf> {
    CLI.get().cloned().or_else(|| std::env::var_os("HDV_CLI").map(PathBuf::from))
}

fn root_path() -> PathBuf {
    ROOT.get().cloned().or_else(|| std::env::var_os("HDV_ROOT").map(PathBuf::from)).unwrap_or_else(|| PathBuf::from("/verif"))
}

fn set_paths(ctx: &Ctx) {
    if let Some(c) = &ctx.cli {
        let _ = CLI.set(c.clone());
    }
    let _ = ROOT.set(ctx.root.clone());
}

// ---------------------------------------------------------------- reference reading of signature text

#[derive(Clone, Debug, PartialEq, Eq)]
pub struct Denoted {
    pub r: B32,
    pub s: B32,
    pub parity: bool,
}

impl Denoted {
    fn show(&self) -> String {
        format!("r={} s={} yParity={}", hex_lower(&self.r), hex_lower(&self.s), u8::from(self.parity))
    }
}

#[derive(Clone, Debug, PartialEq, Eq)]
pub enum Reading {
    /// the spelling the property decides: must parse to exactly this signature
    Canonical(Denoted),
    /// a spelling the property does not decide (upper-case digits, `0X`, high s):
    /// no panic; if accepted it must denote this signature
    Unspecified(&'static str, Denoted),
    /// does not denote a signature: must be an error
    Malformed(&'static str),
}

fn nibble(c: u8) -> Option<u8> {
    match c {
        b'0'..=b'9' => Some(c - b'0'),
        b'a'..=b'f' => Some(c - b'a' + 10),
        b'A'..=b'F' => Some(c - b'A' + 10),
        _ => None,
    }
}

fn scalar_in_range(x: &B32) -> bool {
    !secp::is_zero(x) && secp::cmp(x, &secp::N) == Ordering::Less
}

/// What a text denotes, from the property statement alone: optional `0x`,
/// then exactly 130 hex digits = r (32 bytes) || s (32 bytes) || v (27/28),
/// with 1 <= r, s < n.
pub fn read_text(text: &str) -> Reading {
    let (upper_prefix, body) = if let Some(b) = text.strip_prefix("0x") {
        (false, b)
    } else if let Some(b) = text.strip_prefix("0X") {
        (true, b)
    } else {
        (false, text)
    };
    if !body.bytes().all(|c| nibble(c).is_some()) {
        return Reading::Malformed(if text.trim() != text {
            "whitespace"
        } else if body.starts_with("0x") || body.starts_with("0X") {
            "doubled-prefix"
        } else {
            "non-hex"
        });
    }
    if body.len() != 130 {
        return Reading::Malformed("wrong-length");
    }
    let b = body.as_bytes();
    let mut raw = [0u8; 65];
    for (i, o) in raw.iter_mut().enumerate() {
        *o = (nibble(b[2 * i]).unwrap() << 4) | nibble(b[2 * i + 1]).unwrap();
    }
    let parity = match raw[64] {
        27 => false,
        28 => true,
        _ => return Reading::Malformed("bad-v"),
    };
    let r: B32 = raw[..32].try_into().unwrap();
    let s: B32 = raw[32..64].try_into().unwrap();
    if !scalar_in_range(&r) {
        return Reading::Malformed("r-out-of-range");
    }
    if !scalar_in_range(&s) {
        return Reading::Malformed("s-out-of-range");
    }
    let d = Denoted { r, s, parity };
    if upper_prefix {
        Reading::Unspecified("0X-prefix", d)
    } else if body.bytes().any(|c| c.is_ascii_uppercase()) {
        Reading::Unspecified("upper-case-digits", d)
    } else if secp::cmp(&s, &secp::HALF_N) == Ordering::Greater {
        Reading::Unspecified("high-s", d)
    } else {
        Reading::Canonical(d)
    }
}

/// `0x` || hex64(r) || hex64(s) || hex2(27 + yParity), built with the harness' own hex loop.
pub fn canonical_text(r: &B32, s: &B32, parity: bool, prefix: bool) -> String {
    format!("{}{}{}{}", if prefix { "0x" } else { "" }, hex_lower(r), hex_lower(s), hex_lower(&[27 + u8::from(parity)]))
}

/// Compares printed text with the expected lower-case rendering. The property
/// fixes the `0x`, the digit positions and the widths, not the letter case of
/// the digits, so case is compared leniently and only counted.
fn printed_matches(printed: &str, expected: &str, cls: &mut Classifier) -> bool {
    if printed == expected {
        return true;
    }
    if printed.starts_with("0x") && printed.eq_ignore_ascii_case(expected) {
        cls.unspecified("printed-with-upper-case-digits");
        return true;
    }
    false
}

// ---------------------------------------------------------------- observing hdwallet signatures

#[derive(Clone, Debug, PartialEq, Eq)]
struct Obs {
    r: B32,
    s: B32,
    y_parity: U256,
}

impl Obs {
    fn show(&self) -> String {
        format!("r={} s={} yParity={}", hex_lower(&self.r), hex_lower(&self.s), self.y_parity)
    }
    fn same_as(&self, d: &Denoted) -> bool {
        self.r == d.r && self.s == d.s && self.y_parity == U256::from(u8::from(d.parity))
    }
}

fn observe(sig: &Signature) -> Result<Obs, String> {
    catch(|| Obs { r: sig.r().to_be_bytes(), s: sig.s().to_be_bytes(), y_parity: sig.y_parity() })
}

/// parse result of the code under test: Ok(Ok(sig)) / Ok(Err(message)) / Err(panic)
fn parse(text: &str) -> Result<Result<Signature, String>, String> {
    catch(|| text.parse::<Signature>().map_err(|e| e.to_string()))
}

/// Judges one text against `read_text`. This is the oracle of every text sub-check.
pub fn judge_text(text: &str, cls: &mut Classifier) -> Verdict {
    let shown = truncate(&format!("{text:?}"), 400);
    let got = match parse(text) {
        Ok(g) => g,
        Err(p) => return fail("Ok or Err without panicking", p, format!("Signature::from_str panicked on {shown}")),
    };
    let got = match got {
        Ok(sig) => match observe(&sig) {
            Ok(o) => Ok((sig, o)),
            Err(p) => return fail("accessors return", p, format!("accessor panicked on the signature parsed from {shown}")),
        },
        Err(e) => Err(e),
    };
    match (read_text(text), got) {
        (Reading::Malformed(why), Ok((_, o))) => fail(
            format!("Err ({why})"),
            format!("Ok({})", o.show()),
            format!("text that does not denote a signature ({why}) was accepted: {shown}"),
        ),
        (Reading::Malformed(why), Err(_)) => {
            cls.label(&format!("text-rejected-{why}"));
            Ok(())
        }
        (Reading::Canonical(d), Err(e)) => {
            fail(format!("Ok({})", d.show()), format!("Err({e})"), format!("well-formed signature text refused: {shown}"))
        }
        (Reading::Canonical(d), Ok((sig, o))) => {
            if !o.same_as(&d) {
                return fail(d.show(), o.show(), format!("parsed signature differs from what the text denotes: {shown}"));
            }
            // printing the parsed signature gives the canonical spelling again
            let again = match catch(|| sig.to_string()) {
                Ok(t) => t,
                Err(p) => return fail("text", p, format!("Display panicked on the signature parsed from {shown}")),
            };
            let want = canonical_text(&d.r, &d.s, d.parity, true);
            if !printed_matches(&again, &want, cls) {
                return fail(want, again, format!("printing the signature parsed from {shown}"));
            }
            cls.label("text-accepted-canonical");
            Ok(())
        }
        (Reading::Unspecified(what, d), Ok((_, o))) => {
            if !o.same_as(&d) {
                return fail(
                    format!("Err, or Ok({})", d.show()),
                    format!("Ok({})", o.show()),
                    format!("accepted {what} spelling denotes other scalars than written: {shown}"),
                );
            }
            cls.unspecified(&format!("{what}:accepted"));
            Ok(())
        }
        (Reading::Unspecified(what, _), Err(_)) => {
            cls.unspecified(&format!("{what}:rejected"));
            Ok(())
        }
    }
}

fn failure(expected: impl Into<String>, observed: impl Into<String>, note: impl Into<String>) -> Failure {
    Failure { expected: expected.into(), observed: observed.into(), note: note.into(), known: None }
}

/// Print form and both parse directions for a signature object.
fn judge_roundtrip(sig: &Signature, origin: &str, cls: &mut Classifier) -> Result<(String, Denoted), Failure> {
    let o = observe(sig).map_err(|p| failure("accessors return", p, format!("accessor panicked; {origin}")))?;
    let parity = if o.y_parity == U256::ZERO {
        false
    } else if o.y_parity == U256::ONE {
        true
    } else {
        return Err(failure("0 or 1", o.y_parity.to_string(), format!("y_parity(); {origin}")));
    };
    let d = Denoted { r: o.r, s: o.s, parity };
    let text = catch(|| sig.to_string()).map_err(|p| failure("text", p, format!("Display panicked; {origin}")))?;
    let want = canonical_text(&d.r, &d.s, d.parity, true);
    if !printed_matches(&text, &want, cls) {
        return Err(failure(want, text, format!("to_string() must be 0x || hex64(r) || hex64(s) || hex2(27+yParity); {origin}")));
    }
    let high_s = secp::cmp(&d.s, &secp::HALF_N) == Ordering::Greater;
    let bare = text.get(2..).unwrap_or("").to_string();
    for (how, t) in [("with the 0x prefix", text.as_str()), ("without the prefix", bare.as_str())] {
        if high_s {
            // parsing a high-s signature is not decided by the property
            judge_text(t, cls)?;
            continue;
        }
        match parse(t) {
            Err(p) => return Err(failure(d.show(), p, format!("parsing the printed signature {how} panicked: {t:?}; {origin}"))),
            Ok(Err(e)) => {
                return Err(failure(format!("Ok({})", d.show()), format!("Err({e})"), format!("printed signature does not parse back {how}: {t:?}; {origin}")))
            }
            Ok(Ok(back)) => {
                let ob = observe(&back).map_err(|p| failure("accessors return", p, "accessor panicked"))?;
                let equal = catch(|| back == *sig).unwrap_or(false);
                if !equal || ob != o {
                    return Err(failure(o.show(), ob.show(), format!("parse(to_string()) {how} is not an equal signature (==: {equal}): {t:?}; {origin}")));
                }
            }
        }
    }
    // spellings the property does not decide, derived from the printed text
    judge_text(&format!("0x{}", want[2..].to_ascii_uppercase()), cls)?;
    judge_text(&format!("0X{}", &want[2..]), cls)?;
    Ok((text, d))
}

fn pad_labels(prefix: &str, d: &Denoted, cls: &mut Classifier) {
    cls.label(&format!("{prefix}-parity-{}", u8::from(d.parity)));
    if d.r[0] >> 4 == 0 || d.s[0] >> 4 == 0 {
        cls.label(&format!("{prefix}-leading-zero-nibble"));
    }
    if d.r[0] == 0 || d.s[0] == 0 {
        cls.label(&format!("{prefix}-leading-zero-byte"));
    }
}

// ---------------------------------------------------------------- scalar helpers and generators

fn b32(v: u128) -> B32 {
    let mut o = [0u8; 32];
    o[16..].copy_from_slice(&v.to_be_bytes());
    o
}

fn add_small(a: &B32, k: u8) -> B32 {
    let mut o = *a;
    let mut carry = k as u16;
    for i in (0..32).rev() {
        let v = o[i] as u16 + carry;
        o[i] = v as u8;
        carry = v >> 8;
        if carry == 0 {
            break;
        }
    }
    o
}

fn sub_small(a: &B32, k: u8) -> B32 {
    let mut o = *a;
    let mut borrow = k as i16;
    for i in (0..32).rev() {
        let v = o[i] as i16 - borrow;
        if v < 0 {
            o[i] = (v + 256) as u8;
            borrow = 1;
        } else {
            o[i] = v as u8;
            borrow = 0;
        }
        if borrow == 0 {
            break;
        }
    }
    o
}

/// a scalar in [1, n-1]: {1, 2, n-1, n-2, (n-1)/2, (n+1)/2, (n-3)/2, 2^k, short, zero top nibble, uniform}
fn gen_scalar(u: &mut U) -> B32 {
    loop {
        let k: B32 = match u.below(14) {
            0 => b32(1),
            1 => b32(2),
            2 => sub_small(&secp::N, 1),
            3 => sub_small(&secp::N, 2),
            4 => secp::HALF_N,
            5 => add_small(&secp::HALF_N, 1),
            6 => sub_small(&secp::HALF_N, 1),
            7 => {
                let k = u.range(1, 255);
                let mut o = [0u8; 32];
                o[31 - k / 8] = 1 << (k % 8);
                o
            }
            8 => {
                let z = u.range(1, 31);
                let mut o = [0u8; 32];
                o[z..].copy_from_slice(&u.bytes(32 - z));
                o
            }
            9 => {
                let mut o: B32 = u.bytes(32).try_into().unwrap();
                o[0] &= 0x0f;
                o
            }
            _ => u.bytes(32).try_into().unwrap(),
        };
        if scalar_in_range(&k) {
            return k;
        }
    }
}

fn low_s(s: &B32) -> B32 {
    if secp::cmp(s, &secp::HALF_N) == Ordering::Greater {
        secp::scalar_neg(s)
    } else {
        *s
    }
}

/// a value that is NOT a valid scalar: {0, n, n+1, 2^256-1, uniform in [n, 2^256)}
fn gen_bad_scalar(u: &mut U) -> B32 {
    match u.below(5) {
        0 => [0u8; 32],
        1 => secp::N,
        2 => add_small(&secp::N, 1),
        3 => [0xff; 32],
        _ => {
            let mut d = [0xffu8; 32];
            d[16..].copy_from_slice(&u.bytes(16));
            if secp::cmp(&d, &secp::N) == Ordering::Less {
                d[16] = 0xff;
            }
            d
        }
    }
}

fn b32_of(hex: &str) -> Option<B32> {
    unhex(hex).and_then(|v| v.try_into().ok())
}

// ---------------------------------------------------------------- (a) signatures produced by sign

#[derive(Clone, Debug, Serialize, Deserialize)]
pub struct SignedCase {
    pub key_hex: String,
    pub digest_hex: String,
}

fn judge_signed(c: &SignedCase, cls: &mut Classifier) -> Verdict {
    let (Some(key), Some(digest)) = (b32_of(&c.key_hex), b32_of(&c.digest_hex)) else {
        return fail("32-byte key and digest", format!("{c:?}"), "bad replay case");
    };
    if !secp::is_valid_secret(&key) {
        return fail("valid key", c.key_hex.clone(), "bad replay case");
    }
    let origin = format!("signature of key {} over digest {}", c.key_hex, c.digest_hex);
    let sig = match catch(|| PrivateKey::new(key).map(|k| k.sign(Digest(digest))).map_err(|e| e.to_string())) {
        Ok(Ok(s)) => s,
        // producing the signature is C05's subject, not this property's
        Ok(Err(_)) | Err(_) => {
            cls.label("signed-signing-failed");
            return Ok(());
        }
    };
    let (text, d) = judge_roundtrip(&sig, &origin, cls)?;
    pad_labels("signed", &d, cls);
    cls.label("signed");
    cls.nontrivial(&text);
    cls.sample(&format!("signed-parity-{}", u8::from(d.parity)), || json!({"key": c.key_hex, "digest": c.digest_hex, "printed": text}));
    Ok(())
}

fn signed_strategy() -> impl Strategy<Value = SignedCase> {
    crate::gen::tape(96).prop_map(|t| {
        let mut u = U::new(&t);
        SignedCase { key_hex: hex_lower(&super::c04::gen_valid_scalar(&mut u)), digest_hex: hex_lower(&super::c05::gen_digest(&mut u)) }
    })
}

// ---------------------------------------------------------------- (b) synthetic (r, s, p)

#[derive(Clone, Debug, Serialize, Deserialize)]
pub struct SynthCase {
    pub r_hex: String,
    pub s_hex: String,
    pub parity: u8,
}

const UNIT_TEST_R: &str = "0101010101010101010101010101010101010101010101010101010101010101";

fn judge_synth(c: &SynthCase, cls: &mut Classifier) -> Verdict {
    let (Some(r), Some(s)) = (b32_of(&c.r_hex), b32_of(&c.s_hex)) else {
        return fail("32-byte r and s", format!("{c:?}"), "bad replay case");
    };
    if !scalar_in_range(&r) || !scalar_in_range(&s) || c.parity > 1 {
        // from_parts panics on invalid parts by documented contract
        return fail("1 <= r, s < n and parity 0/1", format!("{c:?}"), "bad replay case");
    }
    let origin = format!("Signature::from_parts(r={}, s={}, {})", c.r_hex, c.s_hex, c.parity);
    let sig = match catch(|| Signature::from_parts(U256::from_be_bytes(r), U256::from_be_bytes(s), c.parity)) {
        Ok(s) => s,
        Err(_) => {
            // constructing from valid parts is not this property's subject
            cls.label("synthetic-from-parts-failed");
            return Ok(());
        }
    };
    let (text, d) = judge_roundtrip(&sig, &origin, cls)?;
    let high = secp::cmp(&s, &secp::HALF_N) == Ordering::Greater;
    // the signature made from low-s parts (r, s, p) is (r, s, p): its text is built from the inputs too
    if !high {
        let want = canonical_text(&r, &s, c.parity == 1, true);
        if !printed_matches(&text, &want, cls) {
            return fail(want, text, format!("text of {origin}"));
        }
    }
    pad_labels("synthetic", &d, cls);
    cls.label(if high { "synthetic-high-s" } else { "synthetic-low-s" });
    if c.r_hex != UNIT_TEST_R {
        cls.nontrivial(&text);
    }
    cls.sample(if high { "synthetic-high-s" } else { "synthetic-low-s" }, || json!({"r": c.r_hex, "s": c.s_hex, "parity": c.parity, "printed": text}));
    Ok(())
}

fn synth_strategy() -> impl Strategy<Value = SynthCase> {
    crate::gen::tape(96).prop_map(|t| {
        let mut u = U::new(&t);
        let r = gen_scalar(&mut u);
        let mut s = gen_scalar(&mut u);
        if u.ratio(3, 4) {
            s = low_s(&s);
        }
        SynthCase { r_hex: hex_lower(&r), s_hex: hex_lower(&s), parity: u.below(2) as u8 }
    })
}

// ---------------------------------------------------------------- (c) text cases: mutants and sweeps

#[derive(Clone, Debug, Serialize, Deserialize)]
pub struct TextCase {
    /// exactly what is handed to `Signature::from_str`
    pub text: String,
    /// how the generator made it (informative; the oracle reads `text` only)
    pub made_by: String,
}

fn judge_textcase(c: &TextCase, cls: &mut Classifier) -> Verdict {
    judge_text(&c.text, cls)?;
    cls.nontrivial(&c.text);
    let class = match read_text(&c.text) {
        Reading::Canonical(_) => "text-canonical".to_string(),
        Reading::Unspecified(w, _) => format!("text-unspecified-{w}"),
        Reading::Malformed(w) => format!("text-malformed-{w}"),
    };
    cls.sample(&class, || json!({"text": c.text, "made_by": c.made_by}));
    Ok(())
}

/// characters that are not hex digits, including the ASCII neighbours of the digit ranges
const NON_HEX: [&str; 26] = [
    "g", "G", "x", "X", "z", " ", "\t", "\n", "-", "+", "_", ".", ",", "/", ":", "@", "`", "\u{e9}", "\u{ff10}", "\u{ff41}", "\0", "o", "O",
    "l", "h", "\u{a0}",
];

const BAD_FINAL: [u8; 16] = [0x00, 0x01, 0x02, 0x1a, 0x1d, 0x25, 0x26, 0xff, 0x1e, 0x0b, 0x0c, 0x27, 0x28, 0xb1, 0xc1, 0x80];

const WS: [&str; 6] = [" ", "\n", "\t", "\r\n", "  ", "\u{a0}"];

const PREFIXES: [&str; 20] = [
    "0x0x", "0X0x", "0x0X", "0X0X", "00x", "x", "0x ", " 0x", "0x0", "0x00", "#", "0h", "\\x", "0x-", "0x+", "-0x", "+", "0y", "Ox", "0x\n",
];

fn replace_char(text: &str, pos: usize, with: &str) -> String {
    let chars: Vec<char> = text.chars().collect();
    let mut out = String::new();
    for (i, c) in chars.iter().enumerate() {
        if i == pos {
            out.push_str(with);
        } else {
            out.push(*c);
        }
    }
    out
}

fn insert_at(text: &str, pos: usize, what: &str) -> String {
    let chars: Vec<char> = text.chars().collect();
    let mut out = String::new();
    for (i, c) in chars.iter().enumerate() {
        if i == pos {
            out.push_str(what);
        }
        out.push(*c);
    }
    if pos >= chars.len() {
        out.push_str(what);
    }
    out
}

fn gen_mutant(u: &mut U) -> TextCase {
    let r = gen_scalar(u);
    let s = low_s(&gen_scalar(u));
    let parity = u.bool();
    let prefix = u.bool();
    let pfx = if prefix { "0x" } else { "" };
    let body = canonical_text(&r, &s, parity, false);
    let v = hex_lower(&[27 + u8::from(parity)]);
    let (text, how): (String, String) = match u.below(17) {
        0 => (format!("{pfx}{body}"), "valid".into()),
        1 => {
            let pos = u.below(130);
            let c = u.pick(&NON_HEX);
            (format!("{pfx}{}", replace_char(&body, pos, c)), format!("non-hex {c:?} replaces digit {pos}"))
        }
        2 => {
            let pos = u.below(131);
            let c = u.pick(&NON_HEX);
            (format!("{pfx}{}", insert_at(&body, pos, c)), format!("non-hex {c:?} inserted at {pos}"))
        }
        3 => {
            let b = if u.ratio(3, 4) { u.pick(&BAD_FINAL) } else { u.byte() };
            (format!("{pfx}{}{}{}", hex_lower(&r), hex_lower(&s), hex_lower(&[b])), format!("final byte {b:02x}"))
        }
        4 => {
            let bad = gen_bad_scalar(u);
            (format!("{pfx}{}{}{v}", hex_lower(&bad), hex_lower(&s)), "r not in [1, n-1]".into())
        }
        5 => {
            let bad = gen_bad_scalar(u);
            (format!("{pfx}{}{}{v}", hex_lower(&r), hex_lower(&bad)), "s not in [1, n-1]".into())
        }
        6 => {
            let (lead, trail) = match u.below(3) {
                0 => (u.pick(&WS), ""),
                1 => ("", u.pick(&WS)),
                _ => (u.pick(&WS), u.pick(&WS)),
            };
            (format!("{lead}{pfx}{body}{trail}"), format!("white space around ({lead:?}, {trail:?})"))
        }
        7 => {
            let p = u.pick(&PREFIXES);
            (format!("{p}{body}"), format!("prefix variant {p:?}"))
        }
        8 => {
            let chars: Vec<char> = body.chars().collect();
            let n = 1 + u.below(2);
            let pos = u.below(chars.len() - n + 1);
            let t: String = chars[..pos].iter().chain(chars[pos + n..].iter()).collect();
            (format!("{pfx}{t}"), format!("{n} digit(s) deleted at {pos}"))
        }
        9 => match u.below(4) {
            0 => {
                let pos = u.below(131);
                let d = hex_lower(&[u.byte()]);
                (format!("{pfx}{}", insert_at(&body, pos, &d[..1])), format!("one digit inserted at {pos}"))
            }
            1 => (format!("{pfx}{body}{}", hex_lower(&[u.byte()])), "one byte appended".into()),
            2 => (format!("{pfx}00{body}"), "zero byte prepended".into()),
            _ => (format!("{pfx}0{body}"), "zero digit prepended".into()),
        },
        10 => match u.below(4) {
            0 => (format!("{pfx}{}", &body[..128]), "64-byte form without v".into()),
            1 => (format!("{pfx}{}", &body[2..]), "first byte dropped".into()),
            2 => (format!("{pfx}{}", &body[..u.below(130)]), "truncated".into()),
            _ => (format!("{pfx}{}", &body[..129]), "last digit dropped".into()),
        },
        11 => {
            let t: String = if u.bool() {
                body.to_ascii_uppercase()
            } else {
                body.chars().map(|c| if u.bool() { c.to_ascii_uppercase() } else { c }).collect()
            };
            (format!("{pfx}{t}"), "upper-case digits (unspecified)".into())
        }
        12 => (format!("0X{body}"), "0X prefix (unspecified)".into()),
        13 => {
            let hs = secp::scalar_neg(&s);
            (format!("{pfx}{}{}{v}", hex_lower(&r), hex_lower(&hs)), "s replaced by n-s (high s unless s = (n-1)/2.., unspecified)".into())
        }
        14 => match u.below(4) {
            0 => (format!("{pfx}{}{v}", "0".repeat(128)), "r = s = 0".into()),
            1 => (format!("{pfx}{}", "0".repeat(130)), "all zero".into()),
            2 => (format!("{pfx}{}", "f".repeat(130)), "all f".into()),
            _ => (format!("{pfx}{}{v}", "f".repeat(128)), "r = s = 2^256-1".into()),
        },
        15 => (format!("{pfx}{v}{}{}", hex_lower(&r), hex_lower(&s)), "v first".into()),
        _ => {
            // v written as the bare parity or as an EIP-155 value
            let b = [u8::from(parity), 37 + u8::from(parity), 35 + u8::from(parity)][u.below(3)];
            (format!("{pfx}{}{}{}", hex_lower(&r), hex_lower(&s), hex_lower(&[b])), format!("v written as {b}"))
        }
    };
    TextCase { text, made_by: how }
}

fn mutant_strategy() -> impl Strategy<Value = TextCase> {
    crate::gen::tape(160).prop_map(|t| gen_mutant(&mut U::new(&t)))
}

fn random_hex(p: &mut Prng, n: usize, mixed_case: bool) -> String {
    let mut s = String::with_capacity(n);
    for _ in 0..n {
        let d = p.below(16) as usize;
        let c = b"0123456789abcdef"[d] as char;
        s.push(if mixed_case && p.below(2) == 1 { c.to_ascii_uppercase() } else { c });
    }
    s
}

/// every length 0..=140 of hex text x {no prefix, 0x} x `per` variants
fn length_sweep(seed: u64, per: usize) -> Vec<TextCase> {
    let mut out = vec![];
    for len in 0..=140usize {
        for prefix in [false, true] {
            for j in 0..per {
                let mut p = Prng::new(seed ^ ((len as u64) << 20) ^ ((j as u64) << 4) ^ u64::from(prefix));
                let variant = j % 4;
                let mut d: Vec<u8> = random_hex(&mut p, len, variant == 3).into_bytes();
                let v = if p.below(2) == 0 { b"1b" } else { b"1c" };
                let how = match variant {
                    1 if len >= 130 => {
                        // the first 130 digits are a valid signature (a truncating parser would accept)
                        d[0] = b'7';
                        d[64] = b'3';
                        d[128..130].copy_from_slice(v);
                        "first 130 digits valid"
                    }
                    2 if len >= 2 => {
                        // ends in a valid v (a left-padding parser would accept)
                        let n = d.len();
                        d[n - 2..].copy_from_slice(v);
                        if len >= 130 {
                            d[n - 130] = b'7';
                            d[n - 66] = b'3';
                        }
                        "last digits are a valid v"
                    }
                    3 => "mixed case",
                    _ => "random digits",
                };
                let digits = String::from_utf8(d).unwrap();
                out.push(TextCase {
                    text: format!("{}{digits}", if prefix { "0x" } else { "" }),
                    made_by: format!("length sweep: {len} digits, {how}"),
                });
            }
        }
    }
    out
}

fn sweep_bases(seed: u64, n: usize) -> Vec<(B32, B32)> {
    (0..n)
        .map(|i| {
            let t = Prng::new(seed ^ (i as u64 + 1)).bytes(96);
            let mut u = U::new(&t);
            let r = if i == 0 { b32(1) } else { gen_scalar(&mut u) };
            let s = if i == 0 { b32(1) } else { low_s(&gen_scalar(&mut u)) };
            (r, s)
        })
        .collect()
}

/// all 256 final bytes x {no prefix, 0x} x bases
fn final_byte_sweep(seed: u64, bases: usize) -> Vec<TextCase> {
    let mut out = vec![];
    for (r, s) in sweep_bases(seed, bases) {
        for b in 0..=255u8 {
            for prefix in [false, true] {
                out.push(TextCase {
                    text: format!("{}{}{}{}", if prefix { "0x" } else { "" }, hex_lower(&r), hex_lower(&s), hex_lower(&[b])),
                    made_by: format!("final byte sweep: {b:02x}"),
                });
            }
        }
    }
    out
}

fn boundary_scalars() -> Vec<(&'static str, B32)> {
    let mut p255 = [0u8; 32];
    p255[0] = 0x80;
    vec![
        ("0", [0u8; 32]),
        ("1", b32(1)),
        ("2", b32(2)),
        ("(n-1)/2", secp::HALF_N),
        ("(n+1)/2", add_small(&secp::HALF_N, 1)),
        ("2^255", p255),
        ("n-1", sub_small(&secp::N, 1)),
        ("n", secp::N),
        ("n+1", add_small(&secp::N, 1)),
        ("2^256-1", [0xff; 32]),
    ]
}

/// r, s over the boundary list x v in {1b, 1c} x {no prefix, 0x}
fn boundary_sweep() -> Vec<TextCase> {
    let b = boundary_scalars();
    let mut out = vec![];
    for (rn, r) in &b {
        for (sn, s) in &b {
            for v in ["1b", "1c"] {
                for prefix in ["", "0x"] {
                    out.push(TextCase { text: format!("{prefix}{}{}{v}", hex_lower(r), hex_lower(s)), made_by: format!("boundary scalars: r = {rn}, s = {sn}") });
                }
            }
        }
    }
    out
}

/// a non-hex character at every digit position x {no prefix, 0x}
fn nonhex_sweep(seed: u64) -> Vec<TextCase> {
    let (r, s) = sweep_bases(seed, 2)[1];
    let body = canonical_text(&r, &s, seed & 1 == 1, false);
    let mut out = vec![];
    for pos in 0..130 {
        for c in NON_HEX {
            for prefix in ["", "0x"] {
                out.push(TextCase { text: format!("{prefix}{}", replace_char(&body, pos, c)), made_by: format!("non-hex sweep: {c:?} at digit {pos}") });
            }
        }
    }
    // every ASCII character 0x01..=0x7f that is not a hex digit (control characters included) at the ends and
    // seams of the three fields
    for pos in [0usize, 1, 63, 64, 65, 127, 128, 129] {
        for b in 1u8..=0x7f {
            let c = b as char;
            if c.is_ascii_hexdigit() {
                continue;
            }
            for prefix in ["", "0x"] {
                out.push(TextCase { text: format!("{prefix}{}", replace_char(&body, pos, &c.to_string())), made_by: format!("ASCII sweep: {c:?} at digit {pos}") });
            }
        }
    }
    out
}

/// every prefix variant and every white-space placement x bases
fn affix_sweep(seed: u64, bases: usize) -> Vec<TextCase> {
    let mut out = vec![];
    for (i, (r, s)) in sweep_bases(seed, bases).into_iter().enumerate() {
        let body = canonical_text(&r, &s, i % 2 == 1, false);
        for p in PREFIXES {
            out.push(TextCase { text: format!("{p}{body}"), made_by: format!("affix sweep: prefix {p:?}") });
        }
        for w in WS {
            for prefix in ["", "0x"] {
                out.push(TextCase { text: format!("{w}{prefix}{body}"), made_by: format!("affix sweep: leading {w:?}") });
                out.push(TextCase { text: format!("{prefix}{body}{w}"), made_by: format!("affix sweep: trailing {w:?}") });
                out.push(TextCase { text: format!("{w}{prefix}{body}{w}"), made_by: format!("affix sweep: surrounding {w:?}") });
            }
            out.push(TextCase { text: format!("0x{w}{body}"), made_by: format!("affix sweep: {w:?} after the prefix") });
        }
        for prefix in ["", "0x"] {
            out.push(TextCase { text: format!("{prefix}{body}"), made_by: "affix sweep: unchanged".into() });
        }
    }
    out
}

// ---------------------------------------------------------------- (d) CLI pipeline

#[derive(Clone, Debug, Serialize, Deserialize)]
pub struct PipeCase {
    /// argv of `sign transaction --signature-only` up to (not including) the TRANSACTION argument
    pub sign_sig_args: Vec<String>,
    /// argv of `sign transaction` up to (not including) the TRANSACTION argument
    pub sign_full_args: Vec<String>,
    pub env: Vec<(String, String)>,
    /// true: TRANSACTION is `-` and the document is on stdin; false: a scratch file holding the document
    pub via_stdin: bool,
    /// how the signature is handed to `hash transaction`: 0 `--signature S T`, 1 `--signature=S T`, 2 `-s S T`, 3 `T --signature S`
    pub sig_form: u8,
    pub tx: TxCase,
}

fn shape_name(m: &TxModel, doc: &str) -> &'static str {
    match (m.kind, &m.chain_id) {
        (Kind::Legacy, None) => "legacy-no-chain",
        (Kind::Legacy, Some(_)) => "legacy-chain",
        (Kind::Eip2930, _) => "eip2930",
        (Kind::Eip1559, _) => {
            if doc.contains("\"accessList\"") {
                "eip1559"
            } else {
                "eip1559-no-list"
            }
        }
    }
}

fn gen_pipe(u: &mut U) -> PipeCase {
    let tx = txgen::gen_case(u, 64);
    let ent_len = [16usize, 20, 24, 28, 32][u.below(5)];
    let phrase = bip39::encode_phrase(&u.bytes(ent_len));
    let needs_allow = tx.model.kind == Kind::Legacy && tx.model.chain_id.is_none();
    let allow = needs_allow || u.ratio(1, 4);
    let mut pre: Vec<String> = vec!["sign".into()];
    let mut env: Vec<(String, String)> = vec![];
    if u.ratio(1, 4) {
        env.push(("MNEMONIC".into(), phrase));
    } else {
        pre.push("--mnemonic".into());
        pre.push(phrase);
    }
    match u.below(6) {
        0 | 1 => {}
        2 | 3 => {
            pre.push("--account-index".into());
            pre.push(crate::refimpl::dec([0u128, 1, 2, 9, 1000, 2147483647][u.below(6)]));
        }
        4 => {
            pre.push("--hd-path".into());
            pre.push(["m/44'/60'/0'/0/0", "m/44'/60'/0'/0/7", "m/0'/1", "m/0", "m/44'/60'/1'/0/3"][u.below(5)].into());
        }
        _ => {
            pre.push("--password".into());
            pre.push(["TREZOR", "p\u{e4}ssword", "x y"][u.below(3)].into());
        }
    }
    pre.push("transaction".into());
    let mut sig = pre.clone();
    let mut full = pre;
    // flag order varies
    if allow && u.bool() {
        sig.push("--allow-missing-relay-protection".into());
        sig.push("--signature-only".into());
    } else {
        sig.push("--signature-only".into());
        if allow {
            sig.push("--allow-missing-relay-protection".into());
        }
    }
    if allow {
        full.push("--allow-missing-relay-protection".into());
    }
    PipeCase { sign_sig_args: sig, sign_full_args: full, env, via_stdin: u.bool(), sig_form: u.below(4) as u8, tx }
}

fn pipe_strategy() -> impl Strategy<Value = PipeCase> {
    crate::gen::tape(1400).prop_map(|t| gen_pipe(&mut U::new(&t)))
}

fn line(out: &CliOut) -> String {
    let s = out.stdout_str();
    s.strip_suffix('\n').unwrap_or(&s).to_string()
}

fn note_timeout(what: &str) {
    TIMEOUTS.lock().unwrap().push(what.to_string());
}

fn pad32(b: &[u8]) -> Option<B32> {
    if b.len() > 32 {
        return None;
    }
    let mut o = [0u8; 32];
    o[32 - b.len()..].copy_from_slice(b);
    Some(o)
}

/// (r, s, yParity) read back from the signed transaction bytes with the strict RLP decoder
fn signature_of_signed(model: &TxModel, bytes: &[u8]) -> Result<Denoted, String> {
    let (payload, expect_items) = match model.kind {
        Kind::Legacy => (bytes, 9),
        Kind::Eip2930 | Kind::Eip1559 => {
            let t = model.type_byte().unwrap();
            if bytes.first() != Some(&t) {
                return Err(format!("type byte {:?}, expected {t}", bytes.first()));
            }
            (&bytes[1..], if model.kind == Kind::Eip2930 { 11 } else { 12 })
        }
    };
    let items = match rlp::decode_strict(payload)? {
        rlp::Item::List(l) => l,
        _ => return Err("not a list".into()),
    };
    if items.len() != expect_items {
        return Err(format!("{} items, expected {expect_items}", items.len()));
    }
    let n = items.len();
    let v = rlp::as_uint(&items[n - 3])?;
    let r = pad32(&rlp::as_uint(&items[n - 2])?).ok_or("r longer than 32 bytes")?;
    let s = pad32(&rlp::as_uint(&items[n - 1])?).ok_or("s longer than 32 bytes")?;
    let parity = [false, true]
        .into_iter()
        .find(|p| model.v_value(*p).map(|x| x.to_be_min()) == Some(v.clone()))
        .ok_or_else(|| format!("v = 0x{} is neither value the transaction allows", hex_lower(&v)))?;
    Ok(Denoted { r, s, parity })
}

fn digest_bytes(text: &str) -> Option<B32> {
    b32_of(text.strip_prefix("0x").unwrap_or(text))
}

fn judge_pipe(c: &PipeCase, cls: &mut Classifier) -> Verdict {
    let Some(exe) = cli_path() else {
        return fail("a CLI path", "none", "harness: CLI path not set (HDV_CLI)");
    };
    let root = root_path();
    let doc = c.tx.doc.as_bytes();
    let file = (!c.via_stdin).then(|| cli::temp_file(&root, doc));
    let t_arg = file.as_ref().map(|p| p.display().to_string()).unwrap_or_else(|| "-".into());
    let r = judge_pipe_inner(c, &exe, &t_arg, cls);
    if let Some(f) = file {
        let _ = std::fs::remove_file(f);
    }
    r
}

fn judge_pipe_inner(c: &PipeCase, exe: &std::path::Path, t_arg: &str, cls: &mut Classifier) -> Verdict {
    let doc = c.tx.doc.as_bytes();
    let timeout = Duration::from_secs(20);
    let invoke = |mut args: Vec<String>, env: &[(String, String)], append_t: bool| -> CliOut {
        if append_t {
            args.push(t_arg.to_string());
        }
        let mut inv = Invocation { args, env: env.to_vec(), stdin_hex: String::new() };
        if c.via_stdin {
            inv = inv.stdin(doc);
        }
        cli::run(exe, &inv, timeout)
    };
    let shown = |args: &[String]| format!("hdwallet {}", args.iter().map(|a| format!("{a:?}")).collect::<Vec<_>>().join(" "));
    let docs = truncate(&c.tx.doc, 600);

    // S
    let o_sig = invoke(c.sign_sig_args.clone(), &c.env, true);
    if o_sig.timed_out {
        note_timeout("sign transaction --signature-only");
        return Ok(());
    }
    if o_sig.panicked() {
        return fail("a signature", o_sig.describe(), format!("`{} T` panicked; T = {docs}", shown(&c.sign_sig_args)));
    }
    if !o_sig.ok() {
        // refusing a transaction document is not this property's subject; the pipeline has no input
        cls.label("pipeline-sign-refused");
        cls.sample("pipeline-sign-refused", || json!({"sign": c.sign_sig_args, "T": c.tx.doc, "exit": o_sig.code, "stderr": truncate(&o_sig.stderr_str(), 300)}));
        return Ok(());
    }
    let s_text = line(&o_sig);

    // F
    let o_full = invoke(c.sign_full_args.clone(), &c.env, true);
    if o_full.timed_out {
        note_timeout("sign transaction");
        return Ok(());
    }
    if !o_full.ok() {
        return fail(
            "the signed transaction (the same command with --signature-only succeeded)",
            o_full.describe(),
            format!("`{} T` failed; T = {docs}", shown(&c.sign_full_args)),
        );
    }
    let f_text = line(&o_full);
    let Some(f_bytes) = unhex(f_text.strip_prefix("0x").unwrap_or(&f_text)) else {
        return fail("hex of the signed transaction", truncate(&f_text, 300), format!("`{} T` did not print hex; T = {docs}", shown(&c.sign_full_args)));
    };
    let want_digest = keccak(&f_bytes);

    // textual form of S against the signature inside F
    match signature_of_signed(&c.tx.model, &f_bytes) {
        Ok(d) => {
            let want = canonical_text(&d.r, &d.s, d.parity, true);
            if !printed_matches(&s_text, &want, cls) {
                return fail(
                    want,
                    s_text,
                    format!("--signature-only must print 0x || hex64(r) || hex64(s) || hex2(27+yParity) of the signature inside the signed transaction 0x{}; T = {docs}", hex_lower(&f_bytes)),
                );
            }
            pad_labels("pipeline", &d, cls);
            cls.label("pipeline-text-checked");
        }
        Err(_) => {
            // the signed encoding itself is C06/C07's subject; only the digest relation is judged here
            cls.label("pipeline-signed-tx-not-decoded");
        }
    }

    // H, with S as printed and with the prefix stripped
    let bare = s_text.strip_prefix("0x").or_else(|| s_text.strip_prefix("0X")).unwrap_or(&s_text).to_string();
    for (how, s_arg) in [("as printed", s_text.clone()), ("with the 0x prefix stripped", bare)] {
        let mut args: Vec<String> = vec!["hash".into(), "transaction".into()];
        match c.sig_form {
            0 => args.extend(["--signature".to_string(), s_arg.clone()]),
            1 => args.push(format!("--signature={s_arg}")),
            2 => args.extend(["-s".to_string(), s_arg.clone()]),
            _ => args.extend([t_arg.to_string(), "--signature".to_string(), s_arg.clone()]),
        }
        let o = invoke(args.clone(), &[], c.sig_form < 3);
        if o.timed_out {
            note_timeout("hash transaction --signature");
            return Ok(());
        }
        if !o.ok() {
            return fail(
                format!("0x{}", hex_lower(&want_digest)),
                o.describe(),
                format!("`{} [T]` failed on the signature that --signature-only printed, {how}; T = {docs}", shown(&args)),
            );
        }
        let h_text = line(&o);
        if digest_bytes(&h_text) != Some(want_digest) {
            return fail(
                format!("0x{}", hex_lower(&want_digest)),
                h_text,
                format!(
                    "hash transaction --signature S ({how}) must be Keccak-256 of what sign transaction prints; S = {s_text}, signed = 0x{}; T = {docs}",
                    hex_lower(&f_bytes)
                ),
            );
        }
    }
    let shape = shape_name(&c.tx.model, &c.tx.doc);
    cls.label("pipeline-ok");
    cls.label(&format!("pipeline-{shape}"));
    cls.nontrivial(&(c.tx.doc.as_str(), s_text.as_str()));
    cls.sample(&format!("pipeline-{shape}"), || {
        json!({"sign": c.sign_sig_args, "env": c.env, "stdin": c.via_stdin, "T": c.tx.doc, "S": s_text, "signed": f_text, "hash": format!("0x{}", hex_lower(&want_digest))})
    });
    Ok(())
}

// ---------------------------------------------------------------- (e) CLI: signature text as an argument

#[derive(Clone, Debug, Serialize, Deserialize)]
pub struct CliTextCase {
    /// the value of `--signature=` exactly as placed in argv
    pub text: String,
    pub made_by: String,
}

const FIXED_TX: &str = r#"{"chainId":1,"nonce":7,"gasPrice":"0x3b9aca00","gas":21000,"to":"0x00000000000000000000000000000000deadbeef","value":"1000","data":"0x"}"#;

fn judge_clitext(c: &CliTextCase, cls: &mut Classifier) -> Verdict {
    let Some(exe) = cli_path() else {
        return fail("a CLI path", "none", "harness: CLI path not set (HDV_CLI)");
    };
    let inv = Invocation::new(&["hash", "transaction"]).arg(format!("--signature={}", c.text)).arg("-").stdin(FIXED_TX.as_bytes());
    let o = cli::run(&exe, &inv, Duration::from_secs(20));
    if o.timed_out {
        note_timeout("hash transaction --signature=TEXT");
        return Ok(());
    }
    let shown = truncate(&format!("{:?}", c.text), 400);
    if o.panicked() {
        return fail("a digest or an ordinary error", o.describe(), format!("hash transaction --signature={shown} - panicked"));
    }
    match read_text(&c.text) {
        Reading::Malformed(why) => {
            if !o.ordinary_error() {
                return fail(format!("an error ({why})"), o.describe(), format!("hash transaction accepted signature text that does not denote a signature: {shown}"));
            }
            cls.label(&format!("cli-text-rejected-{why}"));
        }
        Reading::Canonical(_) => {
            if !o.ok() || digest_bytes(&line(&o)).is_none() {
                return fail("exit 0 and a digest", o.describe(), format!("hash transaction refused well-formed signature text {shown}"));
            }
            cls.label("cli-text-accepted-canonical");
        }
        Reading::Unspecified(what, _) => cls.unspecified(&format!("cli:{what}:{}", if o.ok() { "accepted" } else { "rejected" })),
    }
    cls.nontrivial(&("cli", c.text.as_str()));
    cls.sample("cli-text", || json!({"argv": ["hash", "transaction", format!("--signature={}", c.text), "-"], "stdin": FIXED_TX, "exit": o.code}));
    Ok(())
}

fn cli_text_cases(seed: u64, n_mutants: usize) -> Vec<CliTextCase> {
    let mut out: Vec<CliTextCase> = vec![];
    let mut push = |t: TextCase| {
        // argv cannot carry NUL
        if !t.text.contains('\0') {
            out.push(CliTextCase { text: t.text, made_by: t.made_by });
        }
    };
    for t in boundary_sweep().into_iter().filter(|t| t.text.starts_with("0x") && t.text.ends_with("1b")) {
        push(t);
    }
    for t in length_sweep(seed, 1).into_iter().filter(|t| {
        let l = t.text.len();
        !t.text.starts_with("0x") && (l <= 2 || [64, 128, 129, 130, 131, 132, 133, 140].contains(&l))
    }) {
        push(t);
    }
    for i in 0..n_mutants {
        let tape = Prng::new(seed ^ 0xc15 ^ ((i as u64) << 8)).bytes(160);
        push(gen_mutant(&mut U::new(&tape)));
    }
    out
}

// ---------------------------------------------------------------- run / replay

pub fn run(ctx: &mut Ctx) {
    ctx.rule = "In-process: (a) signatures made by PrivateKey::sign over the C04 key strategy x C05 digest strategy; (b) synthetic Signature::from_parts(r, s, p) with r, s from {1, 2, n-1, n-2, (n-1)/2, (n+1)/2, 2^k, short, zero top nibble, uniform}; for each the printed text must be 0x || hex64(r) || hex64(s) || hex2(27+p) (hex by the harness' own loop, from the accessors and, for low-s synthetic parts, from the inputs) and parsing it with and without the prefix must give an == signature with the same accessors. (c) text cases judged by read_text, an independent reading of signature text written from the property (optional 0x, exactly 130 hex digits, v in {27,28}, 1 <= r,s < n): canonical text must parse to exactly the denoted (r, s, p) and print back canonically, malformed text must be Err without a panic, unspecified spellings (upper-case digits, 0X, high s) must not panic and if accepted must denote the written scalars. Text comes from 17 mutations of a valid base (non-hex replace/insert, final byte, r or s in {0, n, n+1, 2^256-1, >= n}, white space, prefix variants, +-1/2 digits, truncations, v first, v as parity/EIP-155) and from exhaustive sweeps: every length 0..=140 x {no prefix, 0x} x variants, all 256 final bytes, a 10 x 10 boundary-scalar grid, 26 non-hex characters at each of the 130 digit positions and every non-hex ASCII character 0x01..0x7f at eight positions, 20 prefix variants and 6 white-space strings in every placement. CLI: (d) pipelines over txgen transaction documents (five shapes) x mnemonic x account options: S = sign transaction --signature-only, F = sign transaction, H = hash transaction --signature S (four argv forms), required: S has the stated textual form of the (r, s, yParity) strictly RLP-decoded from F, and H = sha3-crate Keccak-256 of the bytes of F, with S as printed and without its 0x; (e) a sample of the text cases passed as --signature=TEXT (malformed -> ordinary error exit, canonical -> exit 0, never a panic). Non-trivial: every case except the unit-test vector; distinct by text / (document, S).".into();
    ctx.assumptions = vec![
        "letter case of printed hex digits is not fixed by the property (compared case-insensitively, counted as unspecified if upper-case appears)".into(),
        "upper-case digits, an upper-case 0X prefix and high-s values are unspecified for parsing: no panic; if accepted they must denote the written scalars".into(),
        "transaction documents come from the valid-document generator; a document refused by sign is counted, not judged (floor: 95% of pipelines complete)".into(),
        "sha3::Keccak256 is correct".into(),
    ];
    set_paths(ctx);
    ctx.replay_known_and_regressions(&replay);
    let t = ctx.tier;

    // (a), (b)
    let n_signed = t.pick(10_000, 300_000);
    ctx.run_prop("signed", n_signed, signed_strategy, judge_signed);
    let n_synth = t.pick(10_000, 300_000);
    ctx.run_prop("synthetic", n_synth, synth_strategy, judge_synth);

    // (c)
    let n_mut = t.pick(20_000, 500_000);
    ctx.run_prop("mutant", n_mut, mutant_strategy, judge_textcase);
    let lengths = length_sweep(ctx.sub_seed("length", 0), t.pick(8, 64));
    ctx.run_cases("length", &lengths, judge_textcase);
    ctx.exhaustive_parts.push("every digit count 0..=140 x {no prefix, 0x} (random digits per cell)".into());
    let finals = final_byte_sweep(ctx.sub_seed("final-byte", 0), t.pick(3, 24));
    ctx.run_cases("final-byte", &finals, judge_textcase);
    ctx.exhaustive_parts.push("all 256 final bytes x {no prefix, 0x} (per base signature)".into());
    let grid = boundary_sweep();
    ctx.run_cases("boundary", &grid, judge_textcase);
    ctx.exhaustive_parts.push("r, s in {0, 1, 2, (n-1)/2, (n+1)/2, 2^255, n-1, n, n+1, 2^256-1}^2 x v in {1b, 1c} x {no prefix, 0x}".into());
    let mut nonhex = vec![];
    for k in 0..t.pick(1u64, 8) {
        nonhex.extend(nonhex_sweep(ctx.sub_seed("non-hex", k)));
    }
    ctx.run_cases("non-hex", &nonhex, judge_textcase);
    ctx.exhaustive_parts.push("26 non-hex characters x each of the 130 digit positions x {no prefix, 0x}".into());
    let affixes = affix_sweep(ctx.sub_seed("affix", 0), t.pick(4, 32));
    ctx.run_cases("affix", &affixes, judge_textcase);
    ctx.exhaustive_parts.push("20 prefix variants and 6 white-space strings before/after/around/after-prefix (per base signature)".into());

    // (d), (e)
    let have_cli = cli_path().map(|p| p.exists()).unwrap_or(false);
    let n_pipe = t.pick(800, 12_000);
    if have_cli {
        ctx.run_prop("pipeline", n_pipe, pipe_strategy, judge_pipe);
        let texts = cli_text_cases(ctx.sub_seed("cli-text", 0), t.pick(300, 4000));
        ctx.run_cases("cli-text", &texts, judge_clitext);
    } else {
        ctx.inconclusive("no hdwallet executable (ctx.cli / HDV_CLI): pipeline and cli-text sub-checks not run");
    }
    let timeouts: Vec<String> = std::mem::take(&mut *TIMEOUTS.lock().unwrap());
    if !timeouts.is_empty() {
        ctx.inconclusive(format!("{} CLI run(s) hit the watchdog (first: {})", timeouts.len(), timeouts[0]));
    }

    crate::fuzz::run_for(ctx);
    // generator health (a violation stops a shard early, so the floors say nothing then)
    if !ctx.violations.is_empty() {
        return;
    }
    let signed = ctx.cls.count("signed");
    ctx.floor("signed", n_signed as u64, 0.99);
    ctx.floor("signed-parity-0", signed, 0.2);
    ctx.floor("signed-parity-1", signed, 0.2);
    ctx.floor("signed-leading-zero-nibble", signed, 0.05);
    ctx.floor("synthetic-low-s", n_synth as u64, 0.5);
    ctx.floor("synthetic-high-s", n_synth as u64, 0.05);
    ctx.floor("synthetic-leading-zero-byte", n_synth as u64, 0.1);
    ctx.floor("synthetic-parity-0", n_synth as u64, 0.3);
    ctx.floor("synthetic-parity-1", n_synth as u64, 0.3);
    let m = n_mut as u64;
    ctx.floor("text-accepted-canonical", m, 0.04);
    ctx.floor("text-rejected-non-hex", m, 0.08);
    ctx.floor("text-rejected-wrong-length", m, 0.1);
    ctx.floor("text-rejected-bad-v", m, 0.08);
    ctx.floor("text-rejected-r-out-of-range", m, 0.04);
    ctx.floor("text-rejected-s-out-of-range", m, 0.04);
    ctx.floor("text-rejected-whitespace", m, 0.04);
    ctx.floor("text-rejected-doubled-prefix", m, 0.005);
    if have_cli {
        ctx.floor("pipeline-ok", n_pipe as u64, 0.95);
        ctx.floor("pipeline-text-checked", n_pipe as u64, 0.95);
        for shape in ["legacy-no-chain", "legacy-chain", "eip2930", "eip1559", "eip1559-no-list"] {
            ctx.floor(&format!("pipeline-{shape}"), n_pipe as u64, 0.1);
        }
        ctx.floor("pipeline-parity-0", n_pipe as u64, 0.2);
        ctx.floor("pipeline-parity-1", n_pipe as u64, 0.2);
        ctx.floor_abs("cli-text-accepted-canonical", 5);
        ctx.floor_abs("cli-text-rejected-wrong-length", 10);
        ctx.floor_abs("cli-text-rejected-bad-v", 5);
        ctx.floor_abs("cli-text-rejected-r-out-of-range", 5);
    }
}

pub fn replay(sub: &str, case: &Value) -> Option<Verdict> {
    match sub {
        "signed" => Some(replay_as::<SignedCase>(case, judge_signed)),
        "synthetic" => Some(replay_as::<SynthCase>(case, judge_synth)),
        "mutant" | "length" | "final-byte" | "boundary" | "non-hex" | "affix" | "text" => Some(replay_as::<TextCase>(case, judge_textcase)),
        "pipeline" => Some(replay_as::<PipeCase>(case, judge_pipe)),
        "cli-text" => Some(replay_as::<CliTextCase>(case, judge_clitext)),
        _ => None,
    }
}

/// replay entry used by props/mod.rs: takes the CLI path and root from the context
pub fn replay_ctx(sub: &str, case: &Value, ctx: &Ctx) -> Option<Verdict> {
    set_paths(ctx);
    replay(sub, case)
}
