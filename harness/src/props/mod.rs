//! One module per property: generator, oracle, classifier, replay codec.

use crate::engine::{Ctx, Verdict};
use serde_json::Value;

pub mod c01;
pub mod c02;
pub mod c03;
pub mod c04;
pub mod c05;
pub mod c06;
pub mod c07;
pub mod c08;
pub mod c09;
pub mod c10;
pub mod c11;
pub mod c12;
pub mod c13;
pub mod c14;
pub mod c15;
pub mod c16;
pub mod c17;
pub mod c18;
pub mod c19;
pub mod c20;

pub const ALL: &[&str] = &[
    "C01", "C02", "C03", "C04", "C05", "C06", "C07", "C08", "C09", "C10", "C11", "C12", "C13", "C14", "C15", "C16",
    "C17", "C18", "C19", "C20",
];

pub fn needs_cli(id: &str) -> bool {
    matches!(id, "C02" | "C04" | "C10" | "C20" | "C09" | "C11" | "C12" | "C14" | "C15" | "C16" | "C17" | "C18" | "C19")
}

pub fn run(ctx: &mut Ctx) -> bool {
    match ctx.id.as_str() {
        "C01" => c01::run(ctx),
        "C02" => c02::run(ctx),
        "C03" => c03::run(ctx),
        "C04" => c04::run(ctx),
        "C05" => c05::run(ctx),
        "C06" => c06::run(ctx),
        "C07" => c07::run(ctx),
        "C08" => c08::run(ctx),
        "C09" => c09::run(ctx),
        "C10" => c10::run(ctx),
        "C11" => c11::run(ctx),
        "C12" => c12::run(ctx),
        "C13" => c13::run(ctx),
        "C14" => c14::run(ctx),
        "C15" => c15::run(ctx),
        "C16" => c16::run(ctx),
        "C17" => c17::run(ctx),
        "C18" => c18::run(ctx),
        "C19" => c19::run(ctx),
        "C20" => c20::run(ctx),
        _ => return false,
    }
    true
}

pub fn replay(id: &str, sub: &str, case: &Value, ctx: &Ctx) -> Option<Verdict> {
    match id {
        "C01" => c01::replay(sub, case),
        "C02" => c02::replay(sub, case),
        "C03" => c03::replay(sub, case),
        "C04" => c04::replay(sub, case),
        "C05" => c05::replay(sub, case),
        "C06" => c06::replay(sub, case),
        "C07" => c07::replay(sub, case),
        "C08" => c08::replay(sub, case),
        "C09" => {
            c09::set_cli(ctx.cli.clone(), ctx.root.clone());
            c09::replay(sub, case)
        }
        "C10" => c10::replay(sub, case),
        "C11" => {
            c11::set_cli(ctx.cli.clone(), ctx.cli_plain.clone(), ctx.root.clone());
            c11::replay(sub, case)
        }
        "C12" => c12::replay(sub, case, ctx),
        "C13" => c13::replay(sub, case),
        "C14" => c14::replay(sub, case, ctx),
        "C15" => c15::replay_ctx(sub, case, ctx),
        "C17" => {
            c17::set_cli(ctx.cli.clone(), ctx.cli_plain.clone(), ctx.root.clone());
            c17::replay(sub, case)
        }
        "C16" => c16::replay_ctx(sub, case, ctx),
        "C18" => c18::replay(sub, case, ctx),
        "C19" => c19::replay(sub, case, ctx),
        "C20" => c20::replay(sub, case),
        _ => None,
    }
}
