//! C18 — vanity search returns a phrase whose account really has the prefix.
//!
//! Subject: `hdwallet new --vanity-prefix 0x<digits> [-n L] [-j N]
//! [--vanity-password P] [--vanity-account-index I | --vanity-hd-path PATH]`,
//! driven as a subprocess (the `Prefix` parser and the search loop live in the
//! binary-only module `cmd::new`). The oracle is the reference chain
//! bip39 -> PBKDF2 -> bip32 -> secp -> keccak of `refimpl`; it never calls
//! hdwallet and it does not depend on which worker thread won.

use crate::cli::{self, Invocation};
use crate::engine::{fail, replay_as, Classifier, Ctx, Prng, Verdict};
use crate::refimpl::bip32::{self, Step};
use crate::refimpl::{address_of, bip39, hex_lower, nfkd_pairs, secp, unhex};
use serde::{Deserialize, Serialize};
use serde_json::{json, Value};
use std::path::PathBuf;
use std::sync::atomic::{AtomicUsize, Ordering};
use std::sync::{Mutex, OnceLock};
use std::time::Duration;

/// Watchdog for one CLI run. Sized far above the expected search time (a
/// three-digit prefix at -j 16 is ~0.5 s); an expiry is INCONCLUSIVE.
const TIMEOUT: Duration = Duration::from_secs(120);
const REFUSAL_TIMEOUT: Duration = Duration::from_secs(30);
/// Multiplier of the shim's per-call stream (see shim/getentropy_shim.c).
const GE_MUL: u64 = 0xD1B5_4A32_D192_ED03;
/// How many candidates the sequential prediction walks at most (label only).
const PREDICTION_BUDGET: u64 = 16;

// ---------------------------------------------------------------- environment

struct Env {
    root: PathBuf,
    cli: PathBuf,
    plain: Option<PathBuf>,
    shim: Option<PathBuf>,
}

static ENV: OnceLock<Env> = OnceLock::new();
/// Watchdog expiries seen by the judges (a judge has no access to `Ctx`).
static TIMEOUTS: Mutex<Vec<String>> = Mutex::new(vec![]);
/// Number of expiries so far; after `MAX_TIMEOUTS` the remaining searches are
/// skipped (the run is inconclusive anyway, and a search that cannot succeed
/// would cost 120 s per case).
static TIMEOUT_COUNT: AtomicUsize = AtomicUsize::new(0);
const MAX_TIMEOUTS: usize = 2;

fn note_timeout(what: &str) {
    TIMEOUT_COUNT.fetch_add(1, Ordering::SeqCst);
    TIMEOUTS
        .lock()
        .unwrap_or_else(|e| e.into_inner())
        .push(format!("watchdog: no result in time for {what}"));
}

fn init_env(ctx: &Ctx) -> Result<&'static Env, String> {
    if let Some(e) = ENV.get() {
        return Ok(e);
    }
    let from_env = |k: &str| std::env::var_os(k).map(PathBuf::from);
    let cli = ctx.cli.clone().or_else(|| from_env("HDV_CLI")).ok_or("no CLI path (--cli or HDV_CLI)")?;
    if !cli.is_file() {
        return Err(format!("CLI executable {} does not exist", cli.display()));
    }
    let plain = ctx.cli_plain.clone().or_else(|| from_env("HDV_CLI_PLAIN")).filter(|p| p.is_file());
    let shim = ctx.shim.clone().or_else(|| from_env("HDV_SHIM")).filter(|p| p.is_file());
    Ok(ENV.get_or_init(|| Env { root: ctx.root.clone(), cli, plain, shim }))
}

fn drain_timeouts(ctx: &mut Ctx) {
    let t: Vec<String> = std::mem::take(&mut *TIMEOUTS.lock().unwrap_or_else(|e| e.into_inner()));
    for why in t {
        ctx.inconclusive(why);
    }
}

/// Bytes the seeded shim delivers for call `i` (documented in the shim source).
fn shim_block(seed: u64, i: u64, len: usize) -> Vec<u8> {
    Prng::new(seed ^ (i + 1).wrapping_mul(GE_MUL)).bytes(len)
}

/// Well-formed lines of a GE_LOG file: (call index, delivered bytes).
fn parse_log(text: &str) -> Vec<(u64, Vec<u8>)> {
    let mut v = vec![];
    for line in text.lines() {
        let mut it = line.split(' ');
        let (Some(i), Some(len), Some(hex), None) = (it.next(), it.next(), it.next(), it.next()) else { continue };
        let (Ok(i), Ok(len)) = (i.parse::<u64>(), len.parse::<usize>()) else { continue };
        let Some(bytes) = unhex(hex) else { continue };
        if bytes.len() == len {
            v.push((i, bytes));
        }
    }
    v
}

/// Confirms, without relying on anything hdwallet prints, that the preloaded
/// shim is effective and delivers the stream the harness predicts.
fn shim_selftest(env: &Env) -> Result<(), String> {
    let shim = env.shim.as_ref().ok_or("getentropy shim not built (--shim or HDV_SHIM)")?;
    let log = cli::temp_file(&env.root, b"");
    let seed = 0x5eed_c18u64;
    let inv = Invocation::new(&["new"])
        .env("GE_SEED", seed.to_string())
        .env("LD_PRELOAD", shim.display().to_string())
        .env("GE_LOG", log.display().to_string());
    let out = cli::run(&env.cli, &inv, TIMEOUT);
    let text = std::fs::read_to_string(&log).unwrap_or_default();
    let _ = std::fs::remove_file(&log);
    let calls = parse_log(&text);
    match calls.first() {
        Some((0, bytes)) if *bytes == shim_block(seed, 0, bytes.len()) => Ok(()),
        _ => Err(format!(
            "shim self-test: `hdwallet new` under LD_PRELOAD did not log the predicted first block (log {:?}, run {})",
            crate::engine::truncate(&text, 200),
            out.describe()
        )),
    }
}

// ---------------------------------------------------------------- case model

#[derive(Clone, Debug, PartialEq, Eq, Hash, Serialize, Deserialize)]
pub enum Selector {
    /// neither --vanity-account-index nor --vanity-hd-path: m/44'/60'/0'/0/0
    Default,
    /// --vanity-account-index i: m/44'/60'/0'/0/i
    Index(u32),
    /// --vanity-hd-path
    Path(Vec<Step>),
}

#[derive(Clone, Copy, Debug, PartialEq, Eq, Hash, Serialize, Deserialize)]
pub enum Entropy {
    /// shim preloaded, GE_SEED set: deterministic logged stream
    Seeded(u64),
    /// shim preloaded without GE_SEED: real OS entropy, logged
    RealLogged,
    /// no shim at all
    NoShim,
}

#[derive(Clone, Debug, PartialEq, Eq, Hash, Serialize, Deserialize)]
pub struct Model {
    /// hex digits after `0x`, as typed
    pub digits: String,
    /// -n; None = option omitted (12 words)
    pub length: Option<usize>,
    /// -j; None = option omitted (number of CPUs)
    pub threads: Option<usize>,
    /// --vanity-password as typed, and its NFKD form (equal for ASCII)
    pub password: Option<String>,
    pub password_nfkd: Option<String>,
    pub selector: Selector,
    pub entropy: Entropy,
    /// run the plain release build instead of the overflow-checked one
    pub plain_build: bool,
}

#[derive(Clone, Debug, Serialize, Deserialize)]
pub struct Case {
    pub model: Model,
    /// exactly what the executable receives (LD_PRELOAD and GE_LOG, which are
    /// machine-specific paths, are added when the case is run)
    pub inv: Invocation,
}

fn render(m: &Model) -> Invocation {
    let mut inv = Invocation::new(&["new", "--vanity-prefix"]).arg(format!("0x{}", m.digits));
    if let Some(n) = m.length {
        inv = inv.arg("-n").arg(n.to_string());
    }
    if let Some(j) = m.threads {
        inv = inv.arg("-j").arg(j.to_string());
    }
    if let Some(p) = &m.password {
        inv = inv.arg("--vanity-password").arg(p.clone());
    }
    match &m.selector {
        Selector::Default => {}
        Selector::Index(i) => inv = inv.arg("--vanity-account-index").arg(i.to_string()),
        Selector::Path(p) => inv = inv.arg("--vanity-hd-path").arg(bip32::render(p)),
    }
    if let Entropy::Seeded(s) = m.entropy {
        inv = inv.env("GE_SEED", s.to_string());
        // schedule perturbation for multi-threaded searches: vary which worker wins (the oracle is
        // schedule-independent, so any interleaving must give a correct result)
        if m.threads.map(|j| j >= 2).unwrap_or(true) {
            let jitter = [0u32, 300, 3000][(s % 3) as usize];
            if jitter > 0 {
                inv = inv.env("GE_JITTER_US", jitter.to_string());
            }
        }
        // The environment variables of the OTHER commands' account options (a shell that exported them for
        // `address` or `sign`): the account of a vanity search is selected by the --vanity-* options alone.
        match s % 5 {
            1 => inv = inv.env("PASSWORD", "not-the-vanity-password"),
            2 => inv = inv.env("ACCOUNT_INDEX", "7"),
            3 => inv = inv.env("HD_PATH", "m/0'/1").env("MNEMONIC", "test test test test test test test test test test test junk"),
            _ => {}
        }
    }
    inv
}

fn case_of(model: Model) -> Case {
    let inv = render(&model);
    Case { model, inv }
}

// ---------------------------------------------------------------- oracle

fn reference_address(entropy: &[u8], nfkd_password: &str, path: &[Step]) -> Option<[u8; 20]> {
    let phrase = bip39::encode_phrase(entropy);
    let seed = bip39::seed_from_normalised(&phrase, nfkd_password);
    let key = bip32::derive(&seed, path).ok()?;
    let public = secp::mul_g(&key)?;
    Some(address_of(&public))
}

fn threads_label(t: Option<usize>) -> String {
    match t {
        None => "j-default".into(),
        Some(j) => format!("j-{j}"),
    }
}

fn judge_search(c: &Case, cls: &mut Classifier) -> Verdict {
    let env = ENV.get().expect("C18 environment is initialised before any judge runs");
    let m = &c.model;
    if m.digits.is_empty() || !m.digits.bytes().all(|b| b.is_ascii_hexdigit()) {
        return fail("1 or more hex digits", m.digits.clone(), "bad replay case: model.digits");
    }
    let want_words = m.length.unwrap_or(12);
    let Some(ent_len) = bip39::entropy_len(want_words) else {
        return fail("one of 12/15/18/21/24", want_words.to_string(), "bad replay case: model.length");
    };
    let path = match &m.selector {
        Selector::Default => bip32::default_path(0),
        Selector::Index(i) => bip32::default_path(*i),
        Selector::Path(p) => p.clone(),
    };
    if path.iter().any(|s| s.index >= 0x8000_0000) {
        return fail("path components below 2^31", bip32::render(&path), "bad replay case: model.selector");
    }
    let nfkd_password = m.password_nfkd.clone().or_else(|| m.password.clone()).unwrap_or_default();
    let exe = if m.plain_build {
        match &env.plain {
            Some(p) => p,
            None => return fail("plain release CLI", "not built", "case needs the plain release build (HDV_CLI_PLAIN / --cli-plain)"),
        }
    } else {
        &env.cli
    };

    // ---- run
    if TIMEOUT_COUNT.load(Ordering::SeqCst) >= MAX_TIMEOUTS {
        cls.label("skipped-after-timeouts");
        return Ok(());
    }
    let mut inv = c.inv.clone();
    let mut log_path = None;
    if m.entropy != Entropy::NoShim {
        let Some(shim) = &env.shim else {
            return fail("getentropy shim", "not built", "case needs the LD_PRELOAD shim (HDV_SHIM / --shim)");
        };
        let p = cli::temp_file(&env.root, b"");
        inv = inv.env("LD_PRELOAD", shim.display().to_string()).env("GE_LOG", p.display().to_string());
        log_path = Some(p);
    }
    let out = cli::run(exe, &inv, TIMEOUT);
    let log = log_path.map(|p| {
        let t = std::fs::read_to_string(&p).unwrap_or_default();
        let _ = std::fs::remove_file(&p);
        parse_log(&t)
    });
    let what = format!("argv {:?} env {:?}{}", c.inv.args, c.inv.env, if m.plain_build { " (plain release build)" } else { "" });
    if out.timed_out {
        cls.label("timeout");
        note_timeout(&what);
        return Ok(());
    }

    // ---- the run succeeded and printed exactly one line
    if out.panicked() {
        return fail("exit 0 and one phrase on stdout", out.describe(), format!("vanity search panicked or was killed; {what}"));
    }
    if !out.ok() {
        return fail(
            "exit 0 and one phrase on stdout",
            out.describe(),
            format!("vanity search for a hexadecimal prefix with a valid length and selector ended in an error; {what}"),
        );
    }
    let Ok(stdout) = String::from_utf8(out.stdout.clone()) else {
        return fail("one line of text", out.describe(), format!("stdout is not UTF-8; {what}"));
    };
    let line = stdout.strip_suffix('\n').unwrap_or(&stdout);
    if line.is_empty() || line.contains('\n') {
        return fail("exactly one line on stdout", format!("{stdout:?}"), format!("output of a successful vanity search; {what}"));
    }

    // ---- it is a valid mnemonic of the requested length
    let entropy = match bip39::decode_phrase(line) {
        Ok(e) => e,
        Err(why) => {
            return fail("a valid BIP-39 phrase", format!("{line:?} ({why:?})"), format!("printed phrase is not a valid mnemonic; {what}"));
        }
    };
    let words = bip39::split_ascii_ws(line).len();
    if words != want_words || entropy.len() != ent_len {
        return fail(format!("{want_words} words"), format!("{words} words: {line:?}"), format!("length of the printed phrase; {what}"));
    }

    // ---- the selected account's address begins with the requested digits
    let Some(address) = reference_address(&entropy, &nfkd_password, &path) else {
        // I_L >= n or a zero child key on the reference path (probability ~2^-127): BIP-32 leaves no address to compare
        cls.unspecified("reference-derivation-invalid");
        return Ok(());
    };
    let address_hex = hex_lower(&address);
    let want_prefix = m.digits.to_ascii_lowercase();
    if !address_hex.starts_with(&want_prefix) {
        return fail(
            format!("address 0x{want_prefix}…"),
            format!("address 0x{address_hex} for phrase {line:?}"),
            format!(
                "address of the account at {} (password NFKD {:?}) of the printed phrase does not begin with the requested digits; {what}",
                bip32::render(&path),
                nfkd_password
            ),
        );
    }

    // ---- with the shim: the phrase carries one of the blocks the OS interface delivered
    let mut iterated = None;
    if let Some(calls) = &log {
        let Some(pos) = calls.iter().position(|(_, b)| *b == entropy) else {
            return fail(
                format!("entropy of the printed phrase among the {} logged getentropy results", calls.len()),
                hex_lower(&entropy),
                format!("the printed phrase does not carry a block delivered by getentropy; {what}"),
            );
        };
        iterated = Some(calls.len() >= 2);
        let winner_call = calls[pos].0;
        if m.threads.map(|j| j >= 2).unwrap_or(true) {
            // schedule variety, measured from the log (no assertion)
            cls.label(if winner_call == 0 {
                "mt-winner-is-shared-first-candidate"
            } else if pos + 1 == calls.len() {
                "mt-winner-is-last-logged-call"
            } else {
                "mt-others-drew-after-the-winner"
            });
        } else if let Entropy::Seeded(seed) = m.entropy {
            // -j 0 / -j 1: candidates are drawn one after the other, so the first block of the
            // deterministic stream whose address matches can be predicted. The property does not
            // promise "first match", so a difference is recorded, never reported.
            let mut predicted = None;
            for i in 0..=winner_call.min(PREDICTION_BUDGET) {
                let block = shim_block(seed, i, ent_len);
                if reference_address(&block, &nfkd_password, &path).map(|a| hex_lower(&a).starts_with(&want_prefix)) == Some(true) {
                    predicted = Some(block);
                    break;
                }
            }
            match predicted {
                Some(b) if b == entropy => cls.label("sequential-prediction-confirmed"),
                Some(_) => {
                    cls.label("sequential-prediction-differs");
                    cls.unspecified("printed phrase is a match but not the first matching block of the stream");
                }
                None => cls.label("sequential-prediction-beyond-budget"),
            }
        }
    }

    // ---- classification
    let d = m.digits.len();
    cls.label(&format!("digits-{}", d.min(4)));
    cls.label(if d % 2 == 1 { "odd-prefix" } else { "even-prefix" });
    let has_lower = m.digits.bytes().any(|b| b.is_ascii_lowercase());
    let has_upper = m.digits.bytes().any(|b| b.is_ascii_uppercase());
    let case_class = match (has_lower, has_upper) {
        (false, false) => "case-decimal-digits-only",
        (true, false) => "case-lower",
        (false, true) => "case-upper",
        (true, true) => "case-mixed",
    };
    cls.label(case_class);
    cls.label(&threads_label(m.threads));
    cls.label(&format!("n-{}", m.length.map(|n| n.to_string()).unwrap_or_else(|| "default".into())));
    let sel_class = match &m.selector {
        Selector::Default => "sel-default",
        Selector::Index(_) => "sel-index",
        Selector::Path(_) => "sel-path",
    };
    cls.label(sel_class);
    if let Some(p) = &m.password {
        cls.label("password");
        if !p.is_ascii() {
            cls.label("password-non-ascii");
        }
    }
    match m.entropy {
        Entropy::Seeded(_) => {}
        Entropy::RealLogged => cls.label("entropy-real-logged"),
        Entropy::NoShim => cls.label("entropy-no-shim"),
    }
    if m.plain_build {
        cls.label("plain-release-build");
    }
    match iterated {
        Some(true) => cls.label("search-iterated"),
        Some(false) => cls.label("first-candidate-matched"),
        None => {}
    }
    let default_selector = m.selector == Selector::Default && m.password.as_deref().unwrap_or("").is_empty();
    let multi = m.threads.map(|j| j >= 2).unwrap_or(true);
    if has_lower || has_upper || d >= 2 || !default_selector || multi {
        cls.nontrivial(m);
    }
    cls.sample(&format!("{}-digit/{}{}", d, sel_class, if m.password.is_some() { "+password" } else { "" }), || {
        json!({"argv": c.inv.args, "env": c.inv.env, "phrase": line, "address": format!("0x{address_hex}"), "path": bip32::render(&path),
               "getentropy_calls": log.as_ref().map(|l| l.len())})
    });
    Ok(())
}

// ---------------------------------------------------------------- refusal clause

#[derive(Clone, Debug, Serialize, Deserialize)]
pub struct RefusalCase {
    /// "non-hex" (must be refused) | "no-0x" | "empty" (unspecified: only no panic)
    pub kind: String,
    /// the value passed to --vanity-prefix
    pub prefix: String,
    pub inv: Invocation,
}

fn refusal_case(kind: &str, prefix: &str, extra: &[&str]) -> RefusalCase {
    // `--vanity-prefix=<value>` so that a value beginning with '-' stays a value
    let mut inv = Invocation::new(&["new"]).arg(format!("--vanity-prefix={prefix}"));
    for e in extra {
        inv = inv.arg(*e);
    }
    RefusalCase { kind: kind.into(), prefix: prefix.into(), inv }
}

fn judge_refusal(c: &RefusalCase, cls: &mut Classifier) -> Verdict {
    let env = ENV.get().expect("C18 environment is initialised before any judge runs");
    if TIMEOUT_COUNT.load(Ordering::SeqCst) >= MAX_TIMEOUTS {
        cls.label("skipped-after-timeouts");
        return Ok(());
    }
    // a refusal happens while the arguments are parsed (milliseconds); if a search was started
    // instead it may run for any time, so the watchdog is shorter here
    let out = cli::run(&env.cli, &c.inv, REFUSAL_TIMEOUT);
    let what = format!("argv {:?}", c.inv.args);
    if out.timed_out {
        cls.label("timeout");
        note_timeout(&what);
        return Ok(());
    }
    if out.panicked() {
        return fail("an ordinary error", out.describe(), format!("panic or abnormal exit on vanity prefix {:?}; {what}", c.prefix));
    }
    match c.kind.as_str() {
        "non-hex" => {
            let digits = c.prefix.strip_prefix("0x");
            let really_non_hex = matches!(digits, Some(d) if !d.is_empty() && !d.bytes().all(|b| b.is_ascii_hexdigit()));
            if !really_non_hex {
                return fail("0x followed by at least one non-hex character", c.prefix.clone(), "bad replay case: prefix");
            }
            if !out.ordinary_error() || !out.stdout.is_empty() {
                return fail(
                    "error exit, empty stdout",
                    out.describe(),
                    format!("a vanity prefix that is not hexadecimal must be refused: {:?}; {what}", c.prefix),
                );
            }
            cls.label("refused-non-hex");
            if !c.prefix.is_ascii() {
                cls.label("refused-non-hex/non-ascii");
            }
            cls.nontrivial(&c.inv.args);
            cls.sample("refused-non-hex", || json!({"argv": c.inv.args, "exit": out.code, "stderr": crate::engine::truncate(&out.stderr_str(), 160)}));
        }
        kind => {
            cls.unspecified(if kind == "empty" { "empty prefix 0x" } else { "prefix without 0x" });
            cls.label(if out.ok() { "unspecified-accepted" } else { "unspecified-refused" });
            cls.sample("unspecified-prefix", || json!({"argv": c.inv.args, "exit": out.code}));
        }
    }
    Ok(())
}

// ---------------------------------------------------------------- generators

const HEX_LOWER: &[u8; 16] = b"0123456789abcdef";
const THREADS_NARROW: [usize; 3] = [0, 1, 2];

/// `d` hex digits in the given style: 0 lower, 1 upper (at least one letter),
/// 2 mixed (at least one lower-case and one upper-case letter; needs d >= 2).
fn gen_digits(p: &mut Prng, d: usize, style: usize) -> String {
    let mut nib: Vec<u8> = (0..d).map(|_| p.below(16) as u8).collect();
    let mut upper: Vec<bool> = (0..d).map(|_| p.below(2) == 1).collect();
    match style {
        0 => upper.iter_mut().for_each(|u| *u = false),
        1 => {
            upper.iter_mut().for_each(|u| *u = true);
            if nib.iter().all(|n| *n < 10) {
                let i = p.below(d as u64) as usize;
                nib[i] = 10 + p.below(6) as u8;
            }
        }
        _ => {
            assert!(d >= 2);
            let i = p.below(d as u64) as usize;
            let j = (i + 1 + p.below(d as u64 - 1) as usize) % d;
            for (k, up) in [(i, true), (j, false)] {
                if nib[k] < 10 {
                    nib[k] = 10 + p.below(6) as u8;
                }
                upper[k] = up;
            }
        }
    }
    nib.iter()
        .zip(&upper)
        .map(|(n, up)| {
            let c = HEX_LOWER[*n as usize] as char;
            if *up {
                c.to_ascii_uppercase()
            } else {
                c
            }
        })
        .collect()
}

fn gen_seed(p: &mut Prng) -> u64 {
    p.next_u64() >> 1
}

/// (as typed, NFKD form); `variant` selects the kind of password
fn gen_password(p: &mut Prng, variant: usize) -> (String, String) {
    const FIXED: [&str; 6] = ["TREZOR", "correct horse battery staple", "p@ss w0rd!", " leading and trailing ", "", "0"];
    match variant % 4 {
        0 => {
            let s = FIXED[p.below(FIXED.len() as u64) as usize].to_string();
            (s.clone(), s)
        }
        1 | 2 => {
            // printable ASCII, never starting with '-' (would read as an option)
            let n = 1 + p.below(14) as usize;
            let s: String = (0..n)
                .map(|k| {
                    let c = (0x20 + p.below(0x5f) as u8) as char;
                    if k == 0 && c == '-' {
                        '_'
                    } else {
                        c
                    }
                })
                .collect();
            (s.clone(), s)
        }
        _ => {
            // a precomposed Latin letter between ASCII starters: NFKD known from the hand-written table
            let latin: Vec<&(&str, &str, &str)> = nfkd_pairs::PAIRS.iter().filter(|e| e.0.starts_with("latin/")).collect();
            let e = latin[p.below(latin.len() as u64) as usize];
            (format!("pw{}x", e.1), format!("pw{}x", e.2))
        }
    }
}

fn gen_index(p: &mut Prng) -> u32 {
    match p.below(8) {
        0 => 0,
        1 => 1,
        2 => 2,
        3 => 7,
        4 => 0x7fff_ffff,
        5 => 0x7fff_fffe,
        6 => p.below(1000) as u32,
        _ => p.below(0x8000_0000) as u32,
    }
}

fn gen_path(p: &mut Prng) -> Vec<Step> {
    let st = |index: u32, hardened: bool| Step { index, hardened };
    match p.below(8) {
        0 => bip32::default_path(p.below(4) as u32),
        1 => vec![st(44, true), st(60, true), st(1 + p.below(3) as u32, true), st(0, false), st(0, false)],
        2 => vec![st(0, p.below(2) == 1)],
        3 => vec![st(0x7fff_ffff, true), st(0x7fff_ffff, false)],
        4 => vec![st(44, true), st(60, true), st(0, true), st(p.below(5) as u32, false)],
        5 => (0..10).map(|k| st(k, k % 2 == 0)).collect(),
        _ => {
            let n = 1 + p.below(7) as usize;
            (0..n)
                .map(|_| {
                    let index = match p.below(4) {
                        0 => p.below(3) as u32,
                        1 => 0x7fff_ffff - p.below(2) as u32,
                        _ => p.below(0x8000_0000) as u32,
                    };
                    st(index, p.below(2) == 1)
                })
                .collect()
        }
    }
}

/// selector kinds: 0 default, 1 password, 2 index, 3 path, 4 password+index, 5 password+path
fn gen_selector(p: &mut Prng, kind: usize, variant: usize) -> (Option<(String, String)>, Selector) {
    let pw = matches!(kind, 1 | 4 | 5).then(|| gen_password(p, variant));
    let sel = match kind {
        2 | 4 => Selector::Index(gen_index(p)),
        3 | 5 => Selector::Path(gen_path(p)),
        _ => Selector::Default,
    };
    (pw, sel)
}

fn model(digits: String, length: Option<usize>, threads: Option<usize>, pw: Option<(String, String)>, selector: Selector, entropy: Entropy) -> Model {
    let (password, password_nfkd) = match pw {
        Some((a, b)) => (Some(a), Some(b)),
        None => (None, None),
    };
    Model { digits, length, threads, password, password_nfkd, selector, entropy, plain_build: false }
}

/// The exhaustive single-digit list: 16 lower-case digits and the 6 upper-case letters.
fn single_digits() -> Vec<String> {
    let mut v: Vec<String> = HEX_LOWER.iter().map(|c| (*c as char).to_string()).collect();
    v.extend("ABCDEF".chars().map(|c| c.to_string()));
    v
}

fn gen_single(seed: u64, threads: &[usize], reps: usize) -> Vec<Case> {
    let mut p = Prng::new(seed);
    let mut v = vec![];
    for _ in 0..reps {
        for d in single_digits() {
            for j in threads {
                v.push(case_of(model(d.clone(), None, Some(*j), None, Selector::Default, Entropy::Seeded(gen_seed(&mut p)))));
            }
        }
    }
    v
}

/// `configs` stratified configurations, each repeated `reps` times with a
/// different shim seed. `digits_of(c)` gives the prefix length of config c.
fn gen_configs(
    seed: u64,
    configs: usize,
    reps: usize,
    digits_of: impl Fn(usize) -> usize,
    threads_of: impl Fn(usize) -> Option<usize>,
    entropy_of: impl Fn(usize, &mut Prng) -> Entropy,
) -> Vec<Case> {
    let mut p = Prng::new(seed);
    let mut v = vec![];
    for c in 0..configs {
        let d = digits_of(c);
        // marginals are assigned by index (floors cannot depend on luck), values are drawn
        let style = if d >= 2 { (c + c / 18) % 3 } else { (c / 2) % 2 };
        let digits = gen_digits(&mut p, d, style);
        let kind = (c / 3) % 6;
        let (pw, selector) = gen_selector(&mut p, kind, c + c / 18);
        let length = match (c / 2) % 6 {
            5 => None,
            k => Some(bip39::LENGTHS[k]),
        };
        let threads = threads_of(c);
        for _ in 0..reps {
            let entropy = entropy_of(c, &mut p);
            v.push(case_of(model(digits.clone(), length, threads, pw.clone(), selector.clone(), entropy)));
        }
    }
    v
}

fn seeded(_: usize, p: &mut Prng) -> Entropy {
    Entropy::Seeded(gen_seed(p))
}

const NON_HEX_FIXED: [&str; 26] = [
    "0xg",
    "0xG",
    "0x1z",
    "0xz1",
    "0x-1",
    "0x+1",
    "0x\u{ff11}",         // full-width digit one
    "0x\u{ff41}\u{ff42}", // full-width a b
    "0x\u{0661}",         // Arabic-Indic digit one
    "0x 1",
    "0x1 ",
    "0x1\t",
    "0x0x1",
    "0x0X",
    "0xx",
    "0x1.",
    "0x1,2",
    "0x_a",
    "0xa_",
    "0xab\u{e9}",
    "0x\u{e9}",
    "0x1g2",
    "0xabg",
    "0x:;",
    "0x@`",
    "0x/",
];

fn gen_refusals(seed: u64, generated: usize) -> Vec<RefusalCase> {
    let mut p = Prng::new(seed);
    let mut v = vec![];
    let extras: [&[&str]; 4] = [&[], &["-j", "0"], &["-j", "1"], &["-j", "2", "-n", "24"]];
    for (i, s) in NON_HEX_FIXED.iter().enumerate() {
        v.push(refusal_case("non-hex", s, extras[i % extras.len()]));
    }
    // generated: 1..3 characters after 0x, at least one of them not a hex digit; the neighbours of
    // the hex ranges ('/', ':', '@', 'G', '`', 'g') are over-represented
    const NEIGHBOURS: [char; 6] = ['/', ':', '@', 'G', '`', 'g'];
    const NON_ASCII: [char; 8] = ['\u{ff10}', '\u{ff26}', '\u{0660}', '\u{e9}', '\u{3b1}', '\u{430}', '\u{1d7d8}', '\u{2014}'];
    for i in 0..generated {
        let n = 1 + p.below(3) as usize;
        let bad_at = p.below(n as u64) as usize;
        let mut s = String::from("0x");
        for k in 0..n {
            if k == bad_at {
                let c = match p.below(4) {
                    0 => NEIGHBOURS[p.below(6) as usize],
                    1 => NON_ASCII[p.below(8) as usize],
                    _ => loop {
                        let c = (0x20 + p.below(0x5f) as u8) as char;
                        if !c.is_ascii_hexdigit() {
                            break c;
                        }
                    },
                };
                s.push(c);
            } else {
                let c = HEX_LOWER[p.below(16) as usize] as char;
                s.push(if p.below(2) == 1 { c.to_ascii_uppercase() } else { c });
            }
        }
        v.push(refusal_case("non-hex", &s, extras[i % extras.len()]));
    }
    // sweep: every ASCII character 0x01..=0x7f that is not a hex digit, alone, after a digit and before a digit
    // (control characters included: a case fold like `c | 0x20` maps 0x10..0x19 onto the digits)
    for b in 1u8..=0x7f {
        let c = b as char;
        if c.is_ascii_hexdigit() {
            continue;
        }
        for s in [format!("0x{c}"), format!("0x1{c}"), format!("0x{c}a")] {
            v.push(refusal_case("non-hex", &s, extras[b as usize % extras.len()]));
        }
    }
    // unspecified spellings: no assertion beyond "no panic"
    for s in ["a", "1", "ab", "AB", "x1", "0Xab", "0X1", "-1", " 0x1", ""] {
        v.push(refusal_case("no-0x", s, &["-j", "1"]));
    }
    for extra in [&["-j", "0"][..], &["-j", "1"], &["-j", "2"]] {
        v.push(refusal_case("empty", "0x", extra));
    }
    v
}

// ---------------------------------------------------------------- run

fn run_list(ctx: &mut Ctx, sub: &str, cases: &[Case], one_at_a_time: bool) {
    if one_at_a_time {
        // a -j 16 run occupies every core: lists of fewer than 64 cases are run in order by run_cases
        for part in cases.chunks(48) {
            ctx.run_cases(sub, part, judge_search);
        }
    } else {
        ctx.run_cases(sub, cases, judge_search);
    }
    drain_timeouts(ctx);
}

fn with_plain(cases: &[Case], every: usize) -> Vec<Case> {
    cases
        .iter()
        .step_by(every.max(1))
        .map(|c| {
            let mut m = c.model.clone();
            m.plain_build = true;
            case_of(m)
        })
        .collect()
}

// ---------------------------------------------------------------- long prefixes with a known first candidate

/// Prefixes of 4..42 digits cannot be found by search, but the shim makes the FIRST candidate known: its
/// reference address gives a prefix of any length that must match at once, and a near miss (last digit
/// changed, or more digits than an address has) that must not match. `GE_FAIL_FROM=1` ends the search after
/// the first candidate, so "no match" shows as an ordinary error instead of an endless search.
#[derive(Clone, Debug, Serialize, Deserialize)]
pub struct LongPrefixCase {
    pub ge_seed: u64,
    pub words: usize,
    pub threads: usize,
    /// digits after 0x, as typed
    pub digits: String,
    /// whether the first candidate's address starts with these digits (decided by the reference)
    pub matches: bool,
}

fn gen_long_prefixes(seed: u64, per_len: usize) -> Vec<LongPrefixCase> {
    let mut p = Prng::new(seed);
    let mut out = vec![];
    for d in [1usize, 2, 3, 4, 5, 8, 15, 16, 17, 18, 19, 20, 31, 32, 33, 39, 40, 41, 42] {
        for k in 0..per_len {
            let ge_seed = p.next_u64() >> 1;
            let words = [12usize, 15, 18, 21, 24][(d + k) % 5];
            let ent = shim_block(ge_seed, 0, words * 4 / 3);
            let Some(addr) = reference_address(&ent, "", &bip32::default_path(0)) else { continue };
            let hex = hex_lower(&addr);
            let threads = [0usize, 1, 2][(d + k) % 3];
            let style = |s: &str, p: &mut Prng| -> String {
                match p.below(3) {
                    0 => s.to_string(),
                    1 => s.to_uppercase(),
                    _ => s.chars().map(|c| if p.below(2) == 0 { c.to_ascii_uppercase() } else { c }).collect(),
                }
            };
            if d <= 40 {
                out.push(LongPrefixCase { ge_seed, words, threads, digits: style(&hex[..d], &mut p), matches: true });
                // near miss: last digit changed
                let mut miss: Vec<u8> = hex[..d].as_bytes().to_vec();
                let last = miss[d - 1];
                miss[d - 1] = if last == b'f' { b'0' } else if last == b'9' { b'a' } else { last + 1 };
                out.push(LongPrefixCase { ge_seed, words, threads, digits: style(std::str::from_utf8(&miss).unwrap(), &mut p), matches: false });
                // near miss: a digit in the middle changed (for d >= 3)
                if d >= 3 {
                    let mut miss: Vec<u8> = hex[..d].as_bytes().to_vec();
                    let i = d / 2;
                    miss[i] = if miss[i] == b'0' { b'1' } else { b'0' };
                    out.push(LongPrefixCase { ge_seed, words, threads, digits: String::from_utf8(miss).unwrap(), matches: false });
                }
            } else {
                // more digits than an address has: can never match
                out.push(LongPrefixCase { ge_seed, words, threads, digits: format!("{hex}{}", "0".repeat(d - 40)), matches: false });
            }
        }
    }
    out
}

fn judge_long_prefix(c: &LongPrefixCase, cls: &mut Classifier) -> Verdict {
    let env = ENV.get().expect("C18 environment is initialised before any judge runs");
    let Some(shim) = &env.shim else { return fail("getentropy shim", "not built", "case needs the LD_PRELOAD shim") };
    let Some(ent_len) = bip39::entropy_len(c.words) else { return fail("supported length", c.words.to_string(), "bad replay case") };
    let ent = shim_block(c.ge_seed, 0, ent_len);
    let Some(addr) = reference_address(&ent, "", &bip32::default_path(0)) else { return fail("reference address", "none", "bad replay case") };
    let hex = hex_lower(&addr);
    let really = c.digits.len() <= 40 && hex.starts_with(&c.digits.to_lowercase());
    if really != c.matches {
        return fail(format!("matches = {really}"), format!("matches = {}", c.matches), "bad replay case: reference disagrees with the stored expectation");
    }
    let log = cli::temp_file(&env.root, b"");
    let inv = Invocation::new(&["new", "--vanity-prefix"])
        .arg(format!("0x{}", c.digits))
        .arg("-n")
        .arg(c.words.to_string())
        .arg("-j")
        .arg(c.threads.to_string())
        .env("LD_PRELOAD", shim.display().to_string())
        .env("GE_LOG", log.display().to_string())
        .env("GE_SEED", c.ge_seed.to_string())
        .env("GE_FAIL_FROM", "1");
    let out = cli::run(&env.cli, &inv, Duration::from_secs(60));
    let _ = std::fs::remove_file(&log);
    if out.timed_out {
        TIMEOUTS.lock().unwrap().push(format!("long-prefix 0x{}", c.digits));
        return Ok(());
    }
    let what = format!("`new --vanity-prefix 0x{} -n {} -j {}` with a known first candidate (address 0x{hex}) and no further entropy", c.digits, c.words, c.threads);
    if out.panicked() {
        return fail("a phrase or an ordinary error", out.describe(), format!("{what}: panic / abnormal end"));
    }
    if c.matches {
        let want = format!("{}\n", bip39::encode_phrase(&ent));
        if !out.ok() || out.stdout_str() != want {
            return fail(want, out.describe(), format!("{what}: the first candidate's address begins with the requested {} digits, so it must be printed", c.digits.len()));
        }
        cls.label("long-prefix:matched");
    } else {
        if !out.ordinary_error() || !out.stdout.is_empty() {
            return fail("ordinary error with empty stdout (the only candidate does not have the prefix)", out.describe(), format!("{what}: a phrase was printed although its address does not begin with the requested digits"));
        }
        cls.label("long-prefix:no-match");
    }
    cls.label(&format!("long-prefix:digits-{}", match c.digits.len() { 0..=3 => "1-3", 4..=16 => "4-16", 17..=40 => "17-40", _ => ">40" }));
    cls.nontrivial(&(c.ge_seed, c.digits.as_str(), c.threads));
    cls.sample("long-prefix", || json!({"args": inv.args, "first_candidate_address": hex, "matches": c.matches}));
    Ok(())
}

pub fn run(ctx: &mut Ctx) {
    ctx.rule = "Subject: the executable, `hdwallet new --vanity-prefix 0x<digits> [-n L] [-j N] [--vanity-password P] [--vanity-account-index I | --vanity-hd-path PATH]`, run under an LD_PRELOAD getentropy shim that delivers a seeded, logged byte stream. Generator: (single-digit) all 16 lower-case digits and the 6 upper-case letters x -j {0,1,2,16}, exhaustively; (search) stratified configurations of 1-2 digit prefixes in lower/upper/mixed case x -j {0,1,2} x selector {none, password, index, path, password+index, password+path} x -n {12,15,18,21,24,omitted}, each repeated with different shim seeds; (wide) 2- and 3-digit prefixes at -j 16 / -j omitted, run one at a time, repeated with different seeds so that a different worker wins; three fifths of the seeded runs carry an environment variable of the other commands' account options (PASSWORD, ACCOUNT_INDEX, HD_PATH+MNEMONIC), which must not change which account is searched; two thirds of the seeded multi-thread runs add schedule perturbation (GE_JITTER_US: the shim delays every entropy request by a pseudo-random time scaled by a per-thread slowness factor, so which worker finishes first varies); thorough adds runs on real OS entropy (logged and without any shim) and the plain release build; (long-prefix) prefixes of 1..42 digits taken from (or one digit off) the reference address of the seeded stream's FIRST candidate, with GE_FAIL_FROM=1 so that the search ends after it: a true prefix of any length must print that candidate, a near miss or an over-long prefix must end in an error; (refusal) 0x followed by 1-3 characters of which at least one is not a hex digit (fixed list incl. full-width and Arabic-Indic digits, neighbours of the hex ranges, generated ASCII/non-ASCII, and every non-hex ASCII character 0x01..0x7f alone / after a digit / before a digit). Oracle (schedule-independent): exit 0 and exactly one stdout line that the reference BIP-39 decoder accepts with the requested word count; the reference chain entropy -> canonical phrase -> PBKDF2(phrase, 'mnemonic'+NFKD(password)) -> BIP-32 CKDpriv along m/44'/60'/0'/0/i or the given path -> secp256k1 k*G -> Keccak address must begin, in lower-case hex, with the lower-cased requested digits; with the shim the phrase's entropy must be one of the logged getentropy results. Non-hex prefix: error exit (255 or 2), empty stdout, no panic. For -j 0/1 the first matching block of the seeded stream is predicted and compared (recorded as a class, never reported: the property does not promise first-match). Non-trivial: prefix contains a letter digit, or has >= 2 digits, or a password/index/path is given, or >= 2 threads; distinct by the whole model (prefix, -n, -j, password, selector, entropy source/seed, build).".into();
    ctx.assumptions = vec![
        "prefixes without 0x and the empty prefix 0x are unspecified: run, counted, only checked for 'no panic'".into(),
        "a successful search is required for every hexadecimal prefix with a valid length and selector (an error exit is reported), since nothing in such an input can be refused".into(),
        "non-ASCII vanity passwords are limited to precomposed Latin letters whose NFKD form is taken from the hand-written table (NFKD itself is C02's subject)".into(),
        "thread interleavings are explored by repetition only (different seeds, real entropy in thorough); no schedule is forced".into(),
        "a watchdog expiry (120 s) is inconclusive, never a violation".into(),
    ];
    let env = match init_env(ctx) {
        Ok(e) => e,
        Err(e) => {
            ctx.inconclusive(e);
            return;
        }
    };
    if let Err(e) = shim_selftest(env) {
        ctx.inconclusive(e);
        return;
    }
    ctx.replay_known_and_regressions(&replay_inner);
    drain_timeouts(ctx);
    let thorough = ctx.tier.pick(false, true);

    // (a) exhaustive single digits
    let single = gen_single(ctx.sub_seed("single-digit", 0), &THREADS_NARROW, ctx.tier.pick(1, 6));
    run_list(ctx, "single-digit", &single, false);
    let single16 = gen_single(ctx.sub_seed("single-digit-j16", 0), &[16], ctx.tier.pick(1, 4));
    run_list(ctx, "single-digit-j16", &single16, true);
    ctx.exhaustive_parts.push("all 16 single hex digits in lower case and the 6 letter digits in upper case, each with -j 0, 1, 2 and 16 (default selector, 12 words)".into());

    // (b) generated configurations, narrow thread counts, sharded over the cores
    let search = gen_configs(
        ctx.sub_seed("search", 0),
        ctx.tier.pick(54, 540),
        2,
        |c| if c % 4 == 3 { 1 } else { 2 },
        |c| Some(THREADS_NARROW[c % 3]),
        seeded,
    );
    run_list(ctx, "search", &search, false);

    // (c) wide runs, one at a time
    let wide2 = gen_configs(
        ctx.sub_seed("wide", 2),
        ctx.tier.pick(6, 36),
        2,
        |_| 2,
        |c| if c % 6 == 5 { None } else { Some(16) },
        seeded,
    );
    run_list(ctx, "wide", &wide2, true);
    let wide3 = gen_configs(
        ctx.sub_seed("wide", 3),
        ctx.tier.pick(2, 20),
        ctx.tier.pick(2, 3),
        |_| 3,
        |_| Some(16),
        seeded,
    );
    // selector kinds of configs 0 and 1 would both be "default": shift so that quick's two configs carry a selector
    let wide3: Vec<Case> = wide3
        .into_iter()
        .enumerate()
        .map(|(i, c)| {
            if c.model.selector == Selector::Default && c.model.password.is_none() {
                let mut p = Prng::new(ctx.sub_seed("wide-selector", i as u64));
                let (pw, selector) = gen_selector(&mut p, 3 + i % 3, 3 + i);
                let mut m = c.model;
                if let Some((a, b)) = pw {
                    m.password = Some(a);
                    m.password_nfkd = Some(b);
                }
                m.selector = selector;
                case_of(m)
            } else {
                c
            }
        })
        .collect();
    run_list(ctx, "wide", &wide3, true);

    // long prefixes (4..42 digits) decided on a known first candidate
    let lp = gen_long_prefixes(ctx.sub_seed("long-prefix", 0), ctx.tier.pick(2, 12));
    ctx.run_cases("long-prefix", &lp, judge_long_prefix);
    drain_timeouts(ctx);
    ctx.floor_abs("long-prefix:matched", 30);
    ctx.floor_abs("long-prefix:no-match", 50);
    ctx.floor_abs("long-prefix:digits-17-40", 20);

    // (d) refusal clause and unspecified spellings
    let refusals = gen_refusals(ctx.sub_seed("refusal", 0), ctx.tier.pick(30, 600));
    ctx.run_cases("refusal", &refusals, judge_refusal);
    drain_timeouts(ctx);

    // (e) thorough: real entropy (with and without the shim) and the plain release build
    if thorough {
        let real = gen_configs(
            ctx.sub_seed("search-real-entropy", 0),
            120,
            2,
            |c| if c % 4 == 3 { 1 } else { 2 },
            |c| Some([2, 0, 1][c % 3]),
            |c, _| if c % 2 == 0 { Entropy::NoShim } else { Entropy::RealLogged },
        );
        run_list(ctx, "search-real-entropy", &real, false);
        let wide_real = gen_configs(
            ctx.sub_seed("wide-real-entropy", 0),
            12,
            3,
            |c| 2 + c % 2,
            |_| Some(16),
            |c, _| if c % 2 == 0 { Entropy::NoShim } else { Entropy::RealLogged },
        );
        run_list(ctx, "wide-real-entropy", &wide_real, true);
        if env.plain.is_none() {
            ctx.inconclusive("plain release CLI is not built (thorough tier compares both builds)");
        } else {
            let mut plain = with_plain(&single, 1);
            plain.extend(with_plain(&search, 3));
            run_list(ctx, "plain-build", &plain, false);
            let mut plain_wide = with_plain(&single16, 2);
            plain_wide.extend(with_plain(&wide2, 3));
            plain_wide.extend(with_plain(&wide3, 6));
            run_list(ctx, "plain-build-wide", &plain_wide, true);
        }
    }

    // generator health (cases that failed or timed out carry no labels, so the floors only mean
    // something for a run without violations and expiries)
    if !ctx.violations.is_empty() || !ctx.inconclusive.is_empty() {
        return;
    }
    let min = |q: u64, t: u64| if thorough { t } else { q };
    for (label, q, t) in [
        ("digits-1", 88, 400),
        ("digits-2", 80, 800),
        ("digits-3", 4, 60),
        ("odd-prefix", 90, 460),
        ("case-lower", 20, 200),
        ("case-upper", 30, 300),
        ("case-mixed", 20, 200),
        ("j-0", 40, 400),
        ("j-1", 40, 400),
        ("j-2", 40, 400),
        ("j-16", 30, 150),
        ("j-default", 2, 10),
        ("sel-index", 20, 200),
        ("sel-path", 20, 200),
        ("password", 30, 300),
        ("password-non-ascii", 2, 30),
        ("n-15", 8, 80),
        ("n-18", 8, 80),
        ("n-21", 8, 80),
        ("n-24", 8, 80),
        ("search-iterated", 150, 1500),
        ("refused-non-hex", 50, 600),
    ] {
        ctx.floor_abs(label, min(q, t));
    }
    // the multi-threaded runs really had several workers drawing candidates concurrently
    ctx.floor_abs("mt-others-drew-after-the-winner", min(10, 100));
    if thorough {
        ctx.floor_abs("entropy-no-shim", 100);
        ctx.floor_abs("entropy-real-logged", 100);
        if env.plain.is_some() {
            ctx.floor_abs("plain-release-build", 300);
        }
    }
}

// ---------------------------------------------------------------- replay

fn replay_inner(sub: &str, case: &Value) -> Option<Verdict> {
    let v = match sub {
        "single-digit" | "single-digit-j16" | "search" | "wide" | "search-real-entropy" | "wide-real-entropy" | "plain-build" | "plain-build-wide" => {
            replay_as::<Case>(case, judge_search)
        }
        "refusal" => replay_as::<RefusalCase>(case, judge_refusal),
        "long-prefix" => replay_as::<LongPrefixCase>(case, judge_long_prefix),
        _ => return None,
    };
    Some(v)
}

/// Re-judges a stored case. A watchdog expiry is reported as INCONCLUSIVE
/// (no verdict), never as a pass or a violation.
pub fn replay(sub: &str, case: &Value, ctx: &Ctx) -> Option<Verdict> {
    if let Err(e) = init_env(ctx) {
        println!("INCONCLUSIVE property=C18 {e}");
        return None;
    }
    let v = replay_inner(sub, case);
    let t: Vec<String> = std::mem::take(&mut *TIMEOUTS.lock().unwrap_or_else(|e| e.into_inner()));
    if !t.is_empty() {
        for why in t {
            println!("INCONCLUSIVE property=C18 {why}");
        }
        return None;
    }
    v
}
