//! C09 — typed data that does not conform to its declared types is refused.

use crate::engine::{catch, fail, replay_as, Classifier, Ctx, Verdict};
use crate::gen::json::J;
use crate::gen::td::{self, TdModel};
use crate::gen::U;
use crate::refimpl::eip712::{StructDef, Ty, TypeGraph, Val};
use crate::refimpl::u256::Big;
use crate::refimpl::{bip39, hex_lower};
use hdwallet::typeddata::TypedData;
use proptest::prelude::*;
use serde::{Deserialize, Serialize};
use serde_json::{json, Value};
use std::path::PathBuf;
use std::sync::OnceLock;

#[derive(Clone, Debug, Serialize, Deserialize, PartialEq)]
pub enum Step {
    Key(String),
    Index(usize),
}

#[derive(Clone, Debug, Serialize, Deserialize)]
pub struct Case {
    pub doc: String,
    /// Some(model): the document conforms and must hash to the reference value; None: it must be refused
    pub model: Option<TdModel>,
    pub mutation: String,
    pub ty: String,
    pub depth: usize,
    pub detail: String,
    /// a conforming control written in a spelling the properties do not promise (negative hex string):
    /// exact if accepted, refusal allowed
    #[serde(default)]
    pub lenient: bool,
}

// ---------------------------------------------------------------- positions

struct Pos {
    path: Vec<Step>, // starts with Key("message") or Key("domain")
    ty: Ty,
    #[allow(dead_code)]
    val: Val,
}

fn collect(g: &TypeGraph, ty: &Ty, v: &Val, path: &mut Vec<Step>, out: &mut Vec<Pos>) {
    out.push(Pos { path: path.clone(), ty: ty.clone(), val: v.clone() });
    match (ty, v) {
        (Ty::Struct(name), Val::Struct(fields)) => {
            let def = g.get(name).expect("defined");
            for (n, fv) in fields {
                let mt = &def.members.iter().find(|(mn, _)| mn == n).expect("member").1;
                path.push(Step::Key(n.clone()));
                collect(g, mt, fv, path, out);
                path.pop();
            }
        }
        (Ty::Array(e, _), Val::Array(items)) => {
            for (i, it) in items.iter().enumerate() {
                path.push(Step::Index(i));
                collect(g, e, it, path, out);
                path.pop();
            }
        }
        _ => {}
    }
}

fn at<'a>(doc: &'a mut J, path: &[Step]) -> Option<&'a mut J> {
    let mut cur = doc;
    for s in path {
        cur = match (s, cur) {
            (Step::Key(k), J::Obj(o)) => &mut o.iter_mut().find(|(kk, _)| kk == k)?.1,
            (Step::Index(i), J::Arr(a)) => a.get_mut(*i)?,
            _ => return None,
        };
    }
    Some(cur)
}

fn set_val(root: &mut Val, path: &[Step], new: Val) -> bool {
    let mut cur = root;
    for s in path {
        cur = match (s, cur) {
            (Step::Key(k), Val::Struct(f)) => match f.iter_mut().find(|(kk, _)| kk == k) {
                Some((_, v)) => v,
                None => return false,
            },
            (Step::Index(i), Val::Array(a)) => match a.get_mut(*i) {
                Some(v) => v,
                None => return false,
            },
            _ => return false,
        };
    }
    *cur = new;
    true
}

// ---------------------------------------------------------------- spellings of signed integers

/// all spellings that can carry (neg, mag) exactly: (fragment, name)
pub fn spellings(neg: bool, mag: &Big) -> Vec<(String, &'static str)> {
    let d = mag.to_dec();
    let sign = if neg && !mag.is_zero() { "-" } else { "" };
    let mut v = vec![];
    let fits_int = if neg { mag.bit_len() <= 63 } else { mag.bit_len() <= 64 };
    if fits_int {
        v.push((format!("{sign}{d}"), "json-int"));
    }
    if mag.bit_len() <= 53 {
        v.push((format!("{sign}{d}.0"), "json-float"));
    }
    v.push((format!("\"{sign}{d}\""), "dec-string"));
    v.push((format!("\"{sign}0x{}\"", mag.to_hex()), "hex-string"));
    v
}

fn p2(k: u32) -> Big {
    Big::pow2(k)
}
fn m1(b: &Big) -> Big {
    b.sub(&Big::from_u128(1)).unwrap()
}

/// (neg, mag, boundary name) just OUTSIDE the range of the type
pub fn out_of_range(ty: &Ty) -> Vec<(bool, Big, &'static str)> {
    match ty {
        Ty::Uint(n) => {
            let n = *n as u32;
            let mut v = vec![(true, Big::from_u128(1), "-1"), (true, p2(n - 1), "-2^(N-1)"), (false, p2(n), "2^N"), (false, p2(n).add_small(1), "2^N+1"), (false, p2(256), "2^256")];
            if n < 256 {
                v.push((false, m1(&p2(256)), "2^256-1"));
            }
            v
        }
        Ty::Int(n) => {
            let n = *n as u32;
            vec![
                (true, p2(n - 1).add_small(1), "-2^(N-1)-1"),
                (false, p2(n - 1), "2^(N-1)"),
                (false, m1(&p2(n)), "2^N-1"),
                (false, p2(n), "2^N"),
                (true, p2(n), "-2^N"),
                (true, m1(&p2(n)), "-(2^N-1)"),
            ]
        }
        _ => vec![],
    }
}

/// (neg, mag, boundary name) just INSIDE the range
pub fn in_range(ty: &Ty) -> Vec<(bool, Big, &'static str)> {
    match ty {
        Ty::Uint(n) => vec![(false, Big::zero(), "0"), (false, m1(&p2(*n as u32)), "2^N-1"), (false, p2(*n as u32 - 1), "2^(N-1)")],
        Ty::Int(n) => {
            let n = *n as u32;
            vec![(true, p2(n - 1), "-2^(N-1)"), (false, m1(&p2(n - 1)), "2^(N-1)-1"), (true, Big::from_u128(1), "-1"), (false, Big::zero(), "0")]
        }
        _ => vec![],
    }
}

// ---------------------------------------------------------------- mutation

fn wrong_kind(ty: &Ty, u: &mut U) -> J {
    let pool: Vec<J> = match ty {
        Ty::Bool => vec![J::Str("true".into()), J::Num("1".into()), J::Null, J::Num("0".into()), J::Arr(vec![]), J::Str("false".into())],
        Ty::Address => vec![J::Num("0".into()), J::Null, J::Bool(true), J::Arr(vec![]), J::Str("not an address".into()), J::Obj(vec![])],
        Ty::String => vec![J::Num("1".into()), J::Bool(false), J::Null, J::Arr(vec![]), J::Obj(vec![])],
        Ty::Bytes | Ty::BytesN(_) => vec![J::Num("0".into()), J::Null, J::Bool(true), J::Arr(vec![]), J::Obj(vec![])],
        Ty::Uint(_) | Ty::Int(_) => vec![J::Bool(true), J::Null, J::Arr(vec![]), J::Obj(vec![]), J::Str("abc".into()), J::Str(String::new()), J::Str("0x".into()), J::Num("1.5".into()), J::Str("1.5".into())],
        Ty::Struct(_) => vec![J::Arr(vec![]), J::Str("{}".into()), J::Null, J::Num("0".into()), J::Bool(false)],
        Ty::Array(..) => vec![J::Obj(vec![]), J::Str("[]".into()), J::Null, J::Num("0".into()), J::Bool(false)],
    };
    pool[u.below(pool.len())].clone()
}

fn gen_case(tape: Vec<u8>) -> Case {
    let mut u = U::new(&tape);
    let style = u.u64();
    let model = td::gen_model(&mut u, 3, 60);
    let mut doc = td::render_doc(&model, &mut u);
    let mut positions = vec![];
    collect(&model.graph, &Ty::Struct(model.primary.clone()), &model.message, &mut vec![Step::Key("message".into())], &mut positions);
    collect(&model.graph, &Ty::Struct("EIP712Domain".into()), &model.domain, &mut vec![Step::Key("domain".into())], &mut positions);
    // prefer the kind of mutation first, then a position that admits it, so that every kind is frequent
    let kind = [0, 1, 2, 3, 3, 4, 4, 4, 5, 6, 7, 8, 9, 10, 11, 12, 12, 13, 14][u.below(19)];
    let admits = |p: &Pos| -> bool {
        match kind {
            12 | 13 => matches!(p.ty, Ty::Struct(_)),
            14 => matches!(p.ty, Ty::Uint(_) | Ty::Int(_)) && matches!(p.path.last(), Some(Step::Key(_))) && p.path.first() == Some(&Step::Key("message".into())) && p.path.len() >= 2,
            0..=2 => matches!(p.ty, Ty::Uint(_) | Ty::Int(_)),
            3 => matches!(p.ty, Ty::BytesN(_)),
            4 => matches!(p.ty, Ty::Array(_, Some(_))),
            5 | 6 => matches!(p.ty, Ty::Struct(_)),
            7 => matches!(p.ty, Ty::Uint(_) | Ty::Int(_)), // in-range control
            8 => matches!(p.ty, Ty::Address | Ty::Bytes | Ty::BytesN(_)),
            _ => true,
        }
    };
    let cands: Vec<usize> = (0..positions.len()).filter(|i| admits(&positions[*i])).collect();
    let depth_of = |p: &Pos| p.path.len() - 1;
    if kind == 11 || cands.is_empty() {
        // rename the type of a member of a reachable struct to an undefined struct
        let mut reach = vec![model.primary.clone(), "EIP712Domain".to_string()];
        reach.extend(model.graph.dependencies(&model.primary).unwrap_or_default());
        let with_members: Vec<&String> = reach.iter().filter(|s| *s != "EIP712Domain" && model.graph.get(s).map(|d| !d.members.is_empty()).unwrap_or(false)).collect();
        if let Some(sname) = with_members.get(u.below(with_members.len().max(1))) {
            let def = model.graph.get(sname).unwrap();
            let mi = u.below(def.members.len());
            let undefined = ["Undefined", "uint7", "bytes33", "int", "uint", "Bytes32", "address payable", "bytes0", "uint264", "string ", "uint0256", "bytes032", "int08", "uint008", "bytes4294967298", "bytes288", "bytes65568", "uint4294967552", "bytes18446744073709551648"][u.below(19)];
            let suffix = ["", "[]", "[2]", "[02]", "[+1]"][u.below(5)];
            if let Some(J::Arr(members)) = at(&mut doc, &[Step::Key("types".into()), Step::Key((*sname).clone())]) {
                if let Some(J::Obj(kv)) = members.get_mut(mi) {
                    for (k, v) in kv.iter_mut() {
                        if k == "type" {
                            *v = J::Str(format!("{undefined}{suffix}"));
                        }
                    }
                }
            }
            return Case { doc: doc.render_styled(style), model: None, mutation: "undefined-struct-type".into(), ty: undefined.to_string(), depth: 0, detail: format!("{sname}.{}", def.members[mi].0), lenient: false };
        }
        // graph without members: fall back to an undeclared top-level member
        if let Some(J::Obj(kv)) = at(&mut doc, &[Step::Key("message".into())]) {
            kv.push(("undeclared".into(), J::Num("1".into())));
        }
        return Case { doc: doc.render_styled(style), model: None, mutation: "undeclared-member".into(), ty: model.primary.clone(), depth: 0, detail: "top level".into(), lenient: false };
    }
    let pos = &positions[cands[u.below(cands.len())]];
    let depth = depth_of(pos);
    let tyname = pos.ty.name();
    if kind == 12 {
        // the declaration names one member twice (so that counting declared members and counting properties
        // can be made to agree) and the value carries as many undeclared members as there are duplicates
        let Ty::Struct(sname) = &pos.ty else { unreachable!() };
        let mut dups = 0;
        if let Some(J::Arr(members)) = at(&mut doc, &[Step::Key("types".into()), Step::Key(sname.clone())]) {
            if !members.is_empty() {
                dups = 1 + u.below(2);
                for _ in 0..dups {
                    let m = members[u.below(members.len())].clone();
                    let i = u.below(members.len() + 1);
                    members.insert(i, m);
                }
            }
        }
        let extras = dups.max(1);
        if let Some(J::Obj(kv)) = at(&mut doc, &pos.path) {
            for e in 0..extras {
                let name = format!("{}{}", ["undeclared", "extra", "zz", "Name2"][u.below(4)], if e == 0 { String::new() } else { e.to_string() });
                let name = if kv.iter().any(|(k, _)| *k == name) { format!("zz_undeclared{e}") } else { name };
                let i = u.below(kv.len() + 1);
                kv.insert(i, (name, [J::Num("1".into()), J::Null, J::Str("x".into()), J::Obj(vec![])][u.below(4)].clone()));
            }
        }
        return Case { doc: doc.render_styled(style), model: None, mutation: "undeclared-member".into(), ty: tyname, depth, detail: format!("{extras} undeclared next to {dups} duplicated declarations of {sname}"), lenient: false };
    }
    if kind == 14 {
        // an integer type of width 0 (or another width that is not 8..256 in steps of 8) is not a type: the
        // member then refers to an undefined struct. Every instance of the member carries the value 0, the one
        // value that "fits" into zero bits, so that a range check alone would not refuse the document.
        let Some(Step::Key(member)) = pos.path.last().cloned() else { unreachable!() };
        let parent_path = &pos.path[..pos.path.len() - 1];
        let parent_ty = if parent_path.len() == 1 { Some(Ty::Struct(model.primary.clone())) } else { positions.iter().find(|q| q.path == parent_path).map(|q| q.ty.clone()) };
        if let Some(Ty::Struct(sname)) = parent_ty {
            let signed = matches!(pos.ty, Ty::Int(_));
            // (the long ones are a valid width plus 2^8, 2^16, 2^32 or 2^64: a width narrowed with `as` wraps onto it)
            let bad = if signed {
                ["int0", "int00", "int4", "int264", "int7", "int4294967304", "int65544", "int18446744073709551624", "int512"][u.below(9)]
            } else {
                ["uint0", "uint00", "uint4", "uint264", "uint1", "uint4294967552", "uint65792", "uint512", "uint18446744073709551872", "uint16777472"][u.below(10)]
            };
            let instances: Vec<Vec<Step>> = positions
                .iter()
                .filter(|q| q.path.last() == Some(&Step::Key(member.clone())) && q.path.len() >= 2 && {
                    let pp = &q.path[..q.path.len() - 1];
                    if pp.len() == 1 { pp[0] == Step::Key("message".into()) && model.primary == sname } else { positions.iter().any(|r| r.path == pp && r.ty == Ty::Struct(sname.clone())) }
                })
                .map(|q| q.path.clone())
                .collect();
            let zero = [J::Num("0".into()), J::Str("0".into()), J::Str("0x0".into())][u.below(3)].clone();
            for ip in &instances {
                if let Some(slot) = at(&mut doc, ip) {
                    *slot = zero.clone();
                }
            }
            if let Some(J::Arr(members)) = at(&mut doc, &[Step::Key("types".into()), Step::Key(sname.clone())]) {
                for m in members.iter_mut() {
                    if let J::Obj(kv) = m {
                        if kv.iter().any(|(k, v)| k == "name" && *v == J::Str(member.clone())) {
                            for (k, v) in kv.iter_mut() {
                                if k == "type" {
                                    *v = J::Str(bad.to_string());
                                }
                            }
                        }
                    }
                }
            }
            return Case { doc: doc.render_styled(style), model: None, mutation: "undefined-struct-type".into(), ty: bad.to_string(), depth, detail: format!("{sname}.{member} retyped {bad}, all {} instances set to 0", instances.len()), lenient: false };
        }
    }
    if kind == 13 {
        // one declared member is missing and one undeclared member is present: the property count is right
        if let Some(J::Obj(kv)) = at(&mut doc, &pos.path) {
            let removed = if kv.is_empty() { None } else { Some(kv.remove(u.below(kv.len()))) };
            let name = if kv.iter().any(|(k, _)| k == "undeclared") { "zz_undeclared" } else { "undeclared" };
            let value = match (&removed, u.bool()) {
                (Some((_, v)), true) => v.clone(),
                _ => J::Num("1".into()),
            };
            let i = u.below(kv.len() + 1);
            kv.insert(i, (name.to_string(), value));
            let what = removed.map(|(k, _)| k).unwrap_or_default();
            return Case { doc: doc.render_styled(style), model: None, mutation: "missing-member".into(), ty: tyname, depth, detail: format!("{what:?} replaced by an undeclared member"), lenient: false };
        }
    }
    let slot = at(&mut doc, &pos.path).expect("path exists in the rendered document");
    let (mutation, detail, conforming): (&str, String, Option<Val>) = match kind {
        0..=2 => {
            let opts = out_of_range(&pos.ty);
            let (neg, mag, bname) = opts[u.below(opts.len())].clone();
            let sp = spellings(neg, &mag);
            let (frag, spname) = sp[u.below(sp.len())].clone();
            *slot = J::Raw(frag);
            ("integer-out-of-range", format!("{bname} as {spname}"), None)
        }
        7 => {
            let opts = in_range(&pos.ty);
            let (neg, mag, bname) = opts[u.below(opts.len())].clone();
            let sp = spellings(neg, &mag);
            let (frag, spname) = sp[u.below(sp.len())].clone();
            *slot = J::Raw(frag);
            let v = if matches!(pos.ty, Ty::Uint(_)) { Val::Uint(mag) } else { Val::Int { neg: neg && !mag.is_zero(), mag } };
            ("control-integer-in-range", format!("{bname} as {spname}"), Some(v))
        }
        3 => {
            let Ty::BytesN(n) = pos.ty else { unreachable!() };
            let n = n as usize;
            let len = match u.below(9) {
                0 if n > 1 => n - 1,
                1 => n + 1,
                2 => 0,
                3 => 33,
                4 => n + 256,
                5 => n + 512,
                6 => [64usize, 255, 256, 257, 288, 1024][u.below(6)],
                7 => 2 * n,
                _ => 32 + n,
            };
            let len = if len == n { n + 1 } else { len };
            *slot = J::Str(format!("0x{}", hex_lower(&u.bytes(len))));
            ("bytesN-wrong-length", format!("{len} bytes for bytes{n}"), None)
        }
        4 => {
            let Ty::Array(_, Some(n)) = &pos.ty else { unreachable!() };
            let n = *n as usize;
            let J::Arr(items) = slot else { unreachable!("fixed array renders as array") };
            if n > 0 && u.bool() {
                items.pop();
                ("fixed-array-wrong-size", format!("{} elements for size {n}", n - 1), None)
            } else {
                // duplicate an element if there is one, otherwise add a JSON value of a plausible kind
                let extra = items.last().cloned().unwrap_or(J::Num("0".into()));
                items.push(extra);
                ("fixed-array-wrong-size", format!("{} elements for size {n}", n + 1), None)
            }
        }
        5 => {
            let J::Obj(kv) = slot else { unreachable!("struct renders as object") };
            if kv.is_empty() {
                kv.push(("undeclared".into(), J::Num("1".into())));
                ("undeclared-member", "added to an empty struct".into(), None)
            } else {
                let i = u.below(kv.len());
                let (k, _) = kv.remove(i);
                ("missing-member", k, None)
            }
        }
        6 => {
            let J::Obj(kv) = slot else { unreachable!("struct renders as object") };
            // half of the time the undeclared member is one that exists elsewhere: a standard domain field (with a
            // value of its standard type) or a member declared by another struct of the document
            let mut known: Vec<(String, J)> = vec![
                ("name".into(), J::Str("Ether Mail".into())),
                ("version".into(), J::Str("1".into())),
                ("chainId".into(), J::Num("1".into())),
                ("verifyingContract".into(), J::Str("0xCcCCccccCCCCcCCCCCCcCcCccCcCCCcCcccccccC".into())),
                ("salt".into(), J::Str(format!("0x{}", "ab".repeat(32)))),
            ];
            for def in &model.graph.structs {
                for (m, _) in &def.members {
                    known.push((m.clone(), J::Num("1".into())));
                }
            }
            known.retain(|(n, _)| !kv.iter().any(|(k, _)| k == n));
            let (name, value): (String, J) = if u.bool() && !known.is_empty() {
                known[u.below(known.len())].clone()
            } else {
                let name = ["undeclared", "extra", "Name", "value2", "", " "][u.below(6)];
                let name = if kv.iter().any(|(k, _)| k == name) { "zz_undeclared" } else { name };
                (name.to_string(), [J::Num("1".into()), J::Null, J::Str("x".into()), J::Obj(vec![])][u.below(4)].clone())
            };
            let i = u.below(kv.len() + 1);
            kv.insert(i, (name.clone(), value));
            ("undeclared-member", format!("{name:?}"), None)
        }
        8 => {
            let (frag, what) = match &pos.ty {
                Ty::Address => {
                    let a = u.bytes(21);
                    match u.below(6) {
                        4 => (format!("0x0x{}", hex_lower(&a[..20])), "address with a doubled 0x prefix"),
                        5 => (format!("0x+{}", hex_lower(&a[..20])[1..].to_string()), "address with a sign after the prefix"),
                        0 => (format!("0x{}", hex_lower(&a[..19])), "19-byte address"),
                        1 => (format!("0x{}", hex_lower(&a)), "21-byte address"),
                        2 => (hex_lower(&a[..20]), "address without 0x"),
                        _ => (format!("0x{}zz", hex_lower(&a[..19])), "non-hex address"),
                    }
                }
                _ => {
                    let n = if let Ty::BytesN(n) = pos.ty { n as usize } else { 4 };
                    let b = u.bytes(n);
                    match u.below(3) {
                        0 => (hex_lower(&b), "bytes without 0x"),
                        1 => (format!("0x{}a", hex_lower(&b)), "odd number of digits"),
                        _ => (format!("0x{}zz", hex_lower(&b[..n - 1])), "non-hex digits"),
                    }
                }
            };
            *slot = J::Str(frag);
            ("malformed-bytes-or-address", what.to_string(), None)
        }
        _ => {
            *slot = wrong_kind(&pos.ty, &mut u);
            ("wrong-json-kind", slot.render(), None)
        }
    };
    let model_out = conforming.map(|v| {
        let mut m = model.clone();
        let (root, rest) = pos.path.split_first().unwrap();
        let ok = match root {
            Step::Key(k) if k == "message" => {
                let r = set_val(&mut m.message, rest, v.clone());
                if m.primary == "EIP712Domain" {
                    // message and domain are separate JSON objects even when they share a type
                }
                r
            }
            _ => set_val(&mut m.domain, rest, v),
        };
        assert!(ok, "harness: path resolves in the model");
        m
    });
    let lenient = mutation == "control-integer-in-range" && detail.ends_with("as hex-string") && detail.starts_with('-');
    Case { doc: doc.render_styled(style), model: model_out, mutation: mutation.to_string(), ty: tyname, depth, detail, lenient }
}

fn judge(c: &Case, cls: &mut Classifier) -> Verdict {
    let docs = crate::engine::truncate(&c.doc, 900);
    let got = crate::isolate::inflight("typeddata", c.doc.as_bytes(), "generated", || {
        catch(|| serde_json::from_str::<TypedData>(&c.doc).map(|t| (t.domain_separator().0, t.message_hash().0, t.signing_message().0)).map_err(|e| e.to_string()))
    });
    let got = match got {
        Ok(g) => g,
        Err(p) => return fail("result or error", p, format!("typed-data handling panicked ({} / {}): {docs}", c.mutation, c.detail)),
    };
    match (&c.model, got) {
        (None, Ok((_, mh, _))) => {
            return fail("Err", format!("accepted, message hash {}", hex_lower(&mh)), format!("non-conforming document accepted: {} at depth {} ({}, type {}): {docs}", c.mutation, c.depth, c.detail, c.ty));
        }
        (None, Err(_)) => {}
        (Some(_), Err(_)) if c.lenient => {
            cls.unspecified("negative-hex-string-control-refused");
            return Ok(());
        }
        (Some(_), Err(e)) => return fail("accepted", format!("Err({e})"), format!("conforming control refused: {} ({}, type {}): {docs}", c.mutation, c.detail, c.ty)),
        (Some(m), Ok((ds, mh, dg))) => {
            let Some((wds, wmh, wdg)) = td::expected(m) else {
                return fail("conforming model", "reference refuses it", "harness: control model does not conform");
            };
            if (ds, mh, dg) != (wds, wmh, wdg) {
                return fail(hex_lower(&wmh), hex_lower(&mh), format!("control value at a range boundary hashes differently from the reference: {} ({}, type {}): {docs}", c.mutation, c.detail, c.ty));
            }
        }
    }
    cls.label(&c.mutation);
    if c.mutation == "integer-out-of-range" || c.mutation == "control-integer-in-range" {
        let signed = if c.ty.starts_with("int") { "int" } else { "uint" };
        cls.label(&format!("{}/{signed}/{}", c.mutation, c.detail.split(" as ").next().unwrap_or("")));
        cls.label(&format!("spelling/{}", c.detail.split(" as ").nth(1).unwrap_or("")));
    }
    cls.label(&format!("depth-{}", c.depth.min(4)));
    cls.nontrivial(&c.doc);
    cls.sample(&c.mutation, || json!({"mutation": c.mutation, "type": c.ty, "detail": c.detail, "depth": c.depth, "doc": crate::engine::truncate(&c.doc, 700)}));
    Ok(())
}

// ---------------------------------------------------------------- exhaustive width x boundary x spelling grid

fn grid() -> Vec<Case> {
    let mut out = vec![];
    for signed in [false, true] {
        for w in 1..=32u16 {
            let ty = if signed { Ty::Int(8 * w) } else { Ty::Uint(8 * w) };
            let graph = TypeGraph {
                structs: vec![
                    StructDef { name: "T".into(), members: vec![("v".into(), ty.clone())] },
                    StructDef { name: "EIP712Domain".into(), members: vec![("name".into(), Ty::String)] },
                ],
            };
            let domain = Val::Struct(vec![("name".into(), Val::Str("grid".into()))]);
            let mk = |frag: &str| -> String {
                format!(
                    "{{\"types\":{{\"EIP712Domain\":[{{\"name\":\"name\",\"type\":\"string\"}}],\"T\":[{{\"name\":\"v\",\"type\":\"{}\"}}]}},\"primaryType\":\"T\",\"domain\":{{\"name\":\"grid\"}},\"message\":{{\"v\":{frag}}}}}",
                    ty.name()
                )
            };
            for (neg, mag, b) in out_of_range(&ty) {
                for (frag, sp) in spellings(neg, &mag) {
                    out.push(Case { doc: mk(&frag), model: None, mutation: "integer-out-of-range".into(), ty: ty.name(), depth: 1, detail: format!("{b} as {sp}"), lenient: false });
                }
            }
            for (neg, mag, b) in in_range(&ty) {
                for (frag, sp) in spellings(neg, &mag) {
                    let v = if signed { Val::Int { neg: neg && !mag.is_zero(), mag: mag.clone() } } else { Val::Uint(mag.clone()) };
                    let model = TdModel { graph: graph.clone(), primary: "T".into(), message: Val::Struct(vec![("v".into(), v)]), domain: domain.clone() };
                    out.push(Case { doc: mk(&frag), model: Some(model), mutation: "control-integer-in-range".into(), ty: ty.name(), depth: 1, detail: format!("{b} as {sp}"), lenient: neg && !mag.is_zero() && sp == "hex-string" });
                }
            }
        }
    }
    out
}

// ---------------------------------------------------------------- CLI sample

static CLI: OnceLock<PathBuf> = OnceLock::new();
static ROOT: OnceLock<PathBuf> = OnceLock::new();

fn judge_cli(c: &Case, cls: &mut Classifier) -> Verdict {
    let Some(cli) = CLI.get() else { return fail("cli path", "none", "CLI not available") };
    let root = ROOT.get().cloned().unwrap_or_else(|| PathBuf::from("/verif"));
    let phrase = bip39::encode_phrase(&[0x5au8; 16]);
    let file = crate::cli::temp_file(&root, c.doc.as_bytes());
    let f = file.to_string_lossy().to_string();
    let runs = [
        crate::cli::Invocation::new(&["sign", "--mnemonic", &phrase, "typeddata", &f]),
        crate::cli::Invocation::new(&["hash", "typeddata", &f]),
        crate::cli::Invocation::new(&["hash", "typeddata", "--message-hash", "-"]).stdin(c.doc.as_bytes()),
    ];
    let expected = c.model.as_ref().and_then(td::expected);
    for (ri, inv) in runs.into_iter().enumerate() {
        let out = crate::cli::run(cli, &inv, std::time::Duration::from_secs(60));
        if out.timed_out {
            return Ok(()); // counted by the caller as inconclusive through the label below
        }
        if c.model.is_none() {
            if !out.ordinary_error() || !out.stdout.is_empty() {
                return fail("error exit with empty stdout", out.describe(), format!("`hdwallet {}` on a non-conforming document ({}, {})", inv.args.join(" "), c.mutation, c.detail));
            }
        } else if !out.ok() {
            if c.lenient && out.ordinary_error() && out.stdout.is_empty() {
                continue;
            }
            return fail("success", out.describe(), format!("`hdwallet {}` on a conforming control", inv.args.join(" ")));
        } else if let (Some((_, mh, dg)), 1 | 2) = (&expected, ri) {
            // the control's digest / message hash as printed by the executable
            let want = format!("0x{}\n", hex_lower(if ri == 1 { dg } else { mh }));
            if !out.stdout_str().eq_ignore_ascii_case(&want) {
                return fail(want, out.describe(), format!("`hdwallet {}` on a conforming control ({})", inv.args.join(" "), c.detail));
            }
        }
    }
    let _ = std::fs::remove_file(file);
    cls.label("cli-sample");
    cls.nontrivial(&(c.doc.as_str(), "cli"));
    Ok(())
}

pub fn run(ctx: &mut Ctx) {
    ctx.rule = "a well-typed document from the C08 generator, one position chosen among ALL positions of the value tree (top level, nested structs, array elements at any depth, domain values) and one mutation making it non-conforming: uintN/intN just outside the range (-1, -2^(N-1), 2^N, 2^N+1, 2^256 / -2^(N-1)-1, 2^(N-1), 2^N-1, 2^N, -2^N) in every spelling that can carry the value (JSON integer, integral float, decimal string, hex string), bytesN of N-1/N+1/0/33/2N/32+N/N+256/N+512/64..1024 bytes, fixed array of size-1/size+1, a missing member, an undeclared member, a member type renamed to an undefined struct, a JSON value of the wrong kind, malformed bytes/addresses; controls: in-range neighbours (0, 2^N-1, -2^(N-1), 2^(N-1)-1, -1) must be accepted and hash to the reference value. Plus the exhaustive grid 32 widths x {uint,int} x boundaries x spellings on a minimal document, and a CLI sample (sign/hash typeddata must fail with empty stdout). Non-trivial: every mutated document; distinct by document.".into();
    ctx.assumptions = vec!["float literals that f64 cannot carry exactly are not generated here (known finding json-float-literal-rounded, C13)".into()];
    if let Some(c) = &ctx.cli {
        let _ = CLI.set(c.clone());
    }
    let _ = ROOT.set(ctx.root.clone());
    ctx.replay_known_and_regressions(&replay);
    let n = ctx.tier.pick(60_000, 1_000_000);
    ctx.run_prop("mutated", n, || crate::gen::tape(1500).prop_map(gen_case), judge);
    let g = grid();
    ctx.run_cases("grid", &g, judge);
    ctx.exhaustive_parts.push("integer width x signedness x boundary x spelling grid (32 x 2 x 9..10 x <=4)".into());
    // CLI sample: every 20th grid case plus generated ones
    if CLI.get().map(|c| c.exists()).unwrap_or(false) {
        let mut sample: Vec<Case> = g.iter().step_by(ctx.tier.pick(40, 4)).cloned().collect();
        for i in 0..ctx.tier.pick(60, 1500) {
            let tape = crate::engine::Prng::new(ctx.sub_seed("cli", i)).bytes(900);
            sample.push(gen_case(tape));
        }
        ctx.run_cases("cli", &sample, judge_cli);
        ctx.floor_abs("cli-sample", 100);
    } else {
        ctx.inconclusive("CLI executable not available for the CLI sample");
    }
    crate::fuzz::run_for(ctx);
    for m in ["integer-out-of-range", "control-integer-in-range", "bytesN-wrong-length", "fixed-array-wrong-size", "missing-member", "undeclared-member", "undefined-struct-type", "wrong-json-kind", "malformed-bytes-or-address"] {
        ctx.floor_abs(m, (n / 100) as u64);
    }
    for b in ["-1", "-2^(N-1)", "2^N", "2^N+1", "2^256"] {
        ctx.floor_abs(&format!("integer-out-of-range/uint/{b}"), 100);
    }
    for b in ["-2^(N-1)-1", "2^(N-1)", "2^N-1", "2^N", "-2^N"] {
        ctx.floor_abs(&format!("integer-out-of-range/int/{b}"), 100);
    }
    for s in ["json-int", "json-float", "dec-string", "hex-string"] {
        ctx.floor_abs(&format!("spelling/{s}"), 200);
    }
    ctx.floor_abs("depth-2", (n / 50) as u64);
    ctx.floor_abs("depth-3", (n / 100) as u64);
}

pub fn replay(sub: &str, case: &Value) -> Option<Verdict> {
    match sub {
        "mutated" | "grid" => Some(replay_as::<Case>(case, judge)),
        "cli" => Some(replay_as::<Case>(case, judge_cli)),
        _ => None,
    }
}

pub fn set_cli(cli: Option<PathBuf>, root: PathBuf) {
    if let Some(c) = cli {
        let _ = CLI.set(c);
    }
    let _ = ROOT.set(root);
}

pub fn gen_case_pub(tape: Vec<u8>) -> Case {
    gen_case(tape)
}
